"""C02 - incoming byte streams are judged exactly as RFC 6455 prescribes.

Monitor shape: history + executable reference.  One real endpoint per case (server or client
protocol of the selected framework, after a real opening handshake), the harness plays the peer
with raw octets.  After EVERY read the observable trace (onMessage/onPing/onPong, pongs written,
close frames written, transport drop, exceptions reaching the framework - in the order they
happened) is compared with the timeline of ``vf.c02_judge`` for the octets received so far, and
the final traces of the same stream under different segmentations are compared with each other.
"""

import random
import struct
import zlib

from vf import build_nvx
from vf import c02_judge as J
from vf import c02_monitor as M
from vf.runner import h
from vf.world import segmentations

PROPERTY = "C02"
LEVEL = "exploration"
EXHAUSTIVE = {"quick": False, "thorough": True}
RULE = ("(a) exhaustive: every value of the first two frame octets x canonical completion per length class "
        "(7-bit exact; 126: ext 0/125/126/65535; 127: ext 0/65535/65536/2^63-1 header only/2^63/2^64-1), followed by "
        "a ping and a text message, in receiver contexts {server,client} x {outside, inside a fragmented text message "
        "(in PMCE contexts half of them inside a COMPRESSED message, continuation payloads being DEFLATE blocks)} "
        "x {permessage-deflate negotiated or not} x {failByDrop on/off} - quick: 2 complementary contexts completely (one "
        "per framework, rotating with the seed: seeds 0..7 cover all 16) + the others with length-class representatives, "
        "thorough: all 16 completely in both frameworks; (b) grammar-generated frame "
        "sequences with ONE mutation from the violation list (compressed messages from one compressor per connection), "
        "UTF-8 corpus (every ill-formed class, cut across frames), 'ASCII run after an open multi-octet sequence' corpus "
        "(pieces = fragments / reads / inflate calls ending after each proper prefix of a 2/3/4-octet sequence, then 1..40 "
        "ASCII octets, then the continuation octets or not, plus valid twins; NVX and pure-Python validator in both tiers), "
        "'control frame inside an open sequence' corpus (close with valid / ill-formed / no reason, ping/pong with non-UTF-8 "
        "payload between text fragments ending after each proper prefix of a 2/3/4-octet sequence, plain and compressed; close "
        "replies with reasons after a 1002/1007 failure), close-payload corpus, PMCE corpus (context take-over "
        "with verified back-references, stored/fixed/dynamic blocks, inflated text valid / ill-formed / truncated, "
        "fragmented with control frames in between, undecodable DEFLATE); (c) every stream under >=2 (exhaustive part) / "
        ">=4 (other parts) segmentations incl. 1-byte trickle and single cuts for streams <=48 octets (quick: every other "
        "cut), with a prefix check after every read; read events of SEVERAL chunks (asyncio: k data_received() calls before the "
        "loop runs, so that the adapter's consumer finds a queue; two-way splits, the piece boundaries of the asciirun corpus, "
        "bytewise chunks in groups of 1..6, header/mask/payload cuts of the exhaustive sweep); (d) 2..3 connections open at "
        "the same time - mostly of ONE factory - fed streams that leave receiver state pending at read boundaries (open UTF-8 "
        "sequence, open fragmented / compressed message, half a control frame, half a header), their reads interleaved "
        "alternately / randomly / in runs: each connection judged on its own octets after every read and compared with the "
        "same reads on a connection that is alone; (e) every octet the endpoint writes (pongs, close frames) judged by the "
        "same reference in the PEER's role, incl. failures whose announced reason text is long (every RFC 1951 decoding "
        "error class as RSV1 payload, first / second message / continuation). "
        "Non-trivial = the reference assigns at least one event, a close or a failure to the stream; distinct = "
        "(context, stream) hash.")
ASSUMPTIONS = [
    "oracle = vf/c02_judge.py (written from RFC 6455 5/7/8.1 and RFC 7692 6/7.2, self-checked against the RFC examples and the first-draft judge); UTF-8 = vf/utf8_ref.py (Unicode Table 3-7); zlib is the inflate reference",
    "default protocol options except failByDrop and permessage-deflate; websocket_version 13 (Hybi-13 / RFC 6455) only",
    "grey (either outcome accepted): close codes 1012-1014; everything after a valid peer close frame (crash-freedom only); the verdict for DEFLATE data that zlib rejects, that ends with BFINAL or whose stripped tail is not an empty stored block (crash-freedom and the deliveries before that message ARE asserted); onPing/onPong callbacks after a failure in closing-handshake mode; WHEN inside a header / inside a text frame's payload / inside a close frame's payload the failure is raised (asserted: not before the violation is decidable, not after the complete header resp. the end of that frame)",
    "compressed text that inflates to invalid UTF-8: failure not before the frame in which zlib emits the ill-formed octets, at the latest at the end of the message (or at the next violation: then either class); control frames that fall due in between may or may not be delivered/answered (an inflater may lag) - but what IS delivered must be a prefix of the reference's events and every delivered ping must be answered before the failure",
    "a close frame whose code AND reason are both unacceptable may be failed with 1002 or 1007",
    "in closing-handshake mode only the FIRST close frame written, absence of later message deliveries and absence of later pongs are asserted",
    "an exception that reaches the framework (out of dataReceived, or out of a loop callback under asyncio) is a violation in every zone, grey or not",
    "a transport may call data_received() several times before the event loop runs the protocol's callbacks (asyncio.Protocol contract; TLS records, proxy/buffered shims, uvloop) - CPython's plain selector transport makes one call per loop iteration; under Twisted the same chunks are ordinary consecutive reads",
    "connections of one factory (and of different factories in one process) are independent: a connection's trace must not depend on what other connections receive in between; interleaving happens at read granularity only (single-threaded reactor)",
    "octets written by the endpoint are judged by vf/c02_judge.py in the peer's role in EVERY zone (grey or not): a pong / close frame the peer has to reject answers / announces nothing; the application never sends in this check, so only pongs and close frames are expected",
    "worlds: vf/world.py fake transports (vf/c02_fast.py builds them from one class per framework, same method bodies, and settles with a constant-time 'nothing runnable' test); asyncio loop is run until idle after every read",
    "during the exhaustive sweep autobahn.websocket.protocol.pformat (used only to render two DEBUG log lines per connection) is replaced by a constant; corpora and generated streams run with the original",
    "NVX UTF-8 validator / XOR masker are rebuilt from the current tree (VERIF_NVX_DIR); the pure-Python fall-backs run in the thorough tier",
]
N_CLAUSE_MODE = 2 * len(J.CLAUSES) - 2 * 2    # unmasked-client-frame only server, masked-server-frame only client: both modes still reached
DECIDING = {
    "evaluations": 1000, "prefix_checks": 5000, "deliveries_compared": 1000, "pongs_compared": 500,
    "messages_compared": 500, "segmentation_pairs_compared": 1000, "onclose_reports_checked": 100,
    "outcome/drop/protocol": 10, "outcome/drop/payload": 10, "outcome/close/1002": 10, "outcome/close/1007": 10,
    "valid_close_checked": 10, "clauses_reached": 2 * len(J.CLAUSES), "impl_reasons": 38,
    "compressed_messages_compared": 200, "context_takeover_streams": 50, "clause/compressed-text-invalid-utf8": 50,
    "events_in_failure_window_checked": 10,
    "ascii_after_open_sequence_checked_nvx": 1000, "ascii_after_open_sequence_checked_pure_python": 1000,
    "control_inside_open_sequence_checked": 1000, "valid_close_inside_open_sequence_checked": 500,
    "close_reply_after_failure_checked": 100,
    # several chunks queued inside one read event (asyncio adapter's receive queue)
    "aio_burst_reads": 10000, "aio_burst_chunks": 30000,
    # several connections open at the same time, reads interleaved
    "interleaved_cases": 500, "interleaved_same_factory_groups": 200, "interleave_switches_inside_message": 2000,
    "interleave_switches_with_open_utf8_sequence": 100, "interleaved_vs_alone_compared": 500,
    # what the endpoint writes, judged in the peer's role
    "reply_frames_judged": 10000, "failure_close_frames_judged": 1000, "failure_close_reason_ge_100_octets_judged": 50,
    "undecodable_deflate_failure_closes_judged": 50,
}
ONLINE_MAX = 4096

# --------------------------------------------------------------------------------------------------
# octet helpers (independent of the code under test)
# --------------------------------------------------------------------------------------------------
_xor = J._xor
_CACHE = {}


def ascii_text(n):
    return bytes(0x20 + (j * 7) % 95 for j in range(n))


def text_payload(n):
    """valid UTF-8 of exactly n octets containing 2/3/4-octet sequences where they fit"""
    k = ("t", n)
    if k not in _CACHE:
        unit = "aé€\U0001f600z".encode("utf-8")     # 1+2+3+4+1 = 11
        s = (unit * (n // len(unit)))
        s += ascii_text(n - len(s))
        _CACHE[k] = s
    return _CACHE[k]


def bin_payload(n):
    k = ("b", n)
    if k not in _CACHE:
        _CACHE[k] = bytes((0xF5 + 3 * j) & 0xFF for j in range(n))
    return _CACHE[k]


def comp_payload(n):
    """DEFLATE payload of exactly n octets (n>=2: n-2 ASCII literals; 1: empty message; 0: nothing)"""
    k = ("c", n)
    if k not in _CACHE:
        _CACHE[k] = b"" if n == 0 else (b"\x00" if n == 1 else J.deflate_literals(ascii_text(n - 2)))
    return _CACHE[k]


def enc(op, payload=b"", fin=True, rsv=0, key=None, form=None, declared=None):
    b0 = (0x80 if fin else 0) | ((rsv & 7) << 4) | (op & 15)
    n = len(payload) if declared is None else declared
    if form is None:
        form = 7 if n <= 125 else (16 if n <= 0xFFFF else 64)
    m = 0x80 if key is not None else 0
    if form == 7:
        hdr = bytes([b0, m | (n & 0x7F)])
    elif form == 16:
        hdr = bytes([b0, m | 126]) + struct.pack("!H", n & 0xFFFF)
    else:
        hdr = bytes([b0, m | 127]) + struct.pack("!Q", n & 0xFFFFFFFFFFFFFFFF)
    if key is not None:
        return hdr + bytes(key) + _xor(payload, key)
    return hdr + payload


def peer_key(ctx, salt=0):
    """mask key a well-behaved peer of this receiver uses (None when the peer is a server)"""
    if ctx.role == "server":
        return bytes([(0x37 + salt) & 0xFF, (0xFA ^ salt) & 0xFF, (0x21 + 3 * salt) & 0xFF, 0x3D])
    return None


# --------------------------------------------------------------------------------------------------
# (a) exhaustive header sweep
# --------------------------------------------------------------------------------------------------
EXT16 = (0, 125, 126, 65535)
EXT64 = (0, 65535, 65536, (1 << 63) - 1, 1 << 63, (1 << 64) - 1)
REP_L7 = (0, 1, 2, 125, 126, 127)


def variants(b1):
    l7 = b1 & 0x7F
    return EXT16 if l7 == 126 else (EXT64 if l7 == 127 else (None,))


_PRE_TEXT = b"pr\xc3\xa9"
_PRE_COMP = None


def pre_frame(ctx, b0, b1, supplied_zero):
    """the first fragment that puts the receiver 'inside a fragmented text message'.  In PMCE contexts half of
    the cases (parity of b0+b1) open a COMPRESSED message: DEFLATE of 'pr\xe9' ended by a sync flush; continuation
    payloads are then ``comp_payload`` blocks, so that a FIN continuation of any length completes a message that
    is well-formed per RFC 7692 7.2.1 (for an empty continuation the flush marker is stripped here already)."""
    global _PRE_COMP
    pk = peer_key(ctx)
    if not ctx.inside:
        return b"", False
    if ctx.pmce and ((b0 + b1) & 1):
        if _PRE_COMP is None:
            c = zlib.compressobj(6, zlib.DEFLATED, -15)
            _PRE_COMP = c.compress(_PRE_TEXT) + c.flush(zlib.Z_SYNC_FLUSH)
            assert _PRE_COMP.endswith(b"\x00\x00\xff\xff")
        return enc(1, _PRE_COMP[:-4] if supplied_zero else _PRE_COMP, fin=False, rsv=4, key=pk), True
    return enc(1, _PRE_TEXT, fin=False, key=pk), False


def hdr_stream(ctx, b0, b1, vi):
    l7 = b1 & 0x7F
    masked = b1 >> 7
    var = variants(b1)[vi]
    L = l7 if var is None else var
    op, rsv = b0 & 15, (b0 >> 4) & 7
    hdr = bytes([b0, b1])
    if l7 == 126:
        hdr += struct.pack("!H", var)
    elif l7 == 127:
        hdr += struct.pack("!Q", var)
    supplied = L if L <= 65536 else (0 if L == (1 << 63) - 1 else 8)
    pre, pre_compressed = pre_frame(ctx, b0, b1, supplied == 0)
    if op == 8:
        p = b"" if supplied == 0 else (b"\x03" if supplied == 1 else b"\x03\xe8" + ascii_text(supplied - 2))
    elif op == 0 and pre_compressed:
        p = comp_payload(supplied)
    elif op == 1 or (op == 0 and ctx.inside):
        p = comp_payload(supplied) if (rsv == 4 and ctx.pmce and op == 1) else text_payload(supplied)
    elif op == 2 and rsv == 4 and ctx.pmce:
        p = comp_payload(supplied)
    else:
        p = bin_payload(supplied)
    if masked:
        key = bytes([(b0 * 7 + 1) & 0xFF, b1 ^ 0x5A, 0x33, (vi * 37 + 0x80) & 0xFF])
        frame = hdr + key + _xor(p, key)
    else:
        frame = hdr + p
    pk = peer_key(ctx)
    if L == (1 << 63) - 1:
        return pre + frame, len(pre), len(pre) + len(hdr) + (4 if masked else 0)
    trailer = enc(9, b"T", key=pk) + enc(1, b"after", key=pk)
    return pre + frame + trailer, len(pre), len(pre) + len(hdr) + (4 if masked else 0)


def hdr_alt_segs(n, fstart, hend, sel, count):
    """deterministic choice of alternative segmentations for an exhaustive case"""
    cands = []
    if n <= 220:
        cands.append(["bytewise"])
    cands.append(["cuts", [fstart + 1]])
    cands.append(["cuts", [fstart + 2]])
    cands.append(["cuts", [hend - 1, hend]] if hend - 1 > fstart else ["cuts", [hend]])
    cands.append(["cuts", [hend, min(n, hend + 1)]])
    cands.append(["cuts", [fstart, hend, (hend + n) // 2]])
    cands.append(["policy", "small", "s%d" % sel] if n <= 400 else ["policy", "random", "s%d" % sel])
    # several chunks inside ONE read event (asyncio: queued before the adapter's consumer runs)
    cands.append(["burst", ["cuts", [fstart + 1, hend, min(n, hend + 1)]], "all"])
    cands.append(["burst", ["bytewise"], "s%d" % sel] if n <= 220 else ["burst", ["policy", "random", "s%d" % sel], "all"])
    out = []
    for j in range(count):
        out.append(cands[(sel + j * 3) % len(cands)])
    return out


def chunks_of(stream, spec):
    n = len(stream)
    if spec[0] == "whole":
        return [stream] if n else []
    if spec[0] == "bytewise":
        return [stream[i:i + 1] for i in range(n)]
    if spec[0] == "cuts":
        cuts = sorted(set(c for c in spec[1] if 0 < c < n))
        out, prev = [], 0
        for c in cuts + [n]:
            out.append(stream[prev:c])
            prev = c
        return [c for c in out if c]
    if spec[0] == "policy":
        return segmentations(random.Random(spec[2]), stream, spec[1])
    raise ValueError(spec)


def reads_of(stream, spec):
    """-> list of reads.  ``["burst", base_spec, g]``: the chunks of ``base_spec`` grouped into read events of several
    chunks each (g == "all": ONE read event; otherwise groups of 1..6 chunks drawn from Random(g)); a group reaches an
    asyncio protocol as back-to-back data_received() calls before the loop runs (vf.c02_fast.FastAioEndpoint.feed_burst),
    a Twisted protocol - dataReceived() is synchronous - as ordinary consecutive reads."""
    if spec[0] != "burst":
        return chunks_of(stream, spec)
    chunks = chunks_of(stream, spec[1])
    if spec[2] == "all":
        return [chunks] if chunks else []
    rng = random.Random("burst/%s" % spec[2])
    out, i = [], 0
    while i < len(chunks):
        grp = chunks[i:i + rng.choice((1, 2, 2, 3, 4, 6))]
        out.append(grp if len(grp) > 1 else grp[0])
        i += len(grp)
    return out


def spec_name(spec):
    if spec[0] == "burst":
        return "burst/" + spec_name(spec[1])
    return spec[0] if spec[0] != "policy" else spec[1]


def account(R, ctx, tl):
    mode = "d" if ctx.drop else "c"
    if tl.failure is not None:
        R.count("clause/" + tl.failure.clause)
        R.seen("clauses_reached", "%s|%s" % (tl.failure.clause[:20], mode))
    for s in tl.saw:
        R.seen("features", s)
    if tl.close is not None and tl.close[3]:
        R.count("grey_close_codes")
    if tl.grey_from is not None and tl.n > tl.grey_from:
        R.count("streams_with_grey_tail")
    if tl.ncompressed > 1:
        R.count("context_takeover_streams")


REASON_TAGS = [
    ("and no extension", "rsv"), ("unmasked client-to-server", "unmasked-c2s"), ("masked server-to-client", "masked-s2c"),
    ("fragmented control frame", "frag-control"), ("control frame with payload length", "control-gt125"),
    ("control frame using reserved opcode", "rsv-control-op"), ("close control frame with payload len", "close-len1"),
    ("received compressed control frame", "compr-control"), ("data frame using reserved opcode", "rsv-data-op"),
    ("non-continuation data frame while inside", "noncont-inside"), ("continuation data frame outside", "cont-outside"),
    ("continuation data frame with compress bit", "cont-compressed"), ("not using minimal length encoding", "non-minimal"),
    (">N^N", "len-msb"), ("invalid close code", "close-code"), ("invalid close reason", "close-reason"),
    ("encountered invalid UTF-N", "utf8-failfast"), ("ended within Unicode code point", "utf8-truncated"),
]


def run_stream(env, R, ctx, stream, specs, replay, label, tl=None):
    """Execute one stream under every segmentation spec, compare with the judge and with each other."""
    if tl is None:
        tl = J.judge(ctx.role, stream, ctx.pmce)
    account(R, ctx, tl)
    online = len(stream) <= ONLINE_MAX
    first = None
    any_bad = False
    for spec in specs:
        R.count("evaluations")
        case = M.Case(env, R, ctx, stream, tl, dict(replay, seg=spec), label)
        tr = case.run(reads_of(stream, spec), online=online)
        any_bad = any_bad or case.bad
        R.seen("segmentations", spec_name(spec))
        if case.bad or tr is None:
            continue
        if first is None:
            first = (spec, tr)
        else:
            R.count("segmentation_pairs_compared")
            if tr != first[1]:
                clause = tl.failure.clause if tl.failure else ("valid-close" if tl.close else "no-violation")
                R.violation("C02/%s/segmentation-dependence/%s" % (ctx.key(), clause),
                            "the same stream produced different traces under two segmentations",
                            {"ctx": ctx.name(), "label": label, "stream_head_hex": stream[:96].hex(), "stream_len": len(stream),
                             "seg_a": first[0], "trace_a": _trace_json(first[1]), "seg_b": spec, "trace_b": _trace_json(tr)},
                            dict(replay, seg=spec, seg_ref=first[0]))
    if tl.events or tl.failure or tl.close:
        R.seen("nontrivial", h([ctx.name(), h(stream)]))
    return tl


def _trace_json(tr):
    return {"deliveries": [M._short(e) for e in tr[0]][:12], "pongs": [p[:24].hex() for p in tr[1]][:12], "failure": tr[2]}


# the monitor records the implementation's own reason text; map it to a short tag here
def _install_reason_tagging():
    import re

    def impl_reason_tag(self_case_R, ctx, tl, reason):
        txt = re.sub(r"\d+", "N", reason)
        tag = None
        for needle, t in REASON_TAGS:
            if needle in txt:
                tag = t
                break
        if tag is None:
            tag = "other:" + h(txt, 6)
        if tag == "non-minimal" and tl.failure is not None:
            tag += tl.failure.clause[-2:] if tl.failure.clause.startswith("non-minimal") else ""
        self_case_R.seen("impl_reasons", "%s|%s" % (tag, "d" if ctx.drop else "c"))

    M.REASON_HOOK = impl_reason_tag


# --------------------------------------------------------------------------------------------------
# (b) generated streams
# --------------------------------------------------------------------------------------------------
ILL = [b"\xc0\x80", b"\xc1\xbf", b"\xe0\x80\x80", b"\xe0\x9f\xbf", b"\xed\xa0\x80", b"\xed\xbf\xbf", b"\xf0\x80\x80\x80",
       b"\xf0\x8f\xbf\xbf", b"\xf4\x90\x80\x80", b"\xf5\x80\x80\x80", b"\xf8\x88\x80\x80\x80", b"\xfc\x84\x80\x80\x80\x80",
       b"\xfe", b"\xff", b"\x80", b"\xbf", b"\xc2\x41", b"\xe1\x80\x41", b"\xf1\x80\x80\x41", b"\xe1\xc2\x80", b"\xc2\xc2\x80",
       b"\xf1\x80\xe1\x80\x80", b"\xe1\x41\x80", b"\xf4\x8f\xbf\xc0"]
TRUNC = [b"\xc2", b"\xe1", b"\xe1\x80", b"\xf1", b"\xf1\x80", b"\xf1\x80\x80", b"\xe0\xa0", b"\xed\x9f", b"\xf0\x90", b"\xf4\x8f\xbf"]
WELL = ["a", "\x00", "\x7f", "\x80", "߿", "ࠀ", "퟿", "", "￿", "\U00010000", "\U0010ffff", "é",
        "€", "\U0001f600", "�", "﻿", "xyz", " "]
CLOSE_CODES = [0, 999, 1000, 1001, 1002, 1003, 1004, 1005, 1006, 1007, 1008, 1009, 1010, 1011, 1012, 1013, 1014, 1015, 1016,
               1100, 2000, 2999, 3000, 3999, 4000, 4999, 5000, 32768, 65535]
SIZES = [0, 0, 1, 2, 3, 7, 20, 60, 124, 125, 126, 127, 128, 300, 1000]
MUTATIONS = ["none", "rsv", "rsv1-misuse", "reserved-opcode", "fragmented-control", "control-too-long", "cont-outside",
             "data-inside", "non-minimal", "length-msb", "wrong-mask", "close-1", "close-code", "close-reason", "utf8",
             "utf8-trunc", "utf8", "none", "utf8-asciirun", "ctl-inside-open-seq"]


def gen_text(rng, n):
    out = bytearray()
    while len(out) < n:
        out += rng.choice(WELL).encode("utf-8")
    while len(out) > n:          # cut back to a code point boundary, pad with ASCII
        out = out[:-1]
        while out and (out[-1] & 0xC0) == 0x80:
            out = out[:-1]
        if out and out[-1] >= 0xC0:
            out = out[:-1]
        out += b"." * (n - len(out))
        break
    if len(out) < n:
        out += b"." * (n - len(out))
    return bytes(out)


def gen_stream(rng, ctx, big=False):
    """-> (stream, label).  Frame list from the grammar, then one mutation."""
    mut = rng.choice(MUTATIONS)
    if mut == "rsv1-misuse" and not ctx.pmce:
        mut = "rsv"
    deflater = J.Deflater() if ctx.pmce else None
    frames = []          # dicts: op fin rsv payload [form declared flipmask]
    nmsgs = rng.randint(1, 4)
    text_msgs = []
    for m in range(nmsgs):
        is_text = rng.random() < 0.6
        size = rng.choice(SIZES)
        if big and m == 0:
            size = rng.choice([65535, 65536, 70000, 131072])
        payload = gen_text(rng, size) if is_text else bytes(rng.getrandbits(8) for _ in range(min(size, 2000))) + b"\x00" * max(0, size - 2000)
        spec = {"text": is_text, "payload": payload, "compressed": bool(ctx.pmce and rng.random() < 0.5),
                "nfrag": rng.choice([1, 1, 2, 3, 5])}
        if is_text:
            text_msgs.append(spec)
        frames.append(spec)
    # payload-level mutations are applied before compression / fragmentation
    if mut in ("utf8", "utf8-trunc", "utf8-asciirun", "ctl-inside-open-seq"):
        if not text_msgs:
            spec = {"text": True, "payload": gen_text(rng, rng.choice(SIZES)), "compressed": bool(ctx.pmce and rng.random() < 0.5),
                    "nfrag": rng.choice([1, 2, 3])}
            frames.insert(rng.randint(0, len(frames)), spec)
            text_msgs.append(spec)
        spec = rng.choice(text_msgs)
        p = spec["payload"]
        if mut == "utf8":
            # insert at a code point boundary
            pos = rng.randint(0, len(p))
            while 0 < pos < len(p) and (p[pos] & 0xC0) == 0x80:
                pos += 1
            spec["payload"] = p[:pos] + rng.choice(ILL) + p[pos:]
        elif mut == "ctl-inside-open-seq":
            # a VALID text message cut inside a multi-octet sequence, a control frame (judged on its own) in the gap
            pos = rng.randint(0, len(p))
            while 0 < pos < len(p) and (p[pos] & 0xC0) == 0x80:
                pos += 1
            seq = rng.choice(ASCII_RUN_SEQS)
            k = rng.randint(1, len(seq) - 1)
            spec["payload"] = p[:pos] + seq + p[pos:]
            spec["forced_cuts"] = [pos + k]
            what = rng.choice(["close-valid", "close-valid", "close-bad", "ping", "pong"])
            if what == "close-valid":
                cpl = struct.pack("!H", rng.choice([1000, 1001, 3000, 4999])) + gen_text(rng, rng.choice([1, 3, 40, 123]))
                spec["ctl_after_first"] = {"op": 8, "payload": cpl}
            elif what == "close-bad":
                spec["ctl_after_first"] = {"op": 8, "payload": struct.pack("!H", 1000) + seq[k:] + rng.choice([b"", b"bye"])}
            else:
                spec["ctl_after_first"] = {"op": 9 if what == "ping" else 10, "payload": seq[k:] + bytes(rng.getrandbits(8) for _ in range(rng.choice([0, 2, 30])))}
        elif mut == "utf8-asciirun":
            # lead octets of a sequence | ASCII run | (mostly) the continuation octets - pieces cut exactly there
            pos = rng.randint(0, len(p))
            while 0 < pos < len(p) and (p[pos] & 0xC0) == 0x80:
                pos += 1
            seq = rng.choice(ASCII_RUN_SEQS)
            k = rng.randint(1, len(seq) - 1)
            run = rng.choice(ASCII_RUNS)
            tail = seq[k:] if rng.random() < 0.7 else b""
            spec["payload"] = p[:pos] + seq[:k] + bytes(0x61 + j % 26 for j in range(run)) + tail + p[pos:]
            spec["forced_cuts"] = [pos + k, pos + k + run]
        else:
            spec["payload"] = p + rng.choice(TRUNC)
    wire = []
    msg_bounds = []      # indices in wire where a new message may start (outside any message)
    for spec in frames:
        data = spec["payload"]
        comp = spec["compressed"]
        if "forced_cuts" in spec:
            pieces = _pieces(data, spec["forced_cuts"])
            if comp:
                pieces = deflater.message_parts(pieces)     # every inflate call emits exactly one piece
        else:
            w = deflater.message(data) if comp else data
            nfrag = spec["nfrag"]
            cuts = sorted(rng.randint(0, len(w)) for _ in range(nfrag - 1))
            pieces, prev = [], 0
            for c in cuts + [len(w)]:
                pieces.append(w[prev:c])
                prev = c
        msg_bounds.append(len(wire))
        for j, piece in enumerate(pieces):
            wire.append({"op": (1 if spec["text"] else 2) if j == 0 else 0, "fin": j == len(pieces) - 1,
                         "rsv": 4 if (comp and j == 0) else 0, "payload": piece, "inmsg": j > 0})
            if j == 0 and "ctl_after_first" in spec and len(pieces) > 1:
                c = spec["ctl_after_first"]
                wire.append({"op": c["op"], "fin": True, "rsv": 0, "payload": c["payload"], "inmsg": True, "ctl": True})
            elif rng.random() < 0.3:
                wire.append({"op": rng.choice([9, 9, 10]), "fin": True, "rsv": 0,
                             "payload": bytes(rng.getrandbits(8) for _ in range(rng.choice([0, 1, 5, 125]))),
                             "inmsg": j < len(pieces) - 1, "ctl": True})
    msg_bounds.append(len(wire))
    if rng.random() < 0.25:
        code = rng.choice([1000, 1001, 3000, 4999, 1011, None])
        wire.append({"op": 8, "fin": True, "rsv": 0, "ctl": True, "inmsg": False,
                     "payload": b"" if code is None else struct.pack("!H", code) + gen_text(rng, rng.choice([0, 5, 123]))})
        if rng.random() < 0.3:      # data after close: crash-freedom only
            wire.append({"op": 1, "fin": True, "rsv": 0, "payload": b"late", "inmsg": False})
    # frame-level mutation
    def ctl_frame(op=None, **kw):
        d = {"op": op or rng.choice([8, 9, 10]), "fin": True, "rsv": 0, "payload": b"", "ctl": True}
        d.update(kw)
        return d
    pos = rng.randint(0, len(wire))
    if mut == "rsv":
        if wire:
            f = wire[min(pos, len(wire) - 1)]
            f["rsv"] = rng.choice([1, 2, 3, 5, 6, 7] + ([] if ctx.pmce else [4]))
    elif mut == "rsv1-misuse":
        cands = [f for f in wire if f.get("ctl") or f["op"] == 0]
        if cands:
            rng.choice(cands)["rsv"] = 4
        else:
            wire.insert(pos, ctl_frame(9, rsv=4, payload=b"x"))
    elif mut == "reserved-opcode":
        wire.insert(pos, {"op": rng.choice([3, 4, 5, 6, 7, 11, 12, 13, 14, 15]), "fin": rng.random() < 0.8, "rsv": 0,
                          "payload": bytes(rng.getrandbits(8) for _ in range(rng.choice([0, 3, 125])))})
    elif mut == "fragmented-control":
        wire.insert(pos, ctl_frame(fin=False, payload=b"\x03\xe8"))
    elif mut == "control-too-long":
        wire.insert(pos, ctl_frame(payload=b"\x03\xe8" + b"x" * rng.choice([124, 125, 200, 65534])))
    elif mut == "cont-outside":
        b = rng.choice(msg_bounds)
        wire.insert(b, {"op": 0, "fin": rng.random() < 0.5, "rsv": 0, "payload": b"stray"})
    elif mut == "data-inside":
        inside = [k for k, f in enumerate(wire) if f.get("inmsg")]
        if inside:
            wire.insert(rng.choice(inside), {"op": rng.choice([1, 2]), "fin": rng.random() < 0.5, "rsv": 0, "payload": b"intruder"})
        else:
            wire.insert(0, {"op": 1, "fin": False, "rsv": 0, "payload": b"open"})
            wire.insert(1, {"op": 2, "fin": True, "rsv": 0, "payload": b"intruder"})
    elif mut == "non-minimal":
        if wire:
            f = wire[min(pos, len(wire) - 1)]
            n = len(f["payload"])
            f["form"] = rng.choice([16, 64]) if n <= 125 else 64
            if n > 0xFFFF:
                f["payload"] = f["payload"][:200]
    elif mut == "length-msb":
        if wire:
            f = wire[min(pos, len(wire) - 1)]
            if f.get("ctl"):
                f = {"op": 2, "fin": True, "rsv": 0, "payload": b"xxxx"}
                wire.insert(rng.choice(msg_bounds[:1]), f)
            f["form"] = 64
            f["declared"] = rng.choice([1 << 63, (1 << 63) + len(f["payload"]), (1 << 64) - 1])
    elif mut == "wrong-mask":
        if wire:
            wire[min(pos, len(wire) - 1)]["flipmask"] = True
    elif mut == "close-1":
        wire.insert(pos, ctl_frame(8, payload=bytes([rng.choice([0, 3, 0xE8, 0xFF])])))
    elif mut == "close-code":
        code = rng.choice([c for c in CLOSE_CODES if J.close_code_class(c) == "invalid"])
        wire.insert(pos, ctl_frame(8, payload=struct.pack("!H", code) + gen_text(rng, rng.choice([0, 4, 123]))))
    elif mut == "close-reason":
        bad = rng.choice(ILL + TRUNC)
        pre = gen_text(rng, rng.choice([0, 3, 100]))
        wire.insert(pos, ctl_frame(8, payload=struct.pack("!H", rng.choice([1000, 1001, 3000, 4000])) + pre + bad))
    out = []
    for f in wire:
        masked = (ctx.role == "server") != bool(f.get("flipmask"))
        key = bytes(rng.getrandbits(8) for _ in range(4)) if masked else None
        out.append(enc(f["op"], f["payload"], f["fin"], f["rsv"], key, f.get("form"), f.get("declared")))
    return b"".join(out), "gen/" + mut


def utf8_corpus(ctx):
    """[(label, stream)]: every ill-formed class at start/middle/end of a text message, unfragmented and cut
    before / inside / after the offending sequence; well-formed multi-octet sequences cut at every
    interior point; truncated sequences at message end (FIN frame and last continuation)."""
    pk = peer_key(ctx, 5)
    trailer = enc(9, b"T", key=pk) + enc(1, b"after", key=pk)
    out = []
    defl = None
    def msg(pieces, compressed=False):
        nonlocal defl
        if compressed:
            whole = b"".join(pieces)
            w = J.Deflater().message(whole)
            c = len(w) // 2
            pieces = [w[:c], w[c:]]
        fr = []
        for j, p in enumerate(pieces):
            fr.append(enc(1 if j == 0 else 0, p, fin=(j == len(pieces) - 1), rsv=4 if (compressed and j == 0) else 0, key=pk))
        return b"".join(fr)
    for bi, bad in enumerate(ILL):
        for place, (pre, post) in (("start", (b"", b"tail")), ("mid", ("hé€".encode(), "\U0001f600t".encode())), ("end", (b"head", b""))):
            whole = pre + bad + post
            a = len(pre)
            cutsets = [[], [a], [a + 1], [a + len(bad)], [a, a + 1], [max(0, a - 1), a + 1]]
            for ci, cs in enumerate(cutsets):
                cs = sorted(set(c for c in cs if 0 <= c <= len(whole)))
                pieces, prev = [], 0
                for c in cs + [len(whole)]:
                    pieces.append(whole[prev:c])
                    prev = c
                out.append(("utf8/ill%d/%s/cut%d" % (bi, place, ci), msg(pieces) + trailer))
            if ctx.pmce:
                out.append(("utf8/ill%d/%s/compressed" % (bi, place), msg([whole], True) + trailer))
    for wi, ch in enumerate(WELL):
        e = ch.encode("utf-8")
        if len(e) < 2:
            continue
        for c in range(1, len(e)):
            out.append(("utf8/well%d/cut%d" % (wi, c), msg([b"x" + e[:c], e[c:] + b"y"]) + trailer))
            out.append(("utf8/well%d/cut%d/empty-between" % (wi, c), msg([b"x" + e[:c], b"", e[c:]]) + trailer))
            # truncated at message end
            out.append(("utf8/trunc%d/%d/fin" % (wi, c), msg([b"x" + e[:c]]) + trailer))
            out.append(("utf8/trunc%d/%d/cont" % (wi, c), msg([b"x", e[:c]]) + trailer))
            out.append(("utf8/trunc%d/%d/emptyfin" % (wi, c), msg([b"x" + e[:c], b""]) + trailer))
            if ctx.pmce:
                out.append(("utf8/trunc%d/%d/compressed" % (wi, c), msg([b"x" + e[:c]], True) + trailer))
    return out


def close_corpus(ctx):
    pk = peer_key(ctx, 9)
    trailer = enc(9, b"T", key=pk) + enc(1, b"after", key=pk)
    lead = enc(9, b"L", key=pk)
    out = [("close/empty", enc(8, b"", key=pk)), ("close/empty+data", enc(8, b"", key=pk) + trailer)]
    for b in (0x00, 0x03, 0xE8, 0xFF):
        out.append(("close/1byte-%02x" % b, lead + enc(8, bytes([b]), key=pk) + trailer))
    reasons = [b"", b"b", b"ok", b"going away", b"r" * 122, b"r" * 123, ("é" * 61).encode(), ("é" * 61).encode() + b"!",
               ("€" * 41).encode(), ("\U0001f600" * 30).encode() + b"abc", b"\xff", b"\xc3", b"bye\xc3", b"r" * 122 + b"\xc3",
               b"r" * 60 + b"\xed\xa0\x80" + b"r" * 60, b"\xf4\x90\x80\x80", b"\xc0\xaf", b"ok\x80", ("€" * 40).encode() + b"\xe2\x82"]
    for code in CLOSE_CODES:
        for ri, r in enumerate(reasons):
            if len(r) > 123:
                continue
            out.append(("close/%d/r%d" % (code, ri), lead + enc(8, struct.pack("!H", code) + r, key=pk) + (trailer if (code + ri) % 3 == 0 else b"")))
    # close inside a fragmented message
    out.append(("close/inside-message", enc(1, b"frag", fin=False, key=pk) + enc(8, b"\x03\xe8", key=pk)))
    out.append(("close/inside-message-bad", enc(1, b"frag", fin=False, key=pk) + enc(8, b"\x03\xed", key=pk) + trailer))
    return out


def _pieces(data, cuts):
    out, prev = [], 0
    for c in sorted(set(c for c in cuts if 0 <= c <= len(data))) + [len(data)]:
        out.append(data[prev:c])
        prev = c
    return out


def pmce_corpus(ctx):
    """[(label, stream)] for contexts with permessage-deflate: well-formed RFC 7692 traffic produced by ONE
    compressor per connection (context take-over: later messages repeat earlier content, the check asserts that
    their DEFLATE data really refers back), inflating to valid / ill-formed / truncated UTF-8, unfragmented and
    fragmented with control frames in between; DEFLATE block types stored / fixed / dynamic; compressed and
    uncompressed messages mixed; and a few streams whose RSV1 payload is NOT decodable (grey for the verdict:
    crash-freedom and the deliveries before it are asserted)."""
    assert ctx.pmce
    pk = peer_key(ctx, 11)
    trailer = enc(9, b"T", key=pk) + enc(1, b"after", key=pk)
    out = []
    base = "The quick brown fox jumps over the lazy dog - d\u00e9j\u00e0 vu \u20ac 12,50 \U0001f600. ".encode("utf-8")

    def frames(op, wire, cuts=(), compressed=True, ctl=(), drop_last=False):
        """frames of one message; ``ctl``: {index of the fragment AFTER which a control frame goes: (opcode, payload)}"""
        ps = _pieces(wire, cuts)
        fr = []
        for j, piece in enumerate(ps):
            fr.append(enc(op if j == 0 else 0, piece, fin=(j == len(ps) - 1), rsv=4 if (compressed and j == 0) else 0, key=pk))
            for (after, cop, cpl) in ctl:
                if after == j and j < len(ps) - 1:
                    fr.append(enc(cop, cpl, key=pk))
        return b"".join(fr[:-1] if drop_last else fr)

    def takeover_pair(second, level=6):
        """first message = base text; second message = ``second`` (contains base again) from the same compressor"""
        d = J.Deflater(level)
        w1 = d.message(base * 3)
        w2 = d.message(second)
        alone = J.Deflater(level).message(second)
        if level:
            assert len(w2) < len(alone), "harness: no back-reference into the previous message"
        return w1, w2

    # 1. context take-over, valid text, several fragmentations, pings/pongs between the fragments
    for level in (1, 6, 9):
        w1, w2 = takeover_pair(base * 2 + b"second", level)
        out.append(("pmce/takeover/l%d/whole" % level, frames(1, w1) + frames(1, w2) + trailer))
        out.append(("pmce/takeover/l%d/frag" % level, frames(1, w1, [1, len(w1) // 2], ctl=[(0, 9, b"p1"), (1, 10, b"q")]) +
                    frames(1, w2, [0, 2, len(w2) - 1], ctl=[(1, 9, b"p2")]) + trailer))
        out.append(("pmce/takeover/l%d/binary-second" % level, frames(1, w1) + frames(2, w2, [3]) + trailer))
    # three messages, an uncompressed one in between (does not pass through the inflater)
    d = J.Deflater()
    w1, w3 = d.message(base * 2), d.message(base + b"third")
    out.append(("pmce/mixed", frames(1, w1, [4]) + frames(1, b"plain " + base, [7], compressed=False) + frames(1, w3) + trailer))
    # stored blocks (level 0) and an empty compressed message
    d = J.Deflater(0)
    out.append(("pmce/stored", frames(1, d.message(base), [5, 40]) + frames(2, d.message(bytes(range(256)))) + trailer))
    d = J.Deflater()
    out.append(("pmce/empty", frames(1, d.message(b"")) + frames(1, d.message(base)) + frames(1, d.message(b""), [0]) + trailer))
    # 64 KiB of repetitive text in ~200 octets of DEFLATE data, then a message referring back to it
    d = J.Deflater()
    big = (base * (65536 // len(base) + 1))[:65536 - 2] + "\u00e9".encode("utf-8")
    wb, w2 = d.message(big), d.message(base + b"after big")
    out.append(("pmce/big", frames(1, wb, [len(wb) // 3, 2 * len(wb) // 3], ctl=[(0, 9, b"in-big")]) + frames(1, w2) + trailer))
    # 2. the SECOND message (back-references) inflates to ill-formed / truncated UTF-8
    for bi, bad in enumerate(ILL[::3] + TRUNC[::4]):
        trunc = bad in TRUNC
        for place in ("start", "mid", "end"):
            if trunc and place != "end":
                continue
            text = {"start": bad + base, "mid": base + bad + base, "end": base + bad}[place]
            w1, w2 = takeover_pair(text)
            n2 = len(w2)
            name = "pmce/%s%d/%s" % ("trunc" if trunc else "ill", bi, place)
            out.append((name + "/whole", frames(1, w1) + frames(1, w2) + trailer))
            out.append((name + "/frag-pings", frames(1, w1) + frames(1, w2, [1, n2 // 2, n2 - 1], ctl=[(0, 9, b"a"), (1, 9, b"b"), (2, 10, b"c")]) + trailer))
            out.append((name + "/binary", frames(1, w1) + frames(2, w2, [n2 // 2]) + trailer))
            # ... followed by another violation before the message ends / by nothing (message never completed)
            out.append((name + "/then-rsv", frames(1, w1) + frames(1, w2, [n2 - 1], ctl=[(0, 9, b"a")], drop_last=True) +
                        enc(9, b"x", rsv=2, key=pk) + trailer))
            out.append((name + "/unfinished", frames(1, w1) + frames(1, w2, [n2 - 1], ctl=[(0, 9, b"a")], drop_last=True)))
    # 3. valid text whose multi-octet sequences straddle fragment boundaries of the COMPRESSED data
    w1, w2 = takeover_pair(("\U0001f600\u20ac\u00e9" * 40).encode("utf-8") + base)
    out.append(("pmce/straddle", frames(1, w1) + frames(1, w2, list(range(1, len(w2), 3))) + trailer))
    # 4. undecodable DEFLATE data (grey): open connection / after a valid compressed message / error only at the tail
    out.append(("pmce/garbage/first", enc(9, b"L", key=pk) + enc(1, b"\xff\xff\xff", rsv=4, key=pk) + trailer))
    out.append(("pmce/garbage/second", frames(1, J.Deflater().message(base)) + enc(2, b"\x07garbage", rsv=4, key=pk) + trailer))
    out.append(("pmce/garbage/continuation", enc(1, J.Deflater().message(base)[:6], fin=False, rsv=4, key=pk) + enc(9, b"P", key=pk) +
                enc(0, b"\xff" * 9, key=pk) + trailer))
    out.append(("pmce/garbage/tail", enc(1, b"\x00\x01", rsv=4, key=pk) + trailer))
    out.append(("pmce/garbage/bfinal", enc(1, b"\x03\x00", rsv=4, key=pk) + frames(1, J.Deflater().message(base)) + trailer))
    # every way in which an inflater can reject its input (the human readable reason an implementation announces
    # differs from one to the other, in text and in LENGTH): first message / after a valid compressed message /
    # in a continuation frame with a ping in between
    good = J.Deflater().message(base)
    for bname, broken in BROKEN_DEFLATE(good):
        out.append(("pmce/garbage/%s/first" % bname, enc(9, b"L", key=pk) + enc(1, broken, rsv=4, key=pk) + trailer))
        out.append(("pmce/garbage/%s/second" % bname, frames(1, good) + enc(2, broken, rsv=4, key=pk) + trailer))
        out.append(("pmce/garbage/%s/continuation" % bname, enc(1, b"", fin=False, rsv=4, key=pk) + enc(9, b"P", key=pk) +
                    enc(0, broken, key=pk) + trailer))
    return out


def BROKEN_DEFLATE(good):
    """[(name, octets)]: near misses of a compressed message - one per error class of RFC 1951 decoding"""
    return [("reserved-block-type", b"\x06" + good[1:]),
            ("stored-length-complement", b"\x00\x05\x00\x00\x00hello"),
            ("code-lengths-set", bytes([0xED, 0xFD, 1, 2, 3, 4, 5, 6, 7, 8, 9])),
            ("literal-length-code", b"\x1a\x07"),
            ("distance-too-far-back", b"\x4b\x84\x60\x00"),
            ("too-many-length-symbols", bytes([0xFD, 0xFF, 0xFF]) + b"\x00" * 6),
            ("random-octets", bytes((37 * j + 11) & 0xFF for j in range(40)))]


ASCII_RUN_SEQS = [b"\xc3\xa9", b"\xe2\x82\xac", b"\xf0\x9f\x98\x80", b"\xed\x9f\xbf", b"\xf4\x8f\xbf\xbf", b"\xe0\xa0\x80"]
ASCII_RUNS = (1, 7, 8, 9, 17, 40)


def asciirun_corpus(ctx):
    """[(label, stream, extra segmentation specs)]: a multi-octet sequence left OPEN at the end of a piece (frame
    fragment, TCP read or inflate call), followed by a piece that is / begins with a run of plain ASCII (1..40 octets:
    shorter and longer than a machine word), followed - or not - by the continuation octets that 'complete' the
    sequence.  An ASCII octet where a continuation octet is due is ill-formed whatever comes later, and however
    the octets are cut into pieces.  Shapes: one frame (the cuts are read boundaries), three fragments (frame
    boundaries), and with permessage-deflate the same two shapes with the DEFLATE data sync-flushed at the two cut
    points, so that every inflate call emits exactly one piece.  Valid twins: the sequence completed correctly
    across the cut, then the ASCII run."""
    pk = peer_key(ctx, 13)
    trailer = enc(9, b"T", key=pk) + enc(1, b"after", key=pk)
    hl = lambda n: 2 + (0 if n <= 125 else 2) + (4 if pk else 0)
    out = []
    for si, seq in enumerate(ASCII_RUN_SEQS):
        for p in range(1, len(seq)):
            for run in ASCII_RUNS:
                ascii_run = bytes(0x41 + j % 26 for j in range(run))
                for kind, pieces in (("completed", [b"x" + seq[:p], ascii_run, seq[p:] + b"y"]),
                                     ("open", [b"x" + seq[:p], ascii_run, b"z"]),
                                     ("valid", [b"x" + seq[:p], seq[p:] + ascii_run, b"y"])):
                    name = "asciirun/s%d/p%d/r%d/%s" % (si, p, run, kind)
                    whole = b"".join(pieces)
                    a, b = len(pieces[0]), len(pieces[0]) + len(pieces[1])
                    h = hl(len(whole))
                    out.append((name + "/frame", enc(1, whole, key=pk) + trailer,
                                [["cuts", [h + a]], ["cuts", [h + a, h + b]], ["cuts", [h + a, h + a + min(8, len(pieces[1]))]],
                                 ["cuts", [h, h + a, h + b]]]))
                    fr = b"".join(enc(1 if j == 0 else 0, piece, fin=(j == 2), key=pk) for j, piece in enumerate(pieces))
                    out.append((name + "/fragments", fr + trailer, []))
                    if ctx.pmce:
                        cs = J.Deflater().message_parts(pieces)
                        cw = b"".join(cs)
                        h = hl(len(cw))
                        ca, cb = len(cs[0]), len(cs[0]) + len(cs[1])
                        out.append((name + "/deflate-frame", enc(1, cw, rsv=4, key=pk) + trailer,
                                    [["cuts", [h + ca]], ["cuts", [h + ca, h + cb]], ["cuts", [h, h + ca, h + cb]]]))
                        fr = b"".join(enc(1 if j == 0 else 0, c, fin=(j == 2), rsv=4 if j == 0 else 0, key=pk) for j, c in enumerate(cs))
                        out.append((name + "/deflate-fragments", fr + trailer, []))
    return out


def ctlinside_corpus(ctx):
    """[(label, stream)]: control frames between the fragments of a text message whose part received so far ends
    INSIDE a multi-octet sequence (after every proper prefix of 2/3/4-octet sequences; with permessage-deflate also
    with the first fragment compressed and sync-flushed so that the inflated text ends there).  Control frames are
    judged on their own: a close frame with a valid reason is a valid close (normal reply, no failure), a reason
    that is ill-formed ON ITS OWN is a violation even if its first octets would complete the pending sequence of
    the text message; ping/pong payloads are opaque octets.  Plus: close frames with reasons that follow a
    1007/1002 failure (closing-handshake mode: first close frame, no later message/pong, crash-freedom)."""
    pk = peer_key(ctx, 17)
    trailer = enc(9, b"T", key=pk) + enc(1, b"after", key=pk)
    out = []
    for si, seq in enumerate(ASCII_RUN_SEQS):
        for p in range(1, len(seq)):
            head, rest = b"x" + seq[:p], seq[p:]
            ctls = [("close-valid-ascii", enc(8, b"\x03\xe8bye", key=pk), True),
                    ("close-valid-multibyte", enc(8, b"\x03\xe9" + "d\u00e9j\u00e0 \u20ac \U0001f600".encode("utf-8"), key=pk), True),
                    ("close-code-only", enc(8, b"\x03\xe8", key=pk), True),
                    ("close-empty", enc(8, b"", key=pk), True),
                    ("close-valid-app-code", enc(8, b"\x0f\xa0" + b"r" * 123, key=pk), True),
                    ("close-reason-completes-pending", enc(8, b"\x03\xe8" + rest + b"bye", key=pk), True),
                    ("close-reason-only-continuation", enc(8, b"\x03\xe8" + rest, key=pk), True),
                    ("close-reason-truncated", enc(8, b"\x03\xe8ok" + seq[:p], key=pk), True),
                    ("close-reason-ff", enc(8, b"\x03\xe8\xffbye", key=pk), True),
                    ("ping-completes-pending", enc(9, rest + b"P", key=pk), False),
                    ("ping-binary", enc(9, b"\xff\xfe\x00\x80", key=pk), False),
                    ("pong-binary", enc(10, b"\xc0\xaf" + rest, key=pk), False),
                    ("ping-then-close-valid", enc(9, rest, key=pk) + enc(8, b"\x03\xe8bye", key=pk), True)]
            shapes = [("plain", enc(1, head, fin=False, key=pk), enc(0, rest + b"y", key=pk))]
            if ctx.pmce:
                cs = J.Deflater().message_parts([head, rest + b"y"])
                shapes.append(("deflate", enc(1, cs[0], fin=False, rsv=4, key=pk), enc(0, cs[1], key=pk)))
            for shape, first, last in shapes:
                for name, ctl, closes in ctls:
                    out.append(("ctlinside/s%d/p%d/%s/%s" % (si, p, shape, name), first + ctl + (trailer if closes else last + trailer)))
    # close frames with reasons after this endpoint failed the connection
    reply = [("ascii", b"\x03\xe8ok, bye"), ("multibyte", b"\x03\xef" + "caf\u00e9 \u20ac".encode("utf-8")), ("code-only", b"\x03\xe8")]
    fails = [("utf8-ff", enc(1, b"abc\xff", key=pk)), ("utf8-open-then-ascii", enc(1, b"x\xe2\x82", fin=False, key=pk) + enc(0, b"AAAAAAAAA", key=pk)),
             ("utf8-truncated", enc(1, b"x\xe2\x82", key=pk)), ("rsv2", enc(9, b"p", rsv=2, key=pk)),
             ("rsv2-inside-open", enc(1, b"x\xf0\x9f", fin=False, key=pk) + enc(9, b"p", rsv=2, key=pk))]
    for fname, fstream in fails:
        for rname, rp in reply:
            out.append(("ctlinside/reply-after-failure/%s/%s" % (fname, rname), enc(9, b"L", key=pk) + fstream + enc(8, rp, key=pk)))
    return out


def gen_segs(stream, seedstr, cut_step=1, cut_phase=0, burst=False):
    """``burst`` (asyncio workers): the two-way splits reach the protocol as ONE read event of two chunks (the chunks
    are the same, the loop does not run in between - reads with the loop running in between are what the other
    specs are), plus one variant of the finest segmentation grouped into read events of 1..6 chunks."""
    n = len(stream)
    specs = [["whole"]]
    if n <= 3000:
        specs.append(["bytewise"])
    specs.append(["policy", "random", seedstr + "r"])
    specs.append(["burst", ["policy", "halves", seedstr + "h"], "all"] if burst else ["policy", "halves", seedstr + "h"])
    specs.append(["policy", "small" if n <= 3000 else "random", seedstr + "s"])
    if burst and n >= 2:
        specs.append(["burst", ["bytewise"] if n <= 400 else ["policy", "small", seedstr + "B"], seedstr + "g"])
    if n <= 48:
        for c in range(1, n):
            if (c + cut_phase) % cut_step == 0:
                specs.append(["burst", ["cuts", [c]], "all"] if (burst and (c + cut_phase) % (3 * cut_step) == 0) else ["cuts", [c]])
    return specs


# --------------------------------------------------------------------------------------------------
# shards
# --------------------------------------------------------------------------------------------------
NPARTS = 16


def prepare(tier):
    try:
        build_nvx.build("ship")
    except Exception as e:
        print("CANNOT-BUILD: %s" % e)
        return False
    return True


def shards(tier, seed):
    out = []
    env = build_nvx.worker_env("ship")
    for fw in ("tx", "aio"):
        for part in range(NPARTS):
            out.append({"name": "%s-nvx-%d" % (fw, part), "fw": fw, "env": env, "timeout": 1500 if tier == "quick" else 7200,
                        "params": {"tier": tier, "seed": seed, "part": part, "parts": NPARTS, "nvx": True}})
    if tier == "quick":
        # the pure-Python validator is a separate implementation: the 'ASCII after an open sequence' family runs on it too
        env0 = dict(env, AUTOBAHN_USE_NVX="0")
        for fw in ("tx", "aio"):
            for part in range(2):
                out.append({"name": "%s-pure-asciirun-%d" % (fw, part), "fw": fw, "env": env0, "timeout": 1500,
                            "params": {"tier": tier, "seed": seed, "part": part, "parts": 2, "nvx": False, "only": "asciirun"}})
    if tier == "thorough":
        env0 = dict(env, AUTOBAHN_USE_NVX="0")
        for fw in ("tx", "aio"):
            for part in range(8):
                out.append({"name": "%s-pure-%d" % (fw, part), "fw": fw, "env": env0, "timeout": 1500 if tier == "quick" else 7200,
                            "params": {"tier": tier, "seed": seed, "part": part, "parts": 8, "nvx": False}})
    return out


_FULL_ORDER = [0, 15, 6, 9, 3, 12, 5, 10, 1, 14, 7, 8, 2, 13, 4, 11]    # neighbours 2j / 2j+1 differ in all four factors


def full_contexts(tier, seed, nvx, fw):
    """indices (into M.ALL_CTX) of the contexts swept completely by the workers of framework ``fw``.
    quick: ONE context under Twisted and its complement (other role, other fragmentation state, other PMCE state,
    other failure mode) under asyncio, rotating with the seed: seeds 0..7 sweep all 16 once."""
    if not nvx:
        return []
    if tier == "thorough":
        return list(range(16))
    return [_FULL_ORDER[(2 * seed + (0 if fw == "tx" else 1)) % 16]]


def shard_of(b0):
    return (b0 + (b0 >> 4)) % 16


def _check_versions(R):
    from autobahn.websocket import utf8validator as U
    from autobahn.websocket import xormasker as X
    import os

    want = os.environ.get("AUTOBAHN_USE_NVX", "1") not in ("0", "false")
    is_nvx = "nvx" in U.Utf8Validator.__module__
    R.note("utf8validator_module", U.Utf8Validator.__module__)
    R.note("xormasker_module", getattr(X.create_xor_masker, "__module__", "?"))
    if want:
        build_nvx.assert_fresh()
        if not is_nvx:
            raise RuntimeError("harness: NVX requested but protocol uses %s" % U.Utf8Validator.__module__)
    elif is_nvx:
        raise RuntimeError("harness: pure Python requested but protocol uses %s" % U.Utf8Validator.__module__)
    R.seen("validator_impl", "nvx" if is_nvx else "pure")


def run_shard(params, R):
    J.selfcheck()
    _install_reason_tagging()
    _check_versions(R)
    tier, seed, part, parts = params["tier"], params["seed"], params["part"], params["parts"]
    env = M.Env()
    fw = env.ws.world.fw
    import time
    walls = {}
    try:
        phases = (("exhaustive", _run_exhaustive, (env, R, tier, seed, part, parts, params["nvx"])),
                  ("corpora", _run_corpora, (env, R, tier, seed, part, parts)),
                  ("generated", _run_generated, (env, R, tier, seed, part, parts, fw)),
                  ("interleave", _run_interleave, (env, R, tier, seed, part, parts, fw)))
        if params.get("only") == "asciirun":
            phases = (("asciirun", _run_asciirun, (env, R, tier, seed, part, parts)),
                      ("ctlinside", _run_ctlinside, (env, R, tier, seed, part, parts)))
        elif params.get("only"):        # development aid: one phase only
            phases = tuple(p for p in phases if p[0] in params["only"].split(","))
        for name, fn, args in phases:
            t0 = time.time()
            e0 = R.counters.get("evaluations", 0)
            fn(*args)
            walls[name] = [round(time.time() - t0, 1), R.counters.get("evaluations", 0) - e0]     # informational only
    finally:
        env.close()
    R.note("phase_wall_s_and_evaluations", walls)
    for k in DECIDING:
        if not k.startswith(("clauses", "impl_")):
            R.count(k, 0)


def _run_exhaustive(env, R, tier, seed, part, parts, nvx):
    env.fast_logging(True)
    try:
        _run_exhaustive_(env, R, tier, seed, part, parts, nvx)
    finally:
        env.fast_logging(False)


def _run_exhaustive_(env, R, tier, seed, part, parts, nvx):
    full = set(full_contexts(tier, seed, nvx, env.ws.world.fw))
    nalt = 1 if tier == "quick" else 2
    for ci, ctx in enumerate(M.ALL_CTX):
        is_full = ci in full
        R.seen("contexts_full" if is_full else "contexts_representative", ctx.name())
        for b0 in range(256):
            if shard_of(b0) % parts != part:
                continue
            for b1 in range(256):
                if not is_full and (b1 & 0x7F) not in REP_L7:
                    continue
                for vi in range(len(variants(b1))):
                    stream, fstart, hend = hdr_stream(ctx, b0, b1, vi)
                    sel = (b0 * 131 + b1 * 31 + vi * 7 + ci + seed * 17) & 0xFFFF
                    specs = [["whole"]] + hdr_alt_segs(len(stream), fstart, hend, sel, nalt)
                    if not is_full and tier != "quick":
                        specs.append(["bytewise"] if len(stream) <= 220 else ["policy", "random", "x%d" % sel])
                    elif not is_full and (sel & 1) and len(stream) <= 220:
                        specs[1] = ["bytewise"]
                    run_stream(env, R, ctx, stream, specs, {"kind": "hdr", "ctx": ctx.to_json(), "b0": b0, "b1": b1, "vi": vi},
                               "hdr/%02x%02x/%d" % (b0, b1, vi))
                    R.count("header_cases")
                    if (b0, b1) in ((0x81, 0x85), (0x89, 0x00), (0xc1, 0x7e)):
                        R.sample({"ctx": ctx.name(), "b0b1": "%02x%02x" % (b0, b1), "variant": vi, "stream_hex": stream[:64].hex(),
                                  "segmentations": specs}, kind="header-case", every=7)


def _asciirun_contexts(tier, seed):
    """quick: 4 of the 8 'outside' contexts (every factor with both values, alternating with the seed)"""
    out = []
    for ci, ctx in enumerate(M.ALL_CTX):
        if ctx.inside:
            continue
        if tier == "quick" and ((ctx.role == "server") + ctx.pmce + ctx.drop + seed) % 2:
            continue
        out.append((ci, ctx))
    return out


def _run_asciirun(env, R, tier, seed, part, parts):
    pure = "nvx" not in _validator_module()
    idx = 0
    for ci, ctx in _asciirun_contexts(tier, seed):
        for k, (label, stream, extra) in enumerate(asciirun_corpus(ctx)):
            idx += 1
            if idx % parts != part:
                continue
            specs = [["whole"], ["bytewise"]] + extra + [["policy", "random", "a%d/%d/%d" % (seed, ci, k)]]
            if _is_aio(env) and len(extra) > 1:
                # same chunk boundaries (the pieces), handed over inside ONE read event
                specs[3] = ["burst", extra[1], "all"]
            tl = run_stream(env, R, ctx, stream, specs, {"kind": "asciirun", "ctx": ctx.to_json(), "idx": k}, label)
            R.count("corpus_cases/asciirun")
            R.count("ascii_after_open_sequence_checked", len(specs))
            if pure:
                R.count("ascii_after_open_sequence_checked_pure_python", len(specs))
            else:
                R.count("ascii_after_open_sequence_checked_nvx", len(specs))
            R.seen("asciirun_verdicts", "%s|%s" % (label.split("/")[4], tl.failure.clause if tl.failure else "delivered"))
            R.sample({"ctx": ctx.name(), "label": label, "stream_hex": stream[:80].hex(), "segmentations": specs[:6]}, kind="corpus-asciirun", every=997)


def _run_ctlinside(env, R, tier, seed, part, parts):
    idx = 0
    for ci, ctx in _asciirun_contexts(tier, seed + 1):
        for k, (label, stream) in enumerate(ctlinside_corpus(ctx)):
            idx += 1
            if idx % parts != part:
                continue
            specs = gen_segs(stream, "i%d/%d/%d" % (seed, ci, k), cut_step=2 if tier == "quick" else 1, cut_phase=k + seed, burst=_is_aio(env))
            tl = run_stream(env, R, ctx, stream, specs, {"kind": "ctlinside", "ctx": ctx.to_json(), "idx": k}, label)
            R.count("corpus_cases/ctlinside")
            if "reply-after-failure" in label:
                R.count("close_reply_after_failure_checked", len(specs))
            else:
                R.count("control_inside_open_sequence_checked", len(specs))
                if tl.close is not None:
                    R.count("valid_close_inside_open_sequence_checked", len(specs))
            R.seen("ctlinside_verdicts", "%s|%s" % (label.split("/")[-1], tl.failure.clause if tl.failure else ("valid-close" if tl.close else "delivered")))
            R.sample({"ctx": ctx.name(), "label": label, "stream_hex": stream[:80].hex()}, kind="corpus-ctlinside", every=499)


def _is_aio(env):
    return env.ws.world.fw == "aio"


def _validator_module():
    from autobahn.websocket import utf8validator as U
    return U.Utf8Validator.__module__


def _run_corpora(env, R, tier, seed, part, parts):
    idx = 0
    for ci, ctx in enumerate(M.ALL_CTX):
        if ctx.inside:
            continue
        for name, corpus in (("utf8", utf8_corpus(ctx)), ("close", close_corpus(ctx)), ("pmce", pmce_corpus(ctx) if ctx.pmce else [])):
            for k, (label, stream) in enumerate(corpus):
                idx += 1
                if idx % parts != part:
                    continue
                if tier == "quick" and name != "pmce" and (k + ci + seed) % 2:
                    continue
                specs = gen_segs(stream, "c%d/%d/%d" % (seed, ci, k), cut_step=2 if tier == "quick" else 1, cut_phase=k + seed, burst=_is_aio(env))
                run_stream(env, R, ctx, stream, specs, {"kind": name, "ctx": ctx.to_json(), "idx": k}, label)
                R.count("corpus_cases/" + name)
                R.sample({"ctx": ctx.name(), "label": label, "stream_hex": stream[:80].hex()}, kind="corpus-" + name, every=211)
    _run_asciirun(env, R, tier, seed, part, parts)
    _run_ctlinside(env, R, tier, seed, part, parts)


def _run_generated(env, R, tier, seed, part, parts, fw):
    total = 1500 if tier == "quick" else 20000       # per framework
    for g in range(total):
        if g % parts != part:
            continue
        seedstr = "g/%d/%s/%d" % (seed, fw, g)
        rng = random.Random(seedstr)
        ctx = M.ALL_CTX[rng.randrange(16)]
        if ctx.inside:
            ctx = M.Ctx(ctx.role, 0, ctx.pmce, ctx.drop)
        stream, label = gen_stream(rng, ctx, big=(g % 50 == 0))
        if not stream:
            continue
        run_stream(env, R, ctx, stream, gen_segs(stream, seedstr, burst=(fw == "aio")), {"kind": "gen", "ctx": ctx.to_json(), "seedstr": seedstr,
                                                                  "big": g % 50 == 0}, label)
        R.count("generated_streams")
        R.seen("mutations", label)
        R.sample({"ctx": ctx.name(), "label": label, "stream_len": len(stream), "stream_hex": stream[:80].hex()}, kind="generated", every=97)


# --------------------------------------------------------------------------------------------------
# (d) several connections open at the same time, their reads interleaved
# --------------------------------------------------------------------------------------------------
_POOLS = {}
OUTSIDE_CTX = [c for c in M.ALL_CTX if not c.inside]


def _pool(ctx):
    """(streams that leave receiver state pending at frame boundaries, other streams) for one context"""
    k = ctx.name()
    if k not in _POOLS:
        pending = [(l, s) for (l, s) in utf8_corpus(ctx) if ("/well" in l and "empty" not in l) or "/cut" in l]
        pending += [(l, s) for (l, s, _x) in asciirun_corpus(ctx) if l.endswith("fragments")]
        pending += ctlinside_corpus(ctx)
        other = close_corpus(ctx)[::7]
        if ctx.pmce:
            pending += [(l, s) for (l, s) in pmce_corpus(ctx) if "/frag" in l or "straddle" in l or "mixed" in l or "continuation" in l]
            other += [(l, s) for (l, s) in pmce_corpus(ctx) if "/whole" in l or "garbage" in l]
        _POOLS[k] = (pending, other)
    return _POOLS[k]


def interleave_case(seedstr):
    """-> (members, mode): members = [{ctx, stream, label, spec}] for 2..3 connections that are open at the same
    time - mostly of ONE factory (same role / options), sometimes of different factories in the same process."""
    rng = random.Random(seedstr)
    ctx0 = rng.choice(OUTSIDE_CTX)
    members = []
    for j in range(rng.choice((2, 2, 2, 3))):
        ctx = ctx0 if (j == 0 or rng.random() < 0.75) else rng.choice(OUTSIDE_CTX)
        r = rng.random()
        pending, other = _pool(ctx)
        if r < 0.6:
            label, stream = rng.choice(pending)
        elif r < 0.75:
            label, stream = rng.choice(other)
        else:
            stream, label = gen_stream(random.Random(seedstr + "/g%d" % j), ctx)
            stream = stream[:1500]
            if not stream:
                label, stream = rng.choice(pending)
        n = len(stream)
        tl = J.judge(ctx.role, stream, ctx.pmce)
        ends = [e for e in tl.frame_ends if 0 < e < n]
        r = rng.random()
        if r < 0.35 and ends:
            spec = ["cuts", ends]                           # one read per frame
        elif r < 0.6 and n <= 250:
            spec = ["bytewise"]
        elif r < 0.8:
            spec = ["policy", "small" if n <= 600 else "random", seedstr + "/s%d" % j]
        elif ends:
            spec = ["cuts", sorted(set(ends + [max(1, e - 1) for e in ends] + [min(n - 1, e + 3) for e in ends]))]
        else:
            spec = ["policy", "halves", seedstr + "/h%d" % j]
        members.append({"ctx": ctx, "stream": stream, "label": label, "spec": spec, "tl": tl})
    return members, rng.choice(("alternate", "alternate", "random", "runs")), rng


def run_interleaved(env, R, seedstr):
    """Every member connection is judged on its own octets - after every one of its reads and at the end - exactly as
    when it is alone; additionally its final trace is compared with the trace of the same reads on a connection that
    was alone (zones the judge leaves open included)."""
    members, mode, rng = interleave_case(seedstr)
    replay = {"kind": "interleave", "seedstr": seedstr, "ctx": members[0]["ctx"].to_json()}
    alone = []
    for j, m in enumerate(members):
        account(R, m["ctx"], m["tl"])
        R.count("evaluations")
        c = M.Case(env, R, m["ctx"], m["stream"], m["tl"], dict(replay, member=j, alone=True, seg=m["spec"]), m["label"])
        alone.append(c.run(reads_of(m["stream"], m["spec"]), online=True))
        if c.bad:
            return          # reported as an ordinary single-connection violation
    cases, queues = [], []
    try:
        for j, m in enumerate(members):
            c = M.Case(env, R, m["ctx"], m["stream"], m["tl"], dict(replay, member=j, seg=m["spec"]), "interleaved/" + m["label"])
            c.tag = "interleaved/"
            c.begin()
            cases.append(c)
            queues.append(reads_of(m["stream"], m["spec"]))
            R.count("evaluations")
        pos = [0] * len(cases)
        prev, run_left, turn = None, 0, 0
        while True:
            live = [j for j in range(len(cases)) if pos[j] < len(queues[j])]
            if not live:
                break
            if mode == "alternate":
                j = live[turn % len(live)]
                turn += 1
            elif mode == "random":
                j = rng.choice(live)
            else:
                if run_left <= 0 or prev not in live:
                    j, run_left = rng.choice(live), rng.randint(1, 4)
                else:
                    j = prev
                run_left -= 1
            if prev is not None and prev != j and prev in live:
                a = cases[prev]
                tl = a.tl
                if not a.bad and (tl.failure is None or a.k < tl.failure.earliest) and (tl.grey_from is None or a.k < tl.grey_from):
                    R.count("interleave_switches")
                    if a.k not in tl.idle:
                        R.count("interleave_switches_inside_message")
                    if a.k in tl.open_at:
                        R.count("interleave_switches_with_open_utf8_sequence")
            cases[j].feed(queues[j][pos[j]], True)
            pos[j] += 1
            prev = j
        traces = [c.finish() for c in cases]
    finally:
        env.done()
    R.count("interleaved_cases")
    keys = set(m["ctx"].key() for m in members)
    R.count("interleaved_same_factory_groups" if len(keys) == 1 else "interleaved_mixed_factory_groups")
    R.seen("interleave_modes", "%s/%d" % (mode, len(members)))
    for j, (c, tr) in enumerate(zip(cases, traces)):
        m = members[j]
        if c.bad or tr is None or alone[j] is None:
            continue
        R.count("interleaved_vs_alone_compared")
        if tr != alone[j]:
            tl = m["tl"]
            clause = tl.failure.clause if tl.failure else ("valid-close" if tl.close else "no-violation")
            R.violation("C02/%s/interleaved/differs-from-alone/%s" % (m["ctx"].key(), clause),
                        "a connection produced another trace than the same reads produce on a connection that is alone",
                        {"ctx": m["ctx"].name(), "label": m["label"], "stream_head_hex": m["stream"][:96].hex(), "seg": m["spec"],
                         "others": [x["label"] for x in members], "mode": mode,
                         "trace_alone": _trace_json(alone[j]), "trace_interleaved": _trace_json(tr)}, dict(replay, member=j))
    R.sample({"mode": mode, "members": [{"ctx": m["ctx"].name(), "label": m["label"], "stream_hex": m["stream"][:48].hex(), "seg": m["spec"][:1]}
                                        for m in members]}, kind="interleaved", every=29)


def _run_interleave(env, R, tier, seed, part, parts, fw):
    total = 640 if tier == "quick" else 8000        # per framework
    for g in range(total):
        if g % parts != part:
            continue
        run_interleaved(env, R, "il/%d/%s/%d" % (seed, fw, g))


# --------------------------------------------------------------------------------------------------
def replay(case, R):
    _install_reason_tagging()
    ctx = M.Ctx(*case["ctx"])
    kind = case["kind"]
    if kind == "interleave":
        env = M.Env()
        try:
            run_interleaved(env, R, case["seedstr"])
        finally:
            env.close()
        return
    if kind == "hdr":
        stream = hdr_stream(ctx, case["b0"], case["b1"], case["vi"])[0]
    elif kind == "gen":
        rng = random.Random(case["seedstr"])
        rng.randrange(16)
        stream = gen_stream(rng, ctx, big=case.get("big", False))[0]
    elif kind == "utf8":
        stream = utf8_corpus(ctx)[case["idx"]][1]
    elif kind == "close":
        stream = close_corpus(ctx)[case["idx"]][1]
    elif kind == "pmce":
        stream = pmce_corpus(ctx)[case["idx"]][1]
    elif kind == "asciirun":
        stream = asciirun_corpus(ctx)[case["idx"]][1]
    elif kind == "ctlinside":
        stream = ctlinside_corpus(ctx)[case["idx"]][1]
    else:
        stream = bytes.fromhex(case["hex"])
    specs = [case["seg"]]
    if case.get("seg_ref"):
        specs.insert(0, case["seg_ref"])
    env = M.Env()
    try:
        tl = run_stream(env, R, ctx, stream, specs, dict(case), "replay")
    finally:
        env.close()
    R.note("replay_expected", tl.summary())


MANIFEST_ENTRY = {
    "text": ("A real server/client protocol instance (Twisted and asyncio adapters, virtual clock, fake transport) is opened by "
             "a real handshake and fed raw octets; after every read its observable trace (onMessage/onPing/onPong, pongs and "
             "close frames written, transport drop, onClose, escaped exceptions - in observed order) is compared with an "
             "independent RFC 6455/7692 receiver judge, and final traces of the same stream under different segmentations "
             "are compared with each other (incl. read events of several chunks queued before the asyncio adapter's consumer runs); "
             "2..3 concurrently open connections with interleaved reads are each judged alone; every octet written is judged in "
             "the peer's role. Exhaustive over the first two header octets x canonical length completions x 16 "
             "receiver contexts (thorough; 2 complete + 14 sampled per seed in quick), plus grammar-generated sequences with one "
             "mutation, UTF-8, close-payload and permessage-deflate corpora (context take-over, inflated text valid/invalid). "
             "Held = no mismatch on the executions listed in the evidence."),
    "note": ("trusts vf/c02_judge.py + vf/utf8_ref.py and zlib as the inflate reference; grey zones (close codes 1012-1014, data "
             "after a peer close, the verdict for malformed DEFLATE, callbacks after a failure in closing-handshake mode, the exact "
             "moment inside a header/frame - for compressed text: inside the message - at which a failure is raised) are not "
             "asserted; Hixie-76 and proxy paths are not driven"),
    "technique": "runtime monitoring: history vs executable RFC reference (prefix-wise), differential across read segmentations, exhaustive header decision table",
}
