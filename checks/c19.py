"""C19 - authentication signatures interoperate and mutual authentication is enforced.

Monitor shape: executable reference + independent verifier + exhaustive alteration.  The real
``autobahn.wamp.auth`` / ``autobahn.wamp.cryptosign`` code is driven through its public entry points
(``AuthWampCra.on_challenge``, ``derive_key``, ``pbkdf2``, ``compute_wcs``, ``compute_totp``,
``check_totp``, ``generate_totp_secret``, ``AuthScram.on_challenge`` / ``on_welcome``,
``derive_scram_credential``, ``AuthCryptoSign.on_challenge``, ``CryptosignKey.sign_challenge``,
``_format_challenge``, ``util.xor``) with generated inputs; every returned value is judged by
``vf.crypto_ref`` (each primitive from a different implementation than the library's, pinned to RFC
vectors at start-up), and every single-bit alteration of signatures / server signatures / inputs is
replayed against the library and the verifier.
"""

import base64
import contextlib
import json
import random
import string

from vf import crypto_ref as CR
from vf.runner import h

PROPERTY = "C19"
LEVEL = "exploration"
EXHAUSTIVE = False
CRASH_IS_VIOLATION = False
RULE = ("generated: secrets {ascii, non-ascii, empty, 200+ chars} x salts x iterations {1,2,1000,4096} x key lengths "
        "{16,32,64} x challenges {JSON-like, non-ascii, empty, long} for WAMP-CRA; keys of 1..64 octets x instants "
        "{RFC 6238 instants, window edges 30k/30k+29/30k+29.999, random, > 2^32} for TOTP; passwords (SASLprep-stable) "
        "x salts of 8..64 octets x base64 spellings of the salt text {canonical, trailing LF (b2a_base64), CRLF, folded lines, MIME "
        "76-column lines, non-zero unused pad bits, both} x Argon2id (t,m) / PBKDF2 iterations x channel-binding strings for "
        "SCRAM; Ed25519 seeds x challenges x channel ids {none, 32 octets} for cryptosign, plus k = 2..4 signing requests "
        "(different challenges / channel ids) started back to back on ONE key object / ONE authenticator before the event loop "
        "runs; all from random.Random(seed, shard). Exhaustive "
        "inside a case: every single-bit alteration of the CRA signature, the cryptosign signature and signed message, "
        "the SCRAM server signature (256 bits + 14 structural forgeries), of the unused low bits of the salt text's last "
        "character (plus a line break appended / inserted / removed), and of challenge / key / salt / secret / "
        "channel id inputs (capped per case where a KDF with >= 1000 iterations is re-run; caps are lifted in the "
        "thorough tier). A case is non-trivial when a library result was compared with the reference or judged by the "
        "independent verifier; distinct = hash of (mechanism, configuration, inputs).")
ASSUMPTIONS = [
    "vf/crypto_ref.py is trusted: HMAC per RFC 2104 over hashlib, PBKDF2 via hashlib (library: cryptography), RFC 4226/6238 "
    "written out, RFC 5802 algebra + server-side verification written out, Ed25519 verification by cryptography/OpenSSL "
    "(library signs with libsodium), Argon2id by argon2-cffi's raw API cross-checked with libsodium for 16 byte salts; "
    "all pinned to RFC 2202/4231/6070/7914/4226/6238/5802/7677/8032 vectors at the start of every shard",
    "the WAMP-SCRAM AuthMessage layout 'n=<authid>,r=<cnonce>,r=<snonce>,s=<salt b64>,i=<it>,c=<cbind>,r=<snonce>' and the use of "
    "Argon2's unpadded-base64 encoded tag as SaltedPassword for kdf argon2id-13 are taken as the wire contract (they are pinned "
    "by the repository's committed derive_scram_credential vectors); every HMAC/hash/XOR/KDF on top is recomputed",
    "SCRAM salt arrives as base64 TEXT (what every WAMP serializer delivers for the spec's string attribute); a bytes salt is "
    "only observed (counter scram_bytes_salt_observed), never judged",
    "SCRAM AuthMessage carries the salt text exactly as sent in the CHALLENGE (RFC 5802: built from the server-first-message as "
    "received) and the KDF runs over the octets that text decodes to; for a text that is not canonical base64 (line breaks, "
    "non-zero unused pad bits - all spellings are generated from known octets and checked with a hand-written lenient decoder) a "
    "client may instead REFUSE the challenge (RFC 4648 3.3/3.5 allow strict decoders): counted, not a violation. Characters "
    "outside the alphabet other than CR/LF and missing padding are not driven",
    "WAMP-CRA entry points: auth.AuthWampCra, auth.create_authenticator('wampcra'), Session.add_authenticator()+onChallenge() (both "
    "frameworks; this is what Component(authentication={'wampcra': ...}) wires up in component.py create_session(), the Component's "
    "own connect loop is not driven) and the separate AuthWampCra class exported by autobahn.twisted.wamp (Twisted shards only; "
    "autobahn.asyncio.wamp exports no authenticator class) x key lengths {16,20,32,33,48,64}",
    "session level (both frameworks): a real twisted/asyncio Session with create_authenticator()+add_authenticator() behind the "
    "real WebSocket/RawSocket client transport of vf.world, the harness is the router. 'joined' = on_join fired or session id set. "
    "The verdict 'must not join' is asserted for WELCOMEs naming a method that was not offered / naming no method only when the "
    "session offered WAMP-SCRAM (the statement's mutual-authentication clause) and for authmethod=scram with a wrong/missing server "
    "signature; other configurations are observed (counters session_impostor_other_config_*). SCRAM salts are canonical here",
    "concurrent cryptosign requests: on asyncio the requests overlap (the reply future of request i is pending when request i+1 "
    "starts: counter cryptosign_concurrent_overlapping_starts); on Twisted fired Deferreds complete synchronously, so the same "
    "schedule degenerates to sequential use - both are judged by the same oracle",
    "passwords and authids are generated SASLprep-stable (saslprep(x) == x) and authids ASCII without ',' '=' so that the "
    "question whether the library normalizes passwords (RFC 5802 says SASLprep, the library does not) stays outside the verdict",
    "check_totp: accepted set = codes of time steps T-1, T, T+1 (the documented RFC 6238 leniency); a code of another step "
    "that collides with one of the three is expected to be accepted",
    "cryptosign: only verification under the independently derived public key and the signed message are asserted (not "
    "byte-equality with a deterministic RFC 8032 signature); a requested channel binding without a channel id is not driven",
    "time.time is replaced for the duration of each TOTP call (virtual instants); no wall-clock enters a verdict",
    "sloppy base64 of a correct server signature (non-alphabet characters that b64decode discards) is a grey zone and not driven",
]
DECIDING = {
    "cryptosign_explicit_pubkey_cases": 5, "cryptosign_autofilled_pubkey_cases": 5,
    "scram_welcome_without_challenge_checked": 10,
    "ref_vectors_checked": 40,
    "cra_signatures_compared": 50,
    "cra_alterations_checked": 2000,
    "totp_codes_compared": 200,
    "totp_window_checks": 200,
    "totp_rfc_vectors_compared": 6,
    "scram_proofs_verified": 20,
    "scram_welcome_correct_accepted": 20,
    "scram_welcome_forgeries_rejected": 5000,
    "scram_input_alterations_checked": 200,
    "scram_credentials_compared": 2,
    "cryptosign_signatures_verified": 500,
    "cryptosign_alterations_checked": 5000,
    "xor_compared": 50,
    # non-canonical base64 spellings of the SCRAM salt (proof verified over the text as sent, or the challenge refused) and
    # alterations of the salt text that leave its octets unchanged (unused-bit flips, line breaks)
    "scram_noncanonical_salt_judged": 20,
    "scram_salt_text_alterations_checked": 100,
    # one key object / authenticator, 2..4 signing requests in flight at once, each reply judged against its own challenge
    "cryptosign_concurrent_replies_judged_tx": 50,
    "cryptosign_concurrent_replies_judged_aio": 50,
    # WAMP-CRA through every public entry point x key lengths {16,20,32,33,48,64}
    "cra_entry_compared/auth.AuthWampCra": 60, "cra_entry_compared/create_authenticator": 60,
    "cra_entry_compared/session.onChallenge": 60, "cra_entry_compared/twisted.wamp.AuthWampCra": 30,
    "cra_entry_compared/session-wire": 10,
    # session level (real Session + add_authenticator over the real transport, scripted router)
    "session_authenticate_judged": 50, "session_honest_flows_judged": 30,
    "session_impostor_welcomes_judged/foreign-authmethod": 20, "session_impostor_welcomes_judged/foreign-authmethod-after-challenge": 20,
    "session_impostor_welcomes_judged/bad-server-signature": 30,
    "session_impostor_welcomes_judged/missing-authmethod": 4,
}

SECTIONS = ["cra", "totp", "scram-argon", "scram-pbkdf2", "scram-credential", "cryptosign", "session"]
LAYOUT = {   # section -> number of parts per framework
    "quick": {"cra": 2, "totp": 1, "scram-argon": 2, "scram-pbkdf2": 1, "scram-credential": 1, "cryptosign": 1, "session": 1},
    "thorough": {"cra": 5, "totp": 1, "scram-argon": 3, "scram-pbkdf2": 1, "scram-credential": 1, "cryptosign": 3, "session": 2},
}

NONASCII = "äöüßéèñçøåŁžșΩλπЖдя中文日本語한글€£¥©®™–—“”"
ASTRAL = "😀🔐𝔘𝓷"
ASCII = string.ascii_letters + string.digits + string.punctuation + " "
AUTHID_CHARS = string.ascii_letters + string.digits + "@._-"

# WAMP-cryptosign vectors published with the WAMP spec and committed in the repository's tests
CRYPTOSIGN_VECTORS = [
    (None, "4d57d97a68f555696620a6d849c0ce582568518d729eb753dc7c732de2804510", "ff" * 32),
    (None, "d511fe78e23934b3dadb52fcd022974b80bd92bccc7c5cf404e46cc0a8a2f5cd",
     "b26c1f87c13fc1da14997f1b5a71995dff8fbe0a62fae8473c7bdbd05bfb607d"),
    ("62e935ae755f3d48f80d4d59f6121358c435722a67e859cc0caa8b539027f2ff",
     "4d57d97a68f555696620a6d849c0ce582568518d729eb753dc7c732de2804510", "ff" * 32),
    ("62e935ae755f3d48f80d4d59f6121358c435722a67e859cc0caa8b539027f2ff",
     "6e1fde9cf9e2359a87420b65a87dc0c66136e66945196ba2475990d8a0c3a25b",
     "b05e6b8ad4d69abf74aa3be3c0ee40ae07d66e1895b9ab09285a2f1192d562d2"),
]
# committed derive_scram_credential vectors (src/autobahn/wamp/test/test_wamp_scram.py)
SCRAM_CREDENTIAL_VECTORS = [
    {"email": "foobar@example.com", "password": "secret123", "salt": None,
     "expected": {"iterations": 4096, "kdf": "argon2id-13", "memory": 512, "salt": "3bc3ca01dd1d501ca1c22e1c5d7d16fe",
                  "server-key": "8de7864c316f3c2356fd76cfdab696db55bc70e680fe5180e2f731e2345acca2",
                  "stored-key": "e796c2f0a51770303ee4616bc630a66774d51a55003154aff2a54ec7c4ac0e38"}},
    {"email": "foobar@example.com", "password": "secret123", "salt": "ae1f0d2f422757809077785e660b62c6",
     "expected": {"iterations": 4096, "kdf": "argon2id-13", "memory": 512, "salt": "ae1f0d2f422757809077785e660b62c6",
                  "server-key": "0d8e7e9222a7c0e54c9e979aa342115699ff5696c45dc379b5ee241338a5861d",
                  "stored-key": "5f19358ff6f38e267b6ef1ea1d862514ec4e8745a84682259fd3894be09febb5"}},
]


# ------------------------------------------------------------------------------------------------
def shards(tier, seed):
    out = []
    for fw in ("tx", "aio"):
        for sec in SECTIONS:
            parts = LAYOUT[tier][sec]
            for p in range(parts):
                out.append({"name": "%s-%s-%d" % (fw, sec, p), "fw": fw, "timeout": 1500,
                            "params": {"section": sec, "part": p, "parts": parts, "tier": tier, "seed": seed, "fw": fw}})
    return out


# ------------------------------------------------------------------------------------------------
# plain stand-ins for the session / transport an authenticator touches
# ------------------------------------------------------------------------------------------------
class _Log:
    def __init__(self):
        self.calls = []

    def _rec(self, level):
        def f(*a, **k):
            self.calls.append(level)
        return f

    def __getattr__(self, name):
        if name in ("error", "info", "debug", "warn", "warning", "failure", "critical", "trace"):
            return self._rec(name)
        raise AttributeError(name)


class _Transport:
    def __init__(self, details):
        self.transport_details = details


class _Session:
    def __init__(self, channel_id=None):
        from autobahn.wamp.types import TransportDetails

        self.log = _Log()
        self._transport = _Transport(TransportDetails(channel_id=channel_id if channel_id is not None else {}))


_LOOP = None


def _setup_fw(own_loop=True):
    global _LOOP
    import txaio

    if own_loop and txaio.using_asyncio and _LOOP is None:
        import asyncio

        _LOOP = asyncio.new_event_loop()
        asyncio.set_event_loop(_LOOP)
        txaio.config.loop = _LOOP
    return "tx" if txaio.using_twisted else "aio"


def _resolve(fut):
    """Value of a txaio future that the code under test returned (Deferred: already fired; asyncio: run the loop)."""
    import txaio

    if isinstance(fut, (str, bytes)):
        return fut
    if txaio.using_twisted:
        out, err = [], []
        fut.addCallbacks(out.append, err.append)
        if err:
            err[0].raiseException()
        if not out:
            raise RuntimeError("Deferred returned by the code under test did not fire synchronously")
        return out[0]
    return _LOOP.run_until_complete(fut)


@contextlib.contextmanager
def _patched_time(t):
    import time as _time

    real = _time.time
    _time.time = lambda: t
    try:
        yield
    finally:
        _time.time = real


def _exc(e):
    return type(e).__name__


def _flip_bit(data, bit):
    b = bytearray(data)
    b[bit >> 3] ^= 1 << (bit & 7)
    return bytes(b)


def _flip_char(s, i):
    c = ord(s[i]) ^ 1
    return s[:i] + chr(c) + s[i + 1:]


def _bits(nbits, cap, rng):
    """All bit positions, or ``cap`` of them (first, last and a random sample) when a cap applies."""
    if cap is None or nbits <= cap:
        return list(range(nbits))
    if nbits == 0:
        return []
    pos = {0, nbits - 1}
    while len(pos) < cap:
        pos.add(rng.randrange(nbits))
    return sorted(pos)


def _saslprep_stable(s):
    from passlib.utils import saslprep

    try:
        return saslprep(s) == s
    except Exception:
        return False


def gen_text(rng, cls, lo=1, hi=24):
    if cls == "empty":
        return ""
    if cls == "ascii":
        return "".join(rng.choice(ASCII) for _ in range(rng.randint(lo, hi)))
    if cls == "alnum":
        return "".join(rng.choice(string.ascii_letters + string.digits) for _ in range(rng.randint(lo, hi)))
    if cls == "nonascii":
        n = rng.randint(max(lo, 1), hi)
        s = [rng.choice(NONASCII + ASCII[:20]) for _ in range(n)]
        s[rng.randrange(n)] = rng.choice(NONASCII)
        return "".join(s)
    if cls == "astral":
        n = rng.randint(max(lo, 1), hi)
        s = [rng.choice(NONASCII + ASTRAL + ASCII) for _ in range(n)]
        s[rng.randrange(n)] = rng.choice(ASTRAL)
        return "".join(s)
    if cls == "long":
        n = rng.randint(200, 600)
        return "".join(rng.choice(ASCII + NONASCII) for _ in range(n))
    if cls == "nul":
        return "a\x00b" + "".join(rng.choice(ASCII) for _ in range(rng.randint(0, 5))) + "\x00"
    raise ValueError(cls)


def gen_challenge(rng, cls):
    if cls in ("empty",):
        return ""
    if cls == "long":
        return json.dumps({"pad": gen_text(rng, "long"), "nonce": base64.b64encode(rng.randbytes(16)).decode()},
                          ensure_ascii=False)
    idc = "nonascii" if cls == "nonascii" else "alnum"
    d = {"authid": gen_text(rng, idc, 1, 12), "authrole": rng.choice(["user", "admin", "anonymous"]),
         "authmethod": "wampcra", "authprovider": rng.choice(["static", "dynamic", "userdb"]),
         "session": rng.getrandbits(53), "nonce": base64.b64encode(rng.randbytes(rng.choice([12, 16, 18]))).decode(),
         "timestamp": "2026-09-%02dT%02d:%02d:%02d.%03dZ" % (rng.randint(1, 30), rng.randint(0, 23), rng.randint(0, 59),
                                                             rng.randint(0, 59), rng.randint(0, 999))}
    return json.dumps(d, ensure_ascii=(cls == "escaped"))


def gen_password(rng, cls):
    for _ in range(50):
        s = gen_text(rng, cls, 1, 24)
        if s == "" or _saslprep_stable(s):
            return s
    return "fallbackPassw0rd"


# ------------------------------------------------------------------------------------------------
# WAMP-CRA
# ------------------------------------------------------------------------------------------------
def run_cra(case, R):
    from autobahn.wamp import auth
    from autobahn.wamp.types import Challenge

    R.count("evaluations")
    rng = random.Random(case["alt_seed"])
    secret, salt, it, kl, chal = case["secret"], case["salt"], case["iterations"], case["keylen"], case["challenge"]
    cap, kdf_cap = case.get("cap"), case.get("kdf_cap")
    sb, cb = secret.encode("utf8"), chal.encode("utf8")
    salted = salt is not None
    mech = "salted" if salted else "unsalted"
    saltb = salt.encode("utf8") if salted else None
    ref_key = CR.cra_key(sb, saltb, it, kl)
    ref_sig = CR.cra_signature(ref_key, cb)
    if salted and it <= 2:   # third opinion on the KDF for cheap cases
        if CR.pbkdf2_py(sb, saltb, it, kl) != base64.b64decode(ref_key):
            raise CR.RefError("pbkdf2_py != hashlib.pbkdf2_hmac")

    def viol(key, what, **detail):
        detail.update(secret_class=case.get("secret_class"), iterations=it, keylen=kl)
        R.violation(key, what, detail, case)

    def on_challenge(secret_=secret, salt_=salt, it_=it, kl_=kl, chal_=chal):
        extra = {"challenge": chal_}
        if salt_ is not None:
            extra.update(salt=salt_, iterations=it_, keylen=kl_)
        sec = secret_.encode("utf8") if case.get("secret_as_bytes") else secret_
        a = auth.AuthWampCra(authid="user1", secret=sec)
        return a.on_challenge(_Session(), Challenge("wampcra", extra))

    # 1. the authenticator
    try:
        got = on_challenge()
    except Exception as e:
        viol("C19/cra/%s/on_challenge/raises/%s" % (mech, _exc(e)), "AuthWampCra.on_challenge raised %r" % (e,))
        return
    R.count("cra_signatures_compared")
    R.seen("nontrivial", h(["cra", mech, it, kl, secret, salt, chal]))
    R.seen("configs", "cra/%s/%s/it=%s/kl=%s" % (mech, case.get("secret_class"), it, kl))
    got_b = got.encode("ascii") if isinstance(got, str) else got
    if not isinstance(got, str) or got_b != ref_sig:
        viol("C19/cra/%s/on_challenge/signature-mismatch" % mech,
             "AuthWampCra.on_challenge returned %r, reference base64(HMAC-SHA256(key, challenge)) = %r" % (got, ref_sig),
             got=repr(got), want=ref_sig.decode())
    if not CR.cra_verify(ref_key, cb, got_b):
        viol("C19/cra/%s/on_challenge/verifier-rejects" % mech, "independent WAMP-CRA verifier rejects the signature")
    # 2. helper functions
    try:
        if salted:
            R.count("cra_helpers_compared", 3)
            v = auth.pbkdf2(sb, saltb, it, kl)
            if v != base64.b64decode(ref_key):
                viol("C19/cra/pbkdf2/mismatch", "pbkdf2() != PBKDF2-HMAC-SHA256 reference", got=v.hex())
            for s_, t_ in ((secret, salt), (sb, saltb)):
                v = auth.derive_key(s_, t_, it, kl)
                if v != ref_key:
                    viol("C19/cra/derive_key/mismatch", "derive_key() != base64(PBKDF2) reference", got=repr(v),
                         want=repr(ref_key), arg_types=type(s_).__name__)
        R.count("cra_helpers_compared", 2)
        v = auth.compute_wcs(ref_key, cb)
        if v != ref_sig:
            viol("C19/cra/compute_wcs/mismatch", "compute_wcs(bytes, bytes) != reference", got=repr(v), want=repr(ref_sig))
        try:
            key_s = ref_key.decode("utf8")
        except UnicodeDecodeError:
            key_s = None
        if key_s is not None:
            v = auth.compute_wcs(key_s, chal)
            if v != ref_sig:
                viol("C19/cra/compute_wcs/mismatch", "compute_wcs(str, str) != reference", got=repr(v), want=repr(ref_sig))
    except Exception as e:
        viol("C19/cra/helpers/raises/%s" % _exc(e), "helper raised %r" % (e,))
        return
    if not case.get("alter"):
        return
    # 3. alterations
    n_alt = 0
    try:
        sig_raw = base64.b64decode(got_b)
    except Exception:
        sig_raw = b""
    # 3a. every single-bit alteration of the signature is rejected by the verifier
    for bit in range(len(sig_raw) * 8):
        n_alt += 1
        if CR.cra_verify(ref_key, cb, base64.b64encode(_flip_bit(sig_raw, bit))):
            viol("C19/cra/verifier-accepts-altered-signature", "bit %d of the signature flipped, verifier accepts" % bit)
    R.count("cra_signature_bits_altered", len(sig_raw) * 8)

    def judge(kind, lib_value, ref_value, base_value):
        if lib_value == base_value:
            viol("C19/cra/alter/%s/same-signature" % kind, "altered %s yields the same result %r" % (kind, lib_value))
        elif lib_value != ref_value:
            viol("C19/cra/alter/%s/mismatch" % kind, "altered %s: library %r reference %r" % (kind, lib_value, ref_value))

    try:
        # 3b. challenge bits and 3c. key bits through compute_wcs
        for bit in _bits(len(cb) * 8, cap, rng):
            alt = _flip_bit(cb, bit)
            n_alt += 1
            judge("challenge-bit", auth.compute_wcs(ref_key, alt), CR.cra_signature(ref_key, alt), ref_sig)
        for bit in _bits(len(ref_key) * 8, cap, rng):
            alt = _flip_bit(ref_key, bit)
            n_alt += 1
            judge("key-bit", auth.compute_wcs(alt, cb), CR.cra_signature(alt, cb), ref_sig)
        # 3d. secret / salt bits through derive_key (the KDF is re-run for each)
        if salted:
            for bit in _bits(len(sb) * 8, kdf_cap, rng):
                alt = _flip_bit(sb, bit)
                n_alt += 1
                judge("secret-bit", auth.derive_key(alt, saltb, it, kl), CR.cra_key(alt, saltb, it, kl), ref_key)
            for bit in _bits(len(saltb) * 8, kdf_cap, rng):
                alt = _flip_bit(saltb, bit)
                n_alt += 1
                judge("salt-bit", auth.derive_key(sb, alt, it, kl), CR.cra_key(sb, alt, it, kl), ref_key)
        # 3e. the same through the authenticator (text level)
        alts = []
        if secret:
            for i in {0, len(secret) - 1, rng.randrange(len(secret))}:
                alts.append(("secret-char", dict(secret_=_flip_char(secret, i))))
        if chal:
            for i in {0, len(chal) - 1, rng.randrange(len(chal))}:
                alts.append(("challenge-char", dict(chal_=_flip_char(chal, i))))
        if salted:
            if salt:
                for i in {0, len(salt) - 1, rng.randrange(len(salt))}:
                    alts.append(("salt-char", dict(salt_=_flip_char(salt, i))))
            alts.append(("iterations", dict(it_=it + 1)))
            alts.append(("keylen", dict(kl_={16: 32, 32: 64, 64: 16}.get(kl, kl + 1))))
        for kind, kw in alts:
            s2, t2, i2, k2, c2 = (kw.get("secret_", secret), kw.get("salt_", salt), kw.get("it_", it), kw.get("kl_", kl),
                                  kw.get("chal_", chal))
            want = CR.cra_signature(CR.cra_key(s2.encode("utf8"), t2.encode("utf8") if salted else None, i2, k2),
                                    c2.encode("utf8")).decode()
            n_alt += 1
            judge(kind, on_challenge(**kw), want, got)
    except Exception as e:
        viol("C19/cra/alter/raises/%s" % _exc(e), "altered input made the library raise %r (a rejection is acceptable only "
             "for inputs outside the documented types; these are inside)" % (e,))
    R.count("cra_alterations_checked", n_alt)


def gen_cra_cases(rng, tier, part, parts):
    quick = tier == "quick"
    secret_classes = ["ascii", "alnum", "nonascii", "astral", "long", "empty", "nul"]
    chal_classes = ["json", "nonascii", "escaped", "long", "empty"]
    idx = 0
    reps = 1 if quick else 4
    for rep in range(reps):
        for it in (1, 2, 1000, 4096, None):
            for kl in (16, 32, 64):
                for sc in secret_classes:
                    idx += 1
                    if idx % parts != part:
                        continue
                    if it is None and kl != 32 and sc not in ("ascii", "nonascii"):
                        continue
                    secret = gen_text(rng, sc, 1, 40)
                    salted = it is not None
                    salt = None
                    if salted:
                        salt = gen_text(rng, rng.choice(["ascii", "alnum", "nonascii", "long" if it <= 2 else "ascii",
                                                         "empty" if rng.random() < 0.3 else "alnum"]), 1, 32)
                    cc = rng.choice(chal_classes)
                    cap = None if cc != "long" else 512
                    if quick:
                        kdf_cap = None if (it or 0) <= 2 else (24 if it == 1000 else 8)
                        if sc == "long" or (salt and len(salt) > 100):
                            kdf_cap = kdf_cap if kdf_cap is not None else 96
                    else:
                        kdf_cap = None if (it or 0) <= 2 else (256 if it == 1000 else 64)
                    yield {"kind": "cra", "secret": secret, "secret_class": sc, "salt": salt, "iterations": it if salted else None,
                           "keylen": kl if salted else None, "challenge": gen_challenge(rng, cc), "challenge_class": cc,
                           "secret_as_bytes": rng.random() < 0.25, "alter": True, "cap": cap, "kdf_cap": kdf_cap,
                           "alt_seed": rng.getrandbits(32)}


# ------------------------------------------------------------------------------------------------
# TOTP
# ------------------------------------------------------------------------------------------------
def run_totp(case, R):
    from autobahn.wamp import auth

    R.count("evaluations")
    key = bytes.fromhex(case["key"])
    t = case["t"]
    secret = base64.b32encode(key).decode("ascii")
    T = CR.totp_counter(t)
    rng = random.Random(case.get("alt_seed", 0))

    def viol(key_, what, **detail):
        detail.update(t=t, step=T, instant_class=case.get("cls"), keylen=len(key))
        R.violation(key_, what, detail, case)

    with _patched_time(t):
        import time as _time
        assert _time.time() == t
        try:
            for off in case.get("offsets", [0, 1, -1]):
                if T + off < 0:
                    continue
                got = auth.compute_totp(secret, off) if off != 0 or rng.random() < 0.5 else auth.compute_totp(secret)
                want = CR.hotp(key, T + off)
                R.count("totp_codes_compared")
                if case.get("rfc8") and off == 0:
                    R.count("totp_rfc_vectors_compared")
                    if want != case["rfc8"][-6:]:
                        raise CR.RefError("reference TOTP != RFC 6238 vector")
                if got != want:
                    viol("C19/totp/compute_totp/%s" % ("offset" if off else "current"),
                         "compute_totp(offset=%d) = %r at t=%r, RFC 6238 reference = %r" % (off, got, t, want), got=got, want=want)
            R.seen("nontrivial", h(["totp", case["key"], t]))
            R.seen("configs", "totp/%s/keylen=%d" % (case.get("cls"), len(key)))
            window = {CR.hotp(key, T + d) for d in (-1, 0, 1) if T + d >= 0}
            tickets = [(("step%+d" % d), CR.hotp(key, T + d)) for d in range(-4, 5) if T + d >= 0]
            cur = CR.hotp(key, T)
            for i in range(6):
                tickets.append(("digit-altered", cur[:i] + str((int(cur[i]) + 1 + rng.randrange(9)) % 10) + cur[i + 1:]))
            tickets.append(("random", "%06d" % rng.randrange(10 ** 6)))
            tickets.append(("short", cur[1:]))
            tickets.append(("long", cur + "0"))
            for kind, ticket in tickets:
                want = ticket in window
                got = auth.check_totp(secret, ticket)
                R.count("totp_window_checks")
                R.count("totp_window_accept_expected" if want else "totp_window_reject_expected")
                if bool(got) != want or not isinstance(got, bool):
                    viol("C19/totp/check_totp/%s" % ("rejects-in-window" if want else "accepts-outside-window"),
                         "check_totp(%r) = %r at t=%r for a %s ticket; accepted set is steps T-1..T+1" % (ticket, got, t, kind),
                         ticket=ticket, ticket_kind=kind)
        except CR.RefError:
            raise
        except Exception as e:
            viol("C19/totp/raises/%s" % _exc(e), "TOTP function raised %r" % (e,))


def run_totp_secret(case, R):
    from autobahn.wamp import auth

    R.count("evaluations")
    n = case["length"]
    try:
        s1, s2 = auth.generate_totp_secret(n), auth.generate_totp_secret(n)
        R.count("totp_generated_secrets_checked")
        ok = isinstance(s1, str) and all(c in "ABCDEFGHIJKLMNOPQRSTUVWXYZ234567=" for c in s1)
        raw = base64.b32decode(s1) if ok else b""
        if not ok or len(raw) != n or (n >= 8 and s1 == s2):
            R.violation("C19/totp/generate_totp_secret/format", "generate_totp_secret(%d) = %r is not Base32 of %d random octets"
                        % (n, s1, n), {}, case)
            return
        with _patched_time(case["t"]):
            got = auth.compute_totp(s1)
        R.count("totp_codes_compared")
        R.seen("nontrivial", h(["totp-secret", n, s1]))
        if got != CR.totp(raw, case["t"]):
            R.violation("C19/totp/compute_totp/generated-secret", "code for a generated secret differs from the reference", {}, case)
    except Exception as e:
        R.violation("C19/totp/raises/%s" % _exc(e), "TOTP function raised %r" % (e,), {}, case)


def gen_totp_cases(rng, tier):
    rfc_key = CR.RFC6238_SECRET.hex()
    for t, code8 in CR.RFC6238_SHA1:
        yield {"kind": "totp", "key": rfc_key, "t": t, "cls": "rfc6238", "rfc8": code8, "offsets": [0, 1, -1, 2, -2],
               "alt_seed": t}
        yield {"kind": "totp", "key": rfc_key, "t": t + 0.5, "cls": "rfc6238-float", "rfc8": code8, "offsets": [0, 1, -1],
               "alt_seed": t + 1}
    n = 150 if tier == "quick" else 4000
    for i in range(n):
        klen = rng.choice([1, 5, 10, 10, 16, 20, 20, 32, 64, rng.randint(1, 64)])
        key = rng.randbytes(klen).hex()
        k = rng.choice([rng.randrange(2, 10 ** 6), rng.randrange(10 ** 6, 6 * 10 ** 7), rng.randrange(6 * 10 ** 7, 2 ** 31)])
        cls = rng.choice(["edge-start", "edge-end-int", "edge-end-frac", "edge-before", "random-int", "random-float", "beyond-2^32"])
        if cls == "edge-start":
            t = 30 * k
        elif cls == "edge-end-int":
            t = 30 * k + 29
        elif cls == "edge-end-frac":
            t = 30 * k + 29.999
        elif cls == "edge-before":
            t = 30 * k - 0.001
        elif cls == "random-int":
            t = 30 * k + rng.randrange(30)
        elif cls == "random-float":
            t = 30 * k + rng.random() * 30
        else:
            t = 2 ** 32 + rng.randrange(2 ** 36)
        offs = [0, 1, -1] + [rng.choice([-1, 1]) * rng.randrange(2, 1000)]
        yield {"kind": "totp", "key": key, "t": t, "cls": cls, "offsets": offs, "alt_seed": rng.getrandbits(32)}
    for n_ in (1, 5, 10, 16, 20, 32):
        yield {"kind": "totp-secret", "length": n_, "t": 30 * rng.randrange(2, 10 ** 8) + rng.randrange(30)}


# ------------------------------------------------------------------------------------------------
# WAMP-SCRAM
# ------------------------------------------------------------------------------------------------
def _welcome(a, authextra):
    sess = _Session()
    try:
        r = a.on_welcome(sess, authextra)
    except Exception as e:
        return "raise:" + _exc(e)
    return "accept" if r is None else "deny"


SALT_FORMS = ["canonical", "newline", "crlf", "fold", "mime", "padbits", "padbits-newline"]


def _spell_salt(raw, form, variant=0):
    """One of the base64 TEXTS a router may put on the wire for the salt octets ``raw``: canonical (base64.b64encode), with
    the trailing newline binascii.b2a_base64 emits, CRLF-terminated, folded into short lines / MIME lines of 76 characters
    (base64.encodebytes), with non-zero unused low bits in the last character before the padding (RFC 4648 3.5), or both.
    Every spelling decodes to ``raw`` with a lenient decoder (checked with the hand-written one of crypto_ref)."""
    text = CR.b64_encode_canonical(raw)
    if text != base64.b64encode(raw).decode("ascii"):
        raise CR.RefError("b64_encode_canonical != base64.b64encode")
    if form in ("padbits", "padbits-newline"):
        i, unused = CR.b64_unused_bits(text)
        if unused:
            v = 1 + variant % ((1 << unused) - 1)
            text = text[:i] + CR.B64_ALPHABET[CR.B64_ALPHABET.index(text[i]) | v] + text[i + 1:]
        else:
            text += "\n"
        if form == "padbits-newline":
            text += "\n"
    elif form == "newline":
        text += "\n"
    elif form == "crlf":
        text += "\r\n"
    elif form in ("fold", "mime"):
        width = 76 if form == "mime" else (4, 8, 16, 20, 60)[variant % 5]
        sep = "\r\n" if (form == "fold" and variant % 2) else "\n"
        text = "".join(text[i:i + width] + sep for i in range(0, len(text), width))
        if form == "mime" and text != base64.encodebytes(raw).decode("ascii"):
            raise CR.RefError("mime spelling != base64.encodebytes")
    elif form != "canonical":
        raise ValueError(form)
    if CR.b64_decode_lenient(text) != raw:
        raise CR.RefError("salt spelling %r does not decode to the salt octets" % (text,))
    return text


def _salt_text(p):
    if p.get("salt_text") is not None:
        return p["salt_text"]
    return _spell_salt(bytes.fromhex(p["salt"]), p.get("salt_form") or "canonical", p.get("salt_variant") or 0)


_KDF_CACHE = {}


def _scram_ref(case, client_nonce, **over):
    """Reference keys + AuthMessage: the KDF runs over the salt OCTETS, the AuthMessage carries the salt TEXT exactly as
    sent in the CHALLENGE (RFC 5802: AuthMessage is built from the server-first-message as received)."""
    p = dict(case)
    p.update(over)
    salt_text = _salt_text(p)
    k = (p["kdf"], p["password"], p["salt"], p["iterations"], p.get("memory"))
    if k not in _KDF_CACHE:
        if len(_KDF_CACHE) > 64:
            _KDF_CACHE.clear()
        _KDF_CACHE[k] = CR.scram_salted_password_octets(p["kdf"], p["password"].encode("utf8"), bytes.fromhex(p["salt"]),
                                                        p["iterations"], p.get("memory"))
    salted = _KDF_CACHE[k]
    am = CR.scram_auth_message(p["authid"], client_nonce, client_nonce + p["server_nonce_tail"], salt_text, p["iterations"],
                               p["channel_binding"] or "")
    return CR.ScramKeys(salted), am


def _scram_challenge(case, client_nonce, salt_as_bytes=False, **over):
    from autobahn.wamp.types import Challenge

    p = dict(case)
    p.update(over)
    salt_text = _salt_text(p)
    extra = {"nonce": client_nonce + p["server_nonce_tail"], "kdf": p["kdf"],
             "salt": salt_text.encode("ascii") if salt_as_bytes else salt_text, "iterations": p["iterations"]}
    if p.get("memory") is not None:
        extra["memory"] = p["memory"]
    if p["channel_binding"] is not None:
        extra["channel_binding"] = p["channel_binding"]
    return Challenge("scram", extra)


def run_scram(case, R):
    from autobahn.wamp import auth

    R.count("evaluations")
    rng = random.Random(case["alt_seed"])
    kdf = case["kdf"]
    base = "C19/scram/%s" % kdf

    def viol(key, what, **detail):
        detail.update(kdf=kdf, iterations=case["iterations"], memory=case.get("memory"), salt_len=len(case["salt"]) // 2,
                      password_class=case.get("password_class"), salt_form=case.get("salt_form") or "canonical")
        R.violation(key, what, detail, case)

    a = auth.AuthScram(authid=case["authid"], password=case["password"])
    extra = a.authextra
    client_nonce = extra["nonce"]
    if not isinstance(client_nonce, str) or not client_nonce or a.authextra.get("nonce") != client_nonce:
        viol("C19/scram/authextra/nonce", "authextra nonce %r is not a stable non-empty string" % (client_nonce,))
        return
    keys, am = _scram_ref(case, client_nonce)
    form = case.get("salt_form") or "canonical"
    salt_text = _salt_text(case)
    noncanonical = salt_text != CR.b64_encode_canonical(bytes.fromhex(case["salt"]))
    if noncanonical:
        base += "/noncanonical-salt-text"
    # 1. client proof
    try:
        reply = a.on_challenge(_Session(), _scram_challenge(case, client_nonce))
    except Exception as e:
        R.count("scram_on_challenge_raised")
        if noncanonical:
            # RFC 4648 3.3/3.5 allow a strict decoder to refuse line breaks / non-zero pad bits: a rejection of such a
            # CHALLENGE is within the statement ("... or a rejection"); what is not, is a proof over another text
            R.count("scram_noncanonical_salt_judged")
            R.count("scram_noncanonical_salt_rejected_observed")
            R.seen("salt_forms", form + "/rejected:" + _exc(e))
            return
        viol("%s/text-salt/on_challenge/raises/%s" % (base, _exc(e)),
             "AuthScram.on_challenge raised %r for a well-formed challenge (kdf=%s, base64 text salt)" % (e, kdf))
        _scram_observe_pbkdf2(case, client_nonce, R)
        return
    try:
        proof = base64.b64decode(reply, validate=True)
    except Exception:
        viol(base + "/proof-encoding", "on_challenge reply %r is not base64" % (reply,))
        return
    R.count("scram_proofs_verified")
    if noncanonical:
        R.count("scram_noncanonical_salt_judged")
    R.seen("salt_forms", form)
    R.seen("nontrivial", h(["scram", kdf, case["iterations"], case.get("memory"), case["password"], case["salt"], salt_text,
                            case["server_nonce_tail"], case["channel_binding"]]))
    R.seen("configs", "scram/%s/it=%s/m=%s/salt=%d/%s/%s" % (kdf, case["iterations"], case.get("memory"), len(case["salt"]) // 2,
                                                             case.get("password_class"), form))
    if not CR.scram_server_verify(keys.stored_key, am, proof):
        viol(base + "/verifier-rejects", "RFC 5802 server-side verification (H(ClientProof XOR HMAC(StoredKey, AuthMessage)) == "
             "StoredKey) rejects the client proof", proof=proof.hex(), auth_message=am.decode("ascii"))
    elif proof != keys.client_proof(am):
        viol(base + "/proof-mismatch", "client proof differs from the reference", proof=proof.hex())
    # 2. mutual authentication: correct server signature accepted ...
    server_sig = keys.server_signature(am)

    def b64s(x):
        return base64.b64encode(x).decode("ascii")

    v = _welcome(a, {"scram_server_signature": b64s(server_sig)})
    if v != "accept":
        viol(base + "/on_welcome/rejects-correct", "on_welcome -> %s for the correct server signature" % v)
        return
    R.count("scram_welcome_correct_accepted")
    # ... and every altered one denied (a str return or an exception aborts the session; only None lets it through)
    n_forged = 0
    for bit in range(len(server_sig) * 8):
        n_forged += 1
        if _welcome(a, {"scram_server_signature": b64s(_flip_bit(server_sig, bit))}) == "accept":
            viol("C19/scram/on_welcome/accepts-altered/bit-flip", "server signature with bit %d flipped is accepted" % bit, bit=bit)
    other_keys, other_am = _scram_ref(case, client_nonce, server_nonce_tail=case["server_nonce_tail"] + "x")
    wrongpw_keys, _ = _scram_ref(case, client_nonce, password=case["password"] + "x")
    forgeries = [
        ("prefix-31", {"scram_server_signature": b64s(server_sig[:31])}),
        ("prefix-16", {"scram_server_signature": b64s(server_sig[:16])}),
        ("prefix-1", {"scram_server_signature": b64s(server_sig[:1])}),
        ("empty", {"scram_server_signature": ""}),
        ("extended", {"scram_server_signature": b64s(server_sig + b"\x00")}),
        ("doubled", {"scram_server_signature": b64s(server_sig + server_sig)}),
        ("zeros", {"scram_server_signature": b64s(bytes(32))}),
        ("client-proof", {"scram_server_signature": b64s(proof)}),
        ("client-signature", {"scram_server_signature": b64s(keys.client_signature(am))}),
        ("server-key", {"scram_server_signature": b64s(keys.server_key)}),
        ("other-auth-message", {"scram_server_signature": b64s(other_keys.server_signature(other_am))}),
        ("wrong-password-server", {"scram_server_signature": b64s(wrongpw_keys.server_signature(am))}),
        ("missing", {}),
        ("authextra-none", None),
    ]
    for kind, ax in forgeries:
        n_forged += 1
        if _welcome(a, ax) == "accept":
            viol("C19/scram/on_welcome/accepts-altered/%s" % kind, "on_welcome accepts a WELCOME whose server signature is %s" % kind)
    R.count("scram_welcome_forgeries_rejected", n_forged)
    # ... and a WELCOME that was never preceded by a CHALLENGE cannot carry a correct server signature at all:
    # a fresh authenticator (HELLO sent, i.e. authextra/nonce drawn, on_challenge never called) must deny every one
    # (returning a string or raising both abort the session; only None lets it join)
    fresh = auth.AuthScram(authid=case["authid"], password=case["password"])
    fresh.authextra
    for kind, ax in [("replayed-correct", {"scram_server_signature": b64s(server_sig)}), ("zeros", {"scram_server_signature": b64s(bytes(32))}),
                     ("empty", {"scram_server_signature": ""}), ("missing", {}), ("authextra-none", None)]:
        R.count("scram_welcome_without_challenge_checked")
        if _welcome(fresh, ax) == "accept":
            viol("C19/scram/on_welcome/accepts-without-challenge/%s" % kind,
                 "on_welcome of an authenticator that never saw a CHALLENGE accepts a WELCOME (server signature %s)" % kind)
    v = _welcome(a, {"scram_server_signature": b64s(server_sig)})
    if v != "accept":
        viol(base + "/on_welcome/rejects-correct", "on_welcome -> %s for the correct server signature after rejected forgeries" % v)
    # 3. altered inputs: different proof (== reference), stale server signature denied
    if not case.get("alter"):
        return
    salt_raw = bytes.fromhex(case["salt"])
    alts = [("salt-bit", dict(salt=_flip_bit(salt_raw, bit).hex())) for bit in _bits(len(salt_raw) * 8, case.get("kdf_cap"), rng)]
    # the salt TEXT altered without altering the octets it decodes to: the unused low bits of the last character flipped,
    # a line break appended / inserted / removed.  The CHALLENGE was altered, so the proof must change (or the challenge be
    # refused) although the KDF input is the same
    text_alts = []
    last, unused = CR.b64_unused_bits(salt_text)
    for b in range(unused):
        text_alts.append(("salt-text-unused-bit", salt_text[:last] + CR.B64_ALPHABET[CR.B64_ALPHABET.index(salt_text[last]) ^ (1 << b)]
                          + salt_text[last + 1:]))
    text_alts.append(("salt-text-linebreak-appended", salt_text + rng.choice(["\n", "\r\n"])))
    k = rng.randrange(1, last + 1)
    text_alts.append(("salt-text-linebreak-inserted", salt_text[:k] + "\n" + salt_text[k:]))
    if "\n" in salt_text:
        text_alts.append(("salt-text-linebreak-removed", salt_text.replace("\r", "").replace("\n", "")))
    for kind, t in text_alts:
        if t == salt_text or CR.b64_decode_lenient(t) != salt_raw:
            raise CR.RefError("salt text alteration %s: %r -> %r changes the octets" % (kind, salt_text, t))
        alts.append((kind, dict(salt_text=t)))
    alts.append(("iterations", dict(iterations=case["iterations"] + 1)))
    if case.get("memory") is not None:
        alts.append(("memory", dict(memory=case["memory"] + 8)))
    tail = case["server_nonce_tail"]
    alts.append(("server-nonce", dict(server_nonce_tail=_flip_char(tail, rng.randrange(len(tail))))))
    alts.append(("channel-binding", dict(channel_binding=(case["channel_binding"] or "") + "A")))
    pw = case["password"]
    for i in ({0, len(pw) - 1, rng.randrange(len(pw))} if pw else ()):
        pw2 = _flip_char(pw, i)
        if _saslprep_stable(pw2):
            alts.append(("password-char", dict(password=pw2)))
    aid = case["authid"]
    i = rng.randrange(len(aid))
    alts.append(("authid-char", dict(authid=aid[:i] + ("Z" if aid[i] != "Z" else "Y") + aid[i + 1:])))
    n_alt = n_text = 0
    for kind, over in alts:
        try:
            if "password" in over or "authid" in over:
                b = auth.AuthScram(authid=over.get("authid", aid), password=over.get("password", pw))
                b._client_nonce = client_nonce   # same exchange, other credentials (the repository's own tests do this)
            else:
                b = a
            reply2 = b.on_challenge(_Session(), _scram_challenge(case, client_nonce, **over))
            proof2 = base64.b64decode(reply2)
        except Exception as e:
            if _salt_text(dict(case, **over)) != CR.b64_encode_canonical(bytes.fromhex(over.get("salt", case["salt"]))):
                R.count("scram_noncanonical_salt_rejected_observed")    # refusing a non-canonical spelling is a rejection
                n_text += "salt_text" in over
                continue
            viol("%s/alter/%s/raises/%s" % (base, kind, _exc(e)), "altered %s made on_challenge raise %r" % (kind, e))
            continue
        n_alt += 1
        n_text += "salt_text" in over
        keys2, am2 = _scram_ref(case, client_nonce, **over)
        if proof2 == proof:
            viol("%s/alter/%s/same-proof" % (base, kind), "altered %s yields the same client proof" % kind, over=over)
        elif not CR.scram_server_verify(keys2.stored_key, am2, proof2):
            viol("%s/alter/%s/verifier-rejects" % (base, kind), "proof for altered %s is rejected by the verifier" % kind, over=over)
        if CR.scram_server_verify(keys.stored_key, am, proof2):
            viol("%s/alter/%s/verifier-accepts-for-original" % (base, kind),
                 "proof computed from altered %s verifies against the unaltered exchange" % kind, over=over)
        if _welcome(b, {"scram_server_signature": b64s(server_sig)}) == "accept":
            viol("C19/scram/on_welcome/accepts-altered/stale-after-%s" % kind,
                 "server signature of the unaltered exchange accepted after a challenge with altered %s" % kind, over=over)
        if _welcome(b, {"scram_server_signature": b64s(keys2.server_signature(am2))}) != "accept":
            viol(base + "/on_welcome/rejects-correct", "correct server signature rejected after altered %s" % kind, over=over)
    R.count("scram_input_alterations_checked", n_alt)
    R.count("scram_salt_text_alterations_checked", n_text)


def _scram_observe_pbkdf2(case, client_nonce, R):
    """Observations (no verdict) that keep the PBKDF2 branch visible while on_challenge raises for text salts."""
    from autobahn.wamp import auth

    if case["kdf"] != "pbkdf2":
        return
    salt_raw = bytes.fromhex(case["salt"])
    try:
        v = auth._hash_pbkdf2_secret(case["password"].encode("utf8"), salt_raw, case["iterations"])
        R.count("scram_pbkdf2_helper_observed")
        if v == CR.pbkdf2(case["password"].encode("utf8"), salt_raw, case["iterations"], 32):
            R.count("scram_pbkdf2_helper_equals_reference_on_raw_salt")
    except Exception:
        R.count("scram_pbkdf2_helper_raised")
    try:
        a = auth.AuthScram(authid=case["authid"], password=case["password"])
        a._client_nonce = client_nonce
        reply = a.on_challenge(_Session(), _scram_challenge(case, client_nonce, salt_as_bytes=True))
        R.count("scram_bytes_salt_observed")
        keys, am = _scram_ref(case, client_nonce)
        if not CR.scram_server_verify(keys.stored_key, am, base64.b64decode(reply)):
            R.count("scram_bytes_salt_proof_not_interoperable_observed")
    except Exception:
        R.count("scram_bytes_salt_raised_observed")


def run_scram_rfc7677(case, R):
    """The RFC 7677 SCRAM-SHA-256 example exchange fits the WAMP-SCRAM layout exactly (c=biws): the library's client must
    produce the RFC's ClientProof and accept the RFC's ServerSignature."""
    from autobahn.wamp import auth
    from autobahn.wamp.types import Challenge

    R.count("evaluations")
    vec = CR.RFC7677
    a = auth.AuthScram(authid=vec["authid"], password=vec["password"])
    a._client_nonce = vec["client_nonce"]
    ch = Challenge("scram", {"nonce": vec["server_nonce"], "kdf": "pbkdf2", "salt": vec["salt"], "iterations": vec["iterations"],
                             "channel_binding": vec["channel_binding"]})
    try:
        reply = a.on_challenge(_Session(), ch)
    except Exception as e:
        R.count("scram_on_challenge_raised")
        R.violation("C19/scram/pbkdf2/text-salt/on_challenge/raises/%s" % _exc(e),
                    "AuthScram.on_challenge raised %r for the RFC 7677 example exchange" % (e,), {"vector": "RFC7677"}, case)
        return
    R.count("scram_proofs_verified")
    R.count("scram_rfc7677_compared")
    R.seen("nontrivial", "scram-rfc7677")
    got = reply.decode("ascii") if isinstance(reply, bytes) else reply
    if got != vec["proof"]:
        R.violation("C19/scram/pbkdf2/rfc7677/proof-mismatch", "ClientProof %r != RFC 7677 %r" % (got, vec["proof"]), {}, case)
    if _welcome(a, {"scram_server_signature": vec["server_signature"]}) != "accept":
        R.violation("C19/scram/pbkdf2/on_welcome/rejects-correct", "RFC 7677 ServerSignature rejected", {}, case)
    else:
        R.count("scram_welcome_correct_accepted")


def run_scram_credential(case, R):
    """derive_scram_credential (what a router stores) against the reference, and a full exchange in which the reference
    server verifies the library client's proof with the library-derived StoredKey/ServerKey."""
    from autobahn.wamp import auth

    R.count("evaluations")
    email, password = case["email"], case["password"]
    salt = bytes.fromhex(case["salt"]) if case["salt"] else None
    try:
        cred = auth.derive_scram_credential(email, password, salt)
    except Exception as e:
        R.violation("C19/scram/derive_scram_credential/raises/%s" % _exc(e), "raised %r" % (e,), {}, case)
        return
    eff_salt = salt or CR.sha256(email.encode("utf8"))[:16]
    salted = CR.argon2_b64(CR.argon2id_raw(password.encode("utf8"), eff_salt, 4096, 512))
    keys = CR.ScramKeys(salted)
    want = {"kdf": "argon2id-13", "memory": 512, "iterations": 4096, "salt": eff_salt.hex(),
            "stored-key": keys.stored_key.hex(), "server-key": keys.server_key.hex()}
    if case.get("expected") and want != case["expected"]:
        raise CR.RefError("reference disagrees with the committed derive_scram_credential vector")
    R.count("scram_credentials_compared")
    R.seen("nontrivial", h(["scram-credential", email, password, case["salt"]]))
    if cred != want:
        R.violation("C19/scram/derive_scram_credential/mismatch", "credential %r, reference %r" % (cred, want), {}, case)
        return
    # exchange against the stored credential
    a = auth.AuthScram(authid=email, password=password)
    client_nonce = a.authextra["nonce"]
    ex = {"kdf": cred["kdf"], "password": password, "authid": email, "salt": cred["salt"], "iterations": cred["iterations"],
          "memory": cred["memory"], "server_nonce_tail": "c2VydmVyLW5vbmNl", "channel_binding": None}
    try:
        reply = a.on_challenge(_Session(), _scram_challenge(ex, client_nonce))
        proof = base64.b64decode(reply)
    except Exception as e:
        R.violation("C19/scram/argon2id-13/text-salt/on_challenge/raises/%s" % _exc(e), "raised %r" % (e,), {}, case)
        return
    salt_b64 = base64.b64encode(eff_salt).decode("ascii")
    am = CR.scram_auth_message(email, client_nonce, client_nonce + ex["server_nonce_tail"], salt_b64, 4096, "")
    R.count("scram_proofs_verified")
    if not CR.scram_server_verify(bytes.fromhex(cred["stored-key"]), am, proof):
        R.violation("C19/scram/credential-exchange/verifier-rejects",
                    "a server holding the derive_scram_credential() StoredKey rejects the proof AuthScram computes for the same "
                    "password/salt/cost", {}, case)
    sig = CR.hmac_digest(bytes.fromhex(cred["server-key"]), am)
    if _welcome(a, {"scram_server_signature": base64.b64encode(sig).decode("ascii")}) != "accept":
        R.violation("C19/scram/credential-exchange/on_welcome/rejects-correct",
                    "server signature made with the derive_scram_credential() ServerKey is rejected", {}, case)
    else:
        R.count("scram_welcome_correct_accepted")
    if _welcome(a, {"scram_server_signature": base64.b64encode(_flip_bit(sig, 255)).decode("ascii")}) == "accept":
        R.violation("C19/scram/on_welcome/accepts-altered/bit-flip", "altered server signature accepted", {}, case)
    R.count("scram_welcome_forgeries_rejected")


def gen_scram_cases(rng, tier, kdf, part, parts):
    quick = tier == "quick"
    n = (36 if kdf == "argon2id-13" else 24) if quick else (130 if kdf == "argon2id-13" else 200)   # per shard
    for i in range(n):
        pc = rng.choice(["ascii", "alnum", "nonascii", "nonascii", "long", "empty" if rng.random() < 0.5 else "ascii"])
        password = gen_password(rng, pc)
        if kdf == "argon2id-13":
            if quick:
                it, mem = rng.choice([(1, 8), (2, 8), (1, 16), (2, 32), (3, 64), (4, 16)])
            else:
                it, mem = rng.choice([(1, 8), (2, 8), (1, 16), (2, 32), (3, 64), (4, 16), (2, 512), (8, 256), (32, 512), (3, 4096)])
            kdf_cap = None if it * mem <= 256 else (32 if quick else 128)
            salt_len = rng.choice([8, 16, 16, 16, 24, 32, 64])
        else:
            it, mem = rng.choice([1, 2, 1000, 4096]), None
            kdf_cap = None if it <= 2 else ((16 if quick else 128) if it == 1000 else (8 if quick else 48))
            salt_len = rng.choice([8, 12, 16, 16, 24, 32, 64])
        case = {"kind": "scram", "kdf": kdf, "password": password, "password_class": pc,
                "authid": gen_text(rng, "alnum", 1, 3) + "".join(rng.choice(AUTHID_CHARS) for _ in range(rng.randint(0, 12))),
                "salt": rng.randbytes(salt_len).hex(), "salt_form": rng.choice(SALT_FORMS) if i % 5 >= 2 else "canonical",
                "salt_variant": rng.randrange(1000), "iterations": it, "memory": mem,
                "server_nonce_tail": base64.b64encode(rng.randbytes(rng.choice([12, 16, 18]))).decode("ascii"),
                "channel_binding": rng.choice([None, None, "", "biws", "tls-unique"]),
                "alter": True, "kdf_cap": kdf_cap, "alt_seed": rng.getrandbits(32)}
        yield case


# ------------------------------------------------------------------------------------------------
# WAMP-cryptosign
# ------------------------------------------------------------------------------------------------
def run_cryptosign(case, R):
    from autobahn.wamp import auth, cryptosign
    from autobahn.wamp.types import Challenge

    R.count("evaluations")
    rng = random.Random(case["alt_seed"])
    seed = bytes.fromhex(case["seed"])
    chal = bytes.fromhex(case["challenge"])
    cid = bytes.fromhex(case["channel_id"]) if case["channel_id"] else None
    binding = "tls-unique" if cid is not None else None
    bname = binding or "no-binding"
    base = "C19/cryptosign/%s" % bname
    method = case.get("method", "cryptosign")

    def viol(key, what, **detail):
        detail.update(binding=bname, via=case.get("via"))
        R.violation(key, what, detail, case)

    pub = CR.ed25519_public_from_seed(seed)
    want_msg = CR.cryptosign_message(chal, cid)

    def sign(seed_=seed, chal_=chal, cid_=cid, via=None):
        """Reply of the library for (seed, challenge, channel id) through the authenticator or the key object."""
        via = via or case.get("via", "authenticator")
        ch = Challenge(method, {"challenge": chal_.hex()})
        if via == "authenticator":
            ax = {"channel_binding": binding} if binding else {}
            # configuration dimension: the application may announce its public key itself (authextra.pubkey) or let the
            # authenticator fill it in; either way the channel binding it asked for must go into the signed message
            if case.get("explicit_pubkey", bool(case["alt_seed"] & 1)):
                ax["pubkey"] = CR.ed25519_public_from_seed(seed_).hex()
                R.count("cryptosign_explicit_pubkey_cases")
            else:
                R.count("cryptosign_autofilled_pubkey_cases")
            a = auth.AuthCryptoSign(privkey=seed_.hex(), authid="client01", authextra=ax)
            # a transport that has a channel id although no binding was requested must not influence the signature
            chan = {"tls-unique": cid_} if cid_ is not None else ({"tls-unique": bytes(32)} if case.get("decoy_channel") else {})
            return _resolve(a.on_challenge(_Session(chan), ch)), a.authextra.get("pubkey")
        k = cryptosign.CryptosignKey.from_bytes(seed_)
        return _resolve(k.sign_challenge(ch, channel_id=cid_, channel_id_type=binding)), k.public_key()

    def judge(reply, pub_, msg_, clause_base):
        parts = CR.cryptosign_split_reply(reply)
        if parts is None:
            viol(clause_base + "/reply-layout", "reply %r is not hex(signature 64 octets) || hex(message 32 octets)" % (reply,))
            return None
        sig, msg = parts
        if msg != msg_:
            viol(clause_base + "/message-mismatch", "signed message %s, expected challenge%s = %s" % (
                msg.hex(), " XOR channel_id" if binding else "", msg_.hex()))
            return None
        if not CR.ed25519_verify(pub_, sig, msg_):
            viol(clause_base + "/verifier-rejects", "Ed25519 verification (cryptography) of the signature fails under the public "
                 "key derived from the seed", signature=sig.hex())
            return None
        R.count("cryptosign_signatures_verified")
        return sig

    try:
        reply, pub_hex = sign()
    except Exception as e:
        viol("%s/sign/raises/%s" % (base, _exc(e)), "signing raised %r" % (e,))
        return
    R.seen("nontrivial", h(["cryptosign", case["seed"], case["challenge"], case["channel_id"], case.get("via"), method]))
    R.seen("configs", "cryptosign/%s/%s/%s/%s" % (bname, case.get("via"), method,
                                                   "pubkey-explicit" if case.get("explicit_pubkey", bool(case["alt_seed"] & 1)) else "pubkey-auto"))
    if pub_hex != pub.hex():
        viol("C19/cryptosign/pubkey-mismatch", "library public key %r, cryptography derives %s from the same seed" % (pub_hex, pub.hex()))
    sig = judge(reply, pub, want_msg, base)
    try:
        fm = cryptosign._format_challenge(Challenge(method, {"challenge": chal.hex()}), cid, binding)
        R.count("cryptosign_format_compared")
        if fm != want_msg:
            viol(base + "/_format_challenge/mismatch", "_format_challenge -> %r, expected %s" % (fm, want_msg.hex()))
    except Exception as e:
        viol("%s/_format_challenge/raises/%s" % (base, _exc(e)), "raised %r" % (e,))
    if sig is None or not case.get("alter"):
        return
    n_alt = 0
    # every single-bit alteration of the signature and of the signed message in the reply is rejected
    for bit in range(512):
        n_alt += 1
        if CR.ed25519_verify(pub, _flip_bit(sig, bit), want_msg):
            viol("C19/cryptosign/verifier-accepts-altered-signature", "signature with bit %d flipped verifies" % bit)
    for bit in range(256):
        n_alt += 1
        if CR.ed25519_verify(pub, sig, _flip_bit(want_msg, bit)):
            viol("C19/cryptosign/verifier-accepts-altered-message", "signature verifies for the message with bit %d flipped" % bit)
    # altered challenge / channel id / key -> a different signature (valid for the altered input only)
    cap = case.get("cap")
    plans = [("challenge-bit", bit, dict(chal_=_flip_bit(chal, bit))) for bit in _bits(256, cap, rng)]
    if cid is not None:
        plans += [("channel-id-bit", bit, dict(cid_=_flip_bit(cid, bit))) for bit in _bits(256, cap, rng)]
    plans += [("key-bit", bit, dict(seed_=_flip_bit(seed, bit))) for bit in _bits(256, cap, rng)]
    for kind, bit, kw in plans:
        try:
            reply2, pub2_hex = sign(**kw)
        except Exception as e:
            viol("%s/alter/%s/raises/%s" % (base, kind, _exc(e)), "altered %s made signing raise %r" % (kind, e))
            break
        n_alt += 1
        pub2 = CR.ed25519_public_from_seed(kw.get("seed_", seed))
        msg2 = CR.cryptosign_message(kw.get("chal_", chal), kw.get("cid_", cid))
        sig2 = judge(reply2, pub2, msg2, "%s/alter/%s" % (base, kind))
        if sig2 is None:
            continue
        if sig2 == sig:
            viol("%s/alter/%s/same-signature" % (base, kind), "bit %d of %s flipped, signature unchanged" % (bit, kind))
        if kind == "key-bit":
            if pub2_hex == pub_hex or CR.ed25519_verify(pub, sig2, msg2):
                viol("%s/alter/key-bit/same-key" % base, "altered private key yields a signature valid under the original public key")
        elif CR.ed25519_verify(pub, sig, msg2):
            viol("C19/cryptosign/verifier-accepts-altered-message", "original signature verifies for the altered message")
    R.count("cryptosign_alterations_checked", n_alt)


def _tick(n=1):
    """Let the asyncio loop run ``n`` iterations (no-op on Twisted, where fired Deferreds run their callbacks synchronously)."""
    import txaio

    if txaio.using_asyncio:
        import asyncio

        for _ in range(n):
            _LOOP.run_until_complete(asyncio.sleep(0))


def _outcome(fut):
    """('ok', value) | ('err', exception name) | ('pending', None) of a txaio future, without waiting."""
    import txaio

    if isinstance(fut, (str, bytes)):
        return "ok", fut
    if txaio.using_twisted:
        out, err = [], []
        fut.addCallbacks(out.append, lambda f: err.append(f) and None)
        if err:
            return "err", type(err[0].value).__name__
        return ("ok", out[0]) if out else ("pending", None)
    if not fut.done():
        return "pending", None
    if fut.cancelled():
        return "err", "CancelledError"
    if fut.exception() is not None:
        return "err", type(fut.exception()).__name__
    return "ok", fut.result()


def run_cryptosign_concurrent(case, R):
    """ONE key object (the documented ``extra={"key": CryptosignKey...}`` idiom) resp. ONE AuthCryptoSign authenticator serving
    several sessions: k signing requests with different challenges / channel ids are started back to back WITHOUT the event
    loop running in between (both CHALLENGEs handled in the same loop iteration), then the loop runs and every reply is judged
    against ITS OWN challenge: signed message == challenge_i XOR channel_id_i, Ed25519 signature valid for it."""
    import txaio
    from autobahn.wamp import auth, cryptosign
    from autobahn.wamp.types import Challenge

    R.count("evaluations")
    fw = "tx" if txaio.using_twisted else "aio"
    seed = bytes.fromhex(case["seed"])
    via = case["via"]
    items = case["items"]
    base = "C19/cryptosign/concurrent/%s" % via
    pub = CR.ed25519_public_from_seed(seed)

    def viol(key, what, **detail):
        detail.update(via=via, k=len(items), framework=fw, ticks=case.get("ticks"))
        R.violation(key, what, detail, case)

    bound = bool(case.get("binding"))
    try:
        if via == "key":
            key = cryptosign.CryptosignKey.from_bytes(seed)
        else:
            ax = {"channel_binding": "tls-unique"} if bound else {}
            a = auth.AuthCryptoSign(privkey=seed.hex(), authid="client01", authextra=ax)
    except Exception as e:
        viol("%s/setup/raises/%s" % (base, _exc(e)), "raised %r" % (e,))
        return
    futs, want = [], []
    ticks = case.get("ticks") or [0] * len(items)
    for i, it in enumerate(items):
        chal = bytes.fromhex(it["challenge"])
        cid = bytes.fromhex(it["channel_id"]) if it.get("channel_id") else None
        ch = Challenge(it.get("method", "cryptosign"), {"challenge": chal.hex()})
        if futs and _outcome_peek(futs[-1]) == "pending":
            R.count("cryptosign_concurrent_overlapping_starts")    # the previous request is still in flight
        try:
            if via == "key":
                f = key.sign_challenge(ch, channel_id=cid, channel_id_type="tls-unique" if cid is not None else None)
                want.append(CR.cryptosign_message(chal, cid))
            else:
                # a session without channel binding may still sit on a transport that has a channel id (must be ignored)
                chan = {"tls-unique": cid} if cid is not None else {}
                f = a.on_challenge(_Session(chan), ch)
                want.append(CR.cryptosign_message(chal, cid if bound else None))
        except Exception as e:
            viol("%s/sign/raises/%s" % (base, _exc(e)), "request %d of %d raised %r" % (i, len(items), e))
            return
        futs.append(f)
        if ticks[i]:
            _tick(ticks[i])
    for _ in range(20):
        if all(_outcome_peek(f) != "pending" for f in futs):
            break
        _tick()
    R.seen("nontrivial", h(["cryptosign-concurrent", case["seed"], via, bound, items, ticks]))
    R.seen("configs", "cryptosign-concurrent/%s/k=%d/%s" % (via, len(items), "per-request" if via == "key" else ("binding" if bound else "no-binding")))
    for i, f in enumerate(futs):
        st, reply = _outcome(f)
        if st != "ok":
            viol("%s/%s" % (base, "unresolved" if st == "pending" else "fails/%s" % reply),
                 "request %d of %d: future %s" % (i, len(items), "never resolved (20 loop iterations)" if st == "pending" else "failed: %s" % reply))
            continue
        R.count("cryptosign_concurrent_replies_judged_" + fw)
        parts = CR.cryptosign_split_reply(reply)
        if parts is None:
            viol(base + "/reply-layout", "request %d: reply %r is not hex(signature 64 octets) || hex(message 32 octets)" % (i, reply))
            continue
        sig, msg = parts
        if msg != want[i]:
            other = [j for j in range(len(items)) if j != i and want[j] == msg]
            viol(base + ("/message-of-other-request" if other else "/message-mismatch"),
                 "request %d of %d (same key object, started back to back): signed message %s, its own challenge XOR channel id "
                 "= %s%s" % (i, len(items), msg.hex(), want[i].hex(), "; that is the message of request %d" % other[0] if other else ""),
                 request=i)
        if not CR.ed25519_verify(pub, sig, want[i]):
            viol(base + "/verifier-rejects", "request %d of %d: Ed25519 verification of the signature over this request's own "
                 "message (challenge XOR channel id) fails" % (i, len(items)), request=i,
                 valid_for=[j for j in range(len(items)) if CR.ed25519_verify(pub, sig, want[j])])
        elif msg == want[i]:
            R.count("cryptosign_signatures_verified")


def _outcome_peek(fut):
    import txaio

    if isinstance(fut, (str, bytes)):
        return "ok"
    if txaio.using_twisted:
        return "done" if fut.called else "pending"
    return "done" if fut.done() else "pending"


def run_xor(case, R):
    from autobahn import util

    R.count("evaluations")
    a, b = bytes.fromhex(case["a"]), bytes.fromhex(case["b"])
    try:
        got = util.xor(a, b)
    except Exception as e:
        R.violation("C19/xor/raises/%s" % _exc(e), "util.xor raised %r for equal-length bytes" % (e,), {"len": len(a)}, case)
        return
    R.count("xor_compared")
    if len(a):
        R.seen("nontrivial", h(["xor", case["a"], case["b"]]))
    if got != CR.xor(a, b) or type(got) is not bytes:
        R.violation("C19/xor/mismatch", "util.xor(%s, %s) = %r" % (case["a"][:40], case["b"][:40], got), {"len": len(a)}, case)


def gen_cryptosign_cases(rng, tier, part, parts):
    quick = tier == "quick"
    idx = 0
    for cidhex, seed, chal in CRYPTOSIGN_VECTORS:
        for via in ("authenticator", "key"):
            idx += 1
            if idx % parts == part:
                yield {"kind": "cryptosign", "seed": seed, "challenge": chal, "channel_id": cidhex, "via": via, "alter": True,
                       "cap": 32 if quick else None, "alt_seed": idx, "vector": "wamp-spec"}
    for seedhex, _, _, _ in CR.RFC8032:
        idx += 1
        if idx % parts == part:
            yield {"kind": "cryptosign", "seed": seedhex, "challenge": rng.randbytes(32).hex(), "channel_id": rng.randbytes(32).hex(),
                   "via": "authenticator", "alter": True, "cap": 32 if quick else None, "alt_seed": idx, "vector": "rfc8032-key"}
    n = 40 if quick else 700
    for i in range(n):
        special = rng.random()
        chal = rng.randbytes(32)
        cid = rng.randbytes(32) if rng.random() < 0.6 else None
        if special < 0.08:
            chal = bytes(32)
        elif special < 0.16:
            chal = b"\xff" * 32
        elif special < 0.24 and cid is not None:
            cid = rng.choice([bytes(32), b"\xff" * 32, chal])     # XOR -> challenge itself / complement / all-zero message
        elif special < 0.30 and cid is not None:
            cid = bytes(16) + rng.randbytes(16) if rng.random() < 0.5 else rng.randbytes(16) + bytes(16)
        full = (i % (8 if quick else 4) == 0)
        yield {"kind": "cryptosign", "seed": rng.randbytes(32).hex(), "challenge": chal.hex(),
               "channel_id": cid.hex() if cid is not None else None, "via": rng.choice(["authenticator", "authenticator", "key"]),
               "method": rng.choice(["cryptosign", "cryptosign", "cryptosign-proxy"]),
               "decoy_channel": cid is None and rng.random() < 0.5,
               "alter": True, "cap": None if full else (8 if quick else 48), "alt_seed": rng.getrandbits(32)}
    for i in range(60 if quick else 800):
        k = rng.choice([2, 2, 2, 3, 3, 4])
        via = rng.choice(["key", "key", "authenticator"])
        bound = rng.random() < 0.6
        items = []
        for j in range(k):
            chal = rng.randbytes(32)
            if items and rng.random() < 0.1:
                chal = bytes.fromhex(items[0]["challenge"])           # same challenge, other channel
            cid = rng.randbytes(32) if (bound if via != "key" else rng.random() < 0.6) or (via != "key" and rng.random() < 0.3) else None
            items.append({"challenge": chal.hex(), "channel_id": cid.hex() if cid is not None else None,
                          "method": rng.choice(["cryptosign", "cryptosign", "cryptosign-proxy"])})
        ticks = [0] * k
        if k > 2 and rng.random() < 0.3:
            ticks[rng.randrange(1, k - 1)] = rng.choice([1, 2])       # some requests one loop turn later; the first two never
        yield {"kind": "cryptosign-concurrent", "seed": rng.randbytes(32).hex(), "via": via, "binding": bound, "items": items,
               "ticks": ticks}
    for i in range(80 if quick else 600):
        ln = rng.choice([0, 1, 2, 15, 16, 17, 31, 32, 32, 32, 33, 64, 100, rng.randint(0, 300)])
        yield {"kind": "xor", "a": rng.randbytes(ln).hex(), "b": rng.randbytes(ln).hex()}



# ------------------------------------------------------------------------------------------------
# WAMP-CRA through EVERY public entry point that computes a signature
# ------------------------------------------------------------------------------------------------
CRA_KEYLENS = (16, 20, 32, 33, 48, 64)


def _fw_session_class():
    import txaio

    if txaio.using_twisted:
        from autobahn.twisted.wamp import Session
    else:
        from autobahn.asyncio.wamp import Session
    return Session


def run_cra_entry(case, R):
    """One salted/unsalted WAMP-CRA challenge signed through every public entry point of the process' framework: the generic
    auth.AuthWampCra, auth.create_authenticator("wampcra"), the separate AuthWampCra class exported by autobahn.twisted.wamp
    (Twisted processes only; autobahn.asyncio.wamp exports none) and Session.add_authenticator()+onChallenge() (what
    Component(authentication={"wampcra": {...}}) wires up: component.py create_session() = create_authenticator + add_authenticator).
    Each signature is compared with base64(HMAC-SHA256(PBKDF2-HMAC-SHA256(secret, salt, iterations, keylen) b64, challenge))."""
    import txaio
    from autobahn.wamp import auth
    from autobahn.wamp.types import Challenge, ComponentConfig

    R.count("evaluations")
    secret, salt, it, kl, chal = case["secret"], case["salt"], case["iterations"], case["keylen"], case["challenge"]
    salted = salt is not None
    ref_key = CR.cra_key(secret.encode("utf8"), salt.encode("utf8") if salted else None, it, kl)
    ref_sig = CR.cra_signature(ref_key, chal.encode("utf8")).decode("ascii")
    extra = {"challenge": chal}
    if salted:
        extra.update(salt=salt, iterations=it, keylen=kl)
    sec = secret.encode("utf8") if case.get("secret_as_bytes") else secret

    def via_session():
        sess = _fw_session_class()(ComponentConfig("realm1"))
        sess.add_authenticator(auth.create_authenticator("wampcra", authid="user1", secret=sec))
        return sess.onChallenge(Challenge("wampcra", dict(extra)))

    entries = [("auth.AuthWampCra", lambda: auth.AuthWampCra(authid="user1", secret=sec).on_challenge(_Session(), Challenge("wampcra", dict(extra)))),
               ("create_authenticator", lambda: auth.create_authenticator("wampcra", authid="user1", secret=sec).on_challenge(
                   _Session(), Challenge("wampcra", dict(extra)))),
               ("session.onChallenge", via_session)]
    if txaio.using_twisted:
        from autobahn.twisted import wamp as txwamp

        if hasattr(txwamp, "AuthWampCra"):
            entries.append(("twisted.wamp.AuthWampCra", lambda: txwamp.AuthWampCra(authid="user1", secret=sec).on_challenge(
                _Session(), Challenge("wampcra", dict(extra)))))
    else:
        from autobahn.asyncio import wamp as aiowamp

        if hasattr(aiowamp, "AuthWampCra"):
            entries.append(("asyncio.wamp.AuthWampCra", lambda: aiowamp.AuthWampCra(authid="user1", secret=sec).on_challenge(
                _Session(), Challenge("wampcra", dict(extra)))))
    mech = "salted" if salted else "unsalted"
    for name, fn in entries:
        try:
            got = fn()
        except Exception as e:
            R.violation("C19/cra/entry/%s/%s/raises/%s" % (name, mech, _exc(e)), "%s raised %r" % (name, e),
                        {"iterations": it, "keylen": kl}, case)
            continue
        R.count("cra_entry_compared/" + name)
        R.count("cra_signatures_compared")
        R.seen("nontrivial", h(["cra-entry", name, secret, salt, it, kl, chal]))
        R.seen("configs", "cra-entry/%s/%s/kl=%s" % (name, mech, kl))
        if got != ref_sig:
            R.violation("C19/cra/entry/%s/%s/signature-mismatch" % (name, mech),
                        "%s returned %r for a %s challenge (iterations=%s keylen=%s), independent reference = %r"
                        % (name, got, mech, it, kl, ref_sig), {"iterations": it, "keylen": kl, "got": repr(got), "want": ref_sig}, case)


def gen_cra_entry_cases(rng, tier):
    n = 0
    for rep in range(1 if tier == "quick" else 6):
        for kl in CRA_KEYLENS + (None,):
            for it in (1, 2, 3, 10, 100, 1000):
                n += 1
                salted = kl is not None
                sc = rng.choice(["ascii", "alnum", "nonascii", "astral", "empty" if rng.random() < 0.3 else "ascii"])
                if not salted and it > 2:
                    continue
                yield {"kind": "cra-entry", "secret": gen_text(rng, sc, 1, 40), "secret_class": sc,
                       "salt": gen_text(rng, rng.choice(["ascii", "alnum", "nonascii"]), 1, 24) if salted else None,
                       "iterations": it if salted else None, "keylen": kl, "challenge": gen_challenge(rng, rng.choice(["json", "nonascii", "escaped"])),
                       "secret_as_bytes": rng.random() < 0.25}


# ------------------------------------------------------------------------------------------------
# session level: a real Session with add_authenticator() over the real client transport against a scripted router
# ------------------------------------------------------------------------------------------------
SESSION_CONFIGS = [["scram"], ["scram"], ["scram", "cryptosign"], ["scram", "wampcra", "ticket"], ["cryptosign"], ["wampcra"],
                   ["ticket"], ["scram", "anonymous"], ["cryptosign", "anonymous"]]
FOREIGN_METHODS = ["anonymous", "ticket", "tls", "cookie", "wampcra", "scram", "cryptosign", "cryptosign-proxy", "anonymous-proxy", "",
                   "SCRAM", "scram-sha-256"]
WELCOME_ROLES_ = {"broker": {}, "dealer": {}}


def _make_session_factory(case, made):
    from autobahn.wamp import auth
    from autobahn.wamp.types import ComponentConfig

    Base = _fw_session_class()

    class S(Base):
        def on_join(self, details):
            self.events.append(("join", details.session, details.authmethod))

        def on_leave(self, details):
            self.events.append(("leave", details.reason))
            self.disconnect()

        def on_disconnect(self):
            self.events.append(("disconnect",))

    cfgs = {"scram": dict(authid=case["authid"], password=case["password"]),
            "cryptosign": dict(authid=case["authid"], privkey=case["seed"]),
            "wampcra": dict(authid=case["authid"], secret=case["secret"]),
            "ticket": dict(authid=case["authid"], ticket=case["ticket"]),
            "anonymous": dict()}

    def factory():
        sess = S(ComponentConfig("realm1"))
        sess.events = []
        for m in case["methods"]:       # what Component(authentication={...}) does per session
            sess.add_authenticator(auth.create_authenticator(m, **cfgs[m]))
        made.append(sess)
        return sess
    return factory


def run_session_auth(case, R):
    """HELLO -> [CHALLENGE -> AUTHENTICATE] -> WELCOME against a real Session: the AUTHENTICATE signature is judged by the
    independent verifier; the session may join only when the flow is honest."""
    from vf.wamp_harness import RouterPeer

    R.count("evaluations")
    methods, flow = case["methods"], case["flow"]
    cls = "scram-config" if "scram" in methods else "other-config"
    base = "C19/session/%s" % flow
    made = []
    rp = RouterPeer(_make_session_factory(case, made), transport=case["transport"], serializer=case["serializer"])

    def viol(key, what, **detail):
        detail.update(methods=methods, flow=flow, challenge_method=case.get("challenge_method"), welcome_authmethod=case.get("welcome_authmethod"),
                      transport=case["transport"], serializer=case["serializer"])
        R.violation(key, what, detail, case)

    try:
        rp.connect()
        msgs = rp.recv()
        if not msgs or msgs[0][0] != 1:
            raise CR.RefError("session did not send HELLO: %r" % (msgs,))
        hello = msgs[0][2]
        if sorted(hello.get("authmethods") or []) != sorted(methods):
            viol("C19/session/hello/authmethods", "HELLO announces %r, configured %r" % (hello.get("authmethods"), methods))
        sess = made[-1]
        sent = []
        authextra = None
        cm = case.get("challenge_method")
        if cm is not None:
            ax = hello.get("authextra") or {}
            if cm == "scram":
                cn = ax.get("nonce")
                sc = dict(case["scram"], authid=case["authid"], password=case["password"])
                ch = _scram_challenge(sc, cn)
                rp.send([4, "scram", ch.extra])
            elif cm == "cryptosign":
                rp.send([4, "cryptosign", {"challenge": case["challenge_hex"]}])
            elif cm == "wampcra":
                c = case["cra"]
                rp.send([4, "wampcra", {"challenge": c["challenge"], "salt": c["salt"], "iterations": c["iterations"], "keylen": c["keylen"]}])
            elif cm == "ticket":
                rp.send([4, "ticket", {}])
            sent = rp.recv()
            if len(sent) != 1 or sent[0][0] != 5:
                viol("C19/session/%s/no-authenticate" % cm, "CHALLENGE(%s) answered with %r instead of one AUTHENTICATE" % (cm, sent))
                return
            sig = sent[0][1]
            R.count("session_authenticate_judged")
            ok = None
            if cm == "scram":
                keys, am = _scram_ref(sc, cn)
                try:
                    ok = CR.scram_server_verify(keys.stored_key, am, base64.b64decode(sig, validate=True))
                except Exception:
                    ok = False
                authextra = {"scram_server_signature": base64.b64encode(keys.server_signature(am)).decode("ascii")}
            elif cm == "cryptosign":
                parts = CR.cryptosign_split_reply(sig)
                chal = bytes.fromhex(case["challenge_hex"])
                ok = bool(parts) and parts[1] == chal and CR.ed25519_verify(CR.ed25519_public_from_seed(bytes.fromhex(case["seed"])), parts[0], chal)
                if ax.get("pubkey") != CR.ed25519_public_from_seed(bytes.fromhex(case["seed"])).hex():
                    ok = False
            elif cm == "wampcra":
                c = case["cra"]
                ok = sig == CR.cra_signature(CR.cra_key(case["secret"].encode("utf8"), c["salt"].encode("utf8"), c["iterations"], c["keylen"]),
                                             c["challenge"].encode("utf8")).decode("ascii")
                R.count("cra_entry_compared/session-wire")
            elif cm == "ticket":
                ok = sig == case["ticket"]
            if not ok:
                viol("C19/session/%s/authenticate/verifier-rejects" % cm,
                     "the AUTHENTICATE signature a real Session sent for CHALLENGE(%s) is rejected by the independent verifier" % cm, signature=sig)
        # WELCOME
        details = {"roles": WELCOME_ROLES_, "realm": "realm1", "authid": case["authid"], "authrole": "user", "authprovider": "static"}
        wm = case.get("welcome_authmethod")
        if wm is not None:
            details["authmethod"] = wm
        wx = case.get("welcome_authextra", "correct")
        if wx == "correct":
            if authextra is not None:
                details["authextra"] = authextra
        elif wx == "correct-or-zeros":
            details["authextra"] = authextra or {"scram_server_signature": base64.b64encode(bytes(32)).decode("ascii")}
        elif wx == "empty":
            details["authextra"] = {}
        elif wx == "none":
            pass
        elif isinstance(wx, dict) and "flip" in wx:
            raw = base64.b64decode(authextra["scram_server_signature"])
            details["authextra"] = {"scram_server_signature": base64.b64encode(_flip_bit(raw, wx["flip"])).decode("ascii")}
        elif isinstance(wx, dict) and "forge" in wx:
            raw = base64.b64decode(authextra["scram_server_signature"]) if authextra else bytes(32)
            forged = {"prefix-31": raw[:31], "empty": b"", "extended": raw + b"\x00", "zeros": bytes(32)}[wx["forge"]]
            details["authextra"] = {"scram_server_signature": base64.b64encode(forged).decode("ascii")}
        rp.send([2, case["session_id"], details])
        after = rp.recv()
        joined = any(e[0] == "join" for e in sess.events) or sess._session_id is not None
        aborted = any(m and m[0] == 3 for m in after)
        refused = aborted or bool(rp.ep.close_requested)
        R.seen("session_outcomes", "%s/%s/%s" % (flow, "joined" if joined else "not-joined", "abort" if aborted else ("close" if refused else "no-abort")))
        R.seen("nontrivial", h(["session", methods, flow, cm, wm, repr(wx), case["transport"], case["serializer"], case["authid"], case["session_id"]]))
        R.seen("configs", "session/%s/%s/%s" % ("+".join(methods), flow, case["transport"]))
        if flow == "honest":
            R.count("session_honest_flows_judged")
            if not joined or aborted:
                viol("C19/session/honest/not-joined", "honest router (authmethod %r, verified AUTHENTICATE, correct WELCOME): session %s; sent %r"
                     % (wm, "aborted" if aborted else "did not join", after))
        elif cls == "scram-config" or flow == "bad-server-signature":
            # the mutual-authentication clause: a client that offered WAMP-SCRAM joins only on a correct server signature
            R.count("session_impostor_welcomes_judged")
            R.count("session_impostor_welcomes_judged/" + flow)
            if joined:
                viol("%s/joined" % base, "a session configured with authenticators %r JOINED (on_join fired / session id set) after a WELCOME %s "
                     "- no server signature was checked" % (methods, case["what"]), events=sess.events)
            elif not refused:
                R.count("session_impostor_not_joined_but_no_abort_observed")
        else:
            R.count("session_impostor_welcomes_observed_other_config")
            R.count("session_impostor_other_config_%s" % ("joined" if joined else "refused"))
    finally:
        try:
            rp.teardown()
        except Exception:
            pass
        rp.close_world()


def gen_session_cases(rng, tier):
    quick = tier == "quick"

    def basecase(methods):
        kdf = rng.choice(["pbkdf2", "pbkdf2", "argon2id-13"])
        return {"kind": "session-auth", "methods": methods, "authid": gen_text(rng, "alnum", 2, 10), "password": gen_password(rng, rng.choice(["ascii", "nonascii"])),
                "seed": rng.randbytes(32).hex(), "secret": gen_text(rng, rng.choice(["ascii", "nonascii"]), 1, 24), "ticket": gen_text(rng, "alnum", 4, 20),
                "challenge_hex": rng.randbytes(32).hex(), "session_id": rng.randrange(1, 2 ** 53),
                "transport": rng.choice(["websocket", "websocket", "rawsocket"]), "serializer": rng.choice(["json", "json", "cbor", "msgpack"]),
                "scram": {"kdf": kdf, "salt": rng.randbytes(rng.choice([8, 16, 32])).hex(), "salt_form": "canonical", "salt_variant": 0, "iterations": rng.choice([1, 2, 64]) if kdf == "pbkdf2" else rng.choice([1, 2]),
                          "memory": None if kdf == "pbkdf2" else 8, "server_nonce_tail": base64.b64encode(rng.randbytes(12)).decode("ascii"),
                          "channel_binding": None},
                "cra": {"challenge": gen_challenge(rng, "json"), "salt": gen_text(rng, "alnum", 4, 16), "iterations": rng.choice([1, 2, 10, 100]),
                        "keylen": rng.choice(CRA_KEYLENS)}}

    reps = 1 if quick else 6
    for rep in range(reps):
        # honest flows: every configured method of every configuration; WAMP-CRA with every key length
        for methods in SESSION_CONFIGS:
            for m in methods:
                c = basecase(methods)
                c.update(flow="honest", challenge_method=None if m == "anonymous" else m, welcome_authmethod=m, what="honest")
                yield c
        for kl in CRA_KEYLENS:
            c = basecase(rng.choice([["wampcra"], ["scram", "wampcra", "ticket"]]))
            c["cra"]["keylen"] = kl
            c.update(flow="honest", challenge_method="wampcra", welcome_authmethod="wampcra", what="honest")
            yield c
        # impostor: WELCOME claims a method the client did not offer, with / without a preceding CHALLENGE round
        for methods in SESSION_CONFIGS:
            foreign = [m for m in FOREIGN_METHODS if m not in methods]
            for wm in (foreign if "scram" in methods else rng.sample(foreign, 3)):
                for pre in (None, rng.choice([m for m in methods if m != "anonymous"])):
                    c = basecase(methods)
                    c.update(flow="foreign-authmethod" + ("-after-challenge" if pre else ""), challenge_method=pre, welcome_authmethod=wm,
                             welcome_authextra=rng.choice(["none", "empty", "correct-or-zeros"]),
                             what="whose authmethod %r is none of the offered ones%s" % (wm, " (after a regular CHALLENGE/AUTHENTICATE round)" if pre else ""))
                    yield c
            # WELCOME without any authmethod (the router claims not to have authenticated anybody)
            if "anonymous" not in methods:
                for pre in (None, rng.choice(methods)):
                    c = basecase(methods)
                    c.update(flow="missing-authmethod" + ("-after-challenge" if pre else ""), challenge_method=pre, welcome_authmethod=None,
                             welcome_authextra=rng.choice(["none", "empty", "correct-or-zeros"]), what="without authmethod")
                    yield c
        # right method, wrong / missing server signature
        for methods in (["scram"], ["scram", "cryptosign"], ["scram", "anonymous"]):
            bits = sorted({0, 255} | {rng.randrange(256) for _ in range(6 if quick else 40)})
            shapes = [{"flip": b} for b in bits] + [{"forge": f} for f in ("prefix-31", "empty", "extended", "zeros")] + ["empty", "none"]
            for wx in shapes:
                c = basecase(methods)
                c.update(flow="bad-server-signature", challenge_method="scram", welcome_authmethod="scram", welcome_authextra=wx,
                         what="with authmethod scram and server signature %r" % (wx,))
                yield c
            for wx in ("correct-or-zeros", "empty", "none"):
                c = basecase(methods)
                c.update(flow="bad-server-signature", challenge_method=None, welcome_authmethod="scram", welcome_authextra=wx,
                         what="with authmethod scram without a preceding CHALLENGE (signature %s)" % wx)
                yield c

# ------------------------------------------------------------------------------------------------
RUNNERS = {"cra": run_cra, "totp": run_totp, "totp-secret": run_totp_secret, "scram": run_scram, "scram-rfc7677": run_scram_rfc7677,
           "scram-credential": run_scram_credential, "cryptosign": run_cryptosign, "cryptosign-concurrent": run_cryptosign_concurrent,
           "xor": run_xor, "cra-entry": run_cra_entry, "session-auth": run_session_auth}


def run_shard(params, R):
    fw = _setup_fw(own_loop=params["section"] != "session")     # session cases run on the virtual loop of their vf.world
    R.count("ref_vectors_checked", CR.selfcheck())
    R.note("framework_" + fw, True)
    for k in DECIDING:
        R.count(k, 0)
    sec, part, parts, tier, seed = params["section"], params["part"], params["parts"], params["tier"], params["seed"]
    rng = random.Random(seed * 1000003 + SECTIONS.index(sec) * 10007 + part * 101 + (17 if fw == "aio" else 0))
    if sec == "cra":
        cases = gen_cra_cases(rng, tier, part, parts)
        if part == parts - 1:
            cases = list(gen_cra_entry_cases(rng, tier)) + list(cases)
    elif sec == "session":
        cases = gen_session_cases(rng, tier)
    elif sec == "totp":
        cases = gen_totp_cases(rng, tier)
    elif sec == "scram-argon":
        cases = gen_scram_cases(rng, tier, "argon2id-13", part, parts)
    elif sec == "scram-pbkdf2":
        cases = [{"kind": "scram-rfc7677"}] + list(gen_scram_cases(rng, tier, "pbkdf2", part, parts))
    elif sec == "scram-credential":
        cases = [dict(v, kind="scram-credential") for v in SCRAM_CREDENTIAL_VECTORS]
        for _ in range(1 if tier == "quick" else 12):
            cases.append({"kind": "scram-credential", "email": gen_text(rng, "alnum", 3, 10) + "@example.com",
                          "password": gen_password(rng, rng.choice(["ascii", "nonascii", "long"])),
                          "salt": rng.choice([None, rng.randbytes(16).hex()])})
    elif sec == "cryptosign":
        cases = gen_cryptosign_cases(rng, tier, part, parts)
    else:
        raise ValueError(sec)
    for case in cases:
        RUNNERS[case["kind"]](case, R)
        R.sample({k: (v if not isinstance(v, str) or len(v) <= 96 else v[:96] + "...") for k, v in case.items()},
                 kind=case["kind"], every=7)


def replay(case, R):
    _setup_fw(own_loop=case.get("kind") != "session-auth")
    CR.selfcheck()
    RUNNERS[case["kind"]](case, R)


MANIFEST_ENTRY = {
    "text": ("Every value returned by the WAMP-CRA, TOTP, WAMP-SCRAM and WAMP-cryptosign entry points of autobahn.wamp.auth / "
             "cryptosign for generated secrets, salts, iteration counts {1,2,1000,4096}, key lengths {16,32,64}, challenges, "
             "instants (RFC 6238 instants, window edges), Argon2id/PBKDF2 parameters, Ed25519 seeds and channel ids is judged "
             "online by an independent reference/verifier (hashlib PBKDF2, hand-written HMAC/HOTP/TOTP/RFC 5802 algebra with "
             "server-side proof verification, Argon2 raw API cross-checked with libsodium, Ed25519 verification by "
             "cryptography), all pinned to RFC vectors in every shard; inside a case every single-bit alteration of the "
             "signature, of the SCRAM server signature handed to on_welcome (plus structural forgeries) and of "
             "challenge/key/salt/secret/channel-id inputs is replayed and must change the signature / be denied; SCRAM salts "
             "are also sent in non-canonical base64 spellings (line breaks, non-zero pad bits; AuthMessage over the text as sent, "
             "KDF over its octets) and altered in their unused bits; one cryptosign key object / authenticator signs 2..4 "
             "challenges in flight at once and every reply is verified against its own challenge. Runs under "
             "Twisted and asyncio. WAMP-CRA is signed through every public entry point (auth.AuthWampCra, create_authenticator, "
             "autobahn.twisted.wamp.AuthWampCra, Session.add_authenticator+onChallenge) x key lengths {16,20,32,33,48,64}; at session "
             "level a real Session with authenticators runs behind the real client transport against a scripted router (honest flows "
             "must join with a verified AUTHENTICATE; a WELCOME naming a method that was not offered, no method, or scram with a "
             "wrong/missing server signature must not make a SCRAM-offering session join). Held = no mismatch on the executions listed in the evidence; not a proof."),
    "note": ("trusts vf/crypto_ref.py and the third-party primitives it calls (hashlib, cryptography's Ed25519, argon2-cffi raw API, "
             "libsodium Argon2id); WAMP-SCRAM AuthMessage layout and the Argon2 encoded-tag-as-SaltedPassword convention are taken "
             "as the wire contract; passwords are generated SASLprep-stable; KDF-input bit alterations are capped per case when "
             "iterations >= 1000 (quick tier)"),
    "technique": "runtime monitoring: differential oracle (independent crypto references + standards-conforming verifier) over "
                 "generated inputs with exhaustive single-bit fault injection into signatures and inputs",
}
