"""C13 - WAMP transports attach a session only after valid negotiation and fail closed.

Monitor shape: history + executable reference.  The REAL transports (RawSocket and WebSocket, Twisted and
asyncio, server and client) run on the fake transports / virtual clock of vf.world with recording stub
sessions (ISession-like objects counting onOpen / onMessage / onClose); either both ends are the library
(vf.ws.Link owns segmentation) or one end is the harness speaking raw octets built from independent
references (RawSocket handshake/framing table from the WAMP spec, vf.rfc6455_ref, the plain json / msgpack /
cbor2 / bjdata codecs).  Scenarios and oracle: vf/c13_scen.py; references and stubs: vf/c13_engine.py.
"""

import itertools
import logging
import random

from vf import build_nvx

PROPERTY = "C13"
LEVEL = "exploration"
EXHAUSTIVE = False
RULE = ("RawSocket opening handshake: EVERY value of octets 1-2 (2^16) x {server, client} x {Twisted, asyncio} x every split of the "
        "4 octets into reads (8) plus the 4 octets glued to a first frame, with zero reserved octets; non-zero reserved-octet variants "
        "x all 2^16 (one rotating split each in quick, all splits in thorough); every non-empty subset of {json,msgpack,cbor,ubjson} "
        "as server configuration and every client serializer on the magic row and the supported columns.  WebSocket: every pair of "
        "ordered serializer lists (length <=2 quick, <=3 thorough) over 9 serializer ids, real client<->server handshakes, plus raw "
        "handshakes with junk/foreign subprotocol names.  After attachment: generated tagged message sequences both ways under 6 "
        "segmentation policies plus bursts (2..6 data_received() calls inside one read event before the asyncio loop runs, cut between "
        "frames / inside headers and payloads / both; delivery judged right after the last read event and again after the connection is "
        "gone) (library<->library and library<->raw octets), serialized lengths limit-1/limit/limit+1 for announced "
        "exponents 2^9..2^24, the send issued from three sites: from outside after the handshake, from INSIDE ISession.onOpen(transport) "
        "(like HELLO) and from INSIDE the first onMessage() (triggering frame glued to the peer's handshake octets or in its own read; "
        "handshake octets cut by 5 policies), against raw peers (exponents 9..20 + 24 quick, 9..24 thorough) and between two library "
        "endpoints with their own configured maxima (Twisted), corruption (frame type, opcode flip, garbage, truncation, non-list, unknown type, out-of-phase, session "
        "exceptions) at every position of a short conversation; mixed Twisted<->asyncio pairs (both role assignments) through a "
        "cross-process lockstep relay.  A case is non-trivial when its deciding monitor judged an outcome "
        "(handshake decided, negotiation compared, delivery compared, limit outcome judged, closure + onClose count judged); distinct = "
        "(framework, role, configuration, input, segmentation, seed).")
ASSUMPTIONS = [
    "fake transports / virtual clock of vf/world.py behave like the real reactor / selector transports (DESIGN 2.2); the transport "
    "classes used for the exhaustive handshake space are copies of vf.world's with the class defined once (vf/c13_engine.fast_attach)",
    "references: WAMP spec RawSocket section (magic 0x7F, length nibble, serializer ids 1-4, 24-bit length framing), RFC 6455 codec of "
    "vf/rfc6455_ref.py, plain json/msgpack/cbor2/bjdata codecs, WAMP batched-mode definition",
    "grey zones accepted both ways: non-zero reserved handshake octets (refuse or ignore); reserved bits in the frame-type octet with "
    "type bits 000 (refuse or treat as regular frame); RawSocket PING/PONG frames (closing the transport, or answering the PING with "
    "a PONG of the same payload / ignoring the PONG and carrying on); a RawSocket message of exactly 2^24 octets (not expressible in the 24-bit length "
    "field); how the transport is closed on RawSocket (abort or close both count as closed); frames that follow a rejected one in the "
    "same read.  NOT grey: a session whose onOpen(transport) was invoked counts as attached even when that onOpen raised (before or "
    "after storing the transport / sending on it): it must get onClose exactly once; only a session whose constructor raised gets none",
    "after attachment an exception that reaches the framework is recorded (counters 'escape:...') and handled like the reactor / "
    "selector transport does (connection torn down); only escapes during the opening handshake are violations, as the statement says",
    "WebSocket status codes: read from the close frame on the wire (failByDrop=False) and from the argument of _fail_connection "
    "(recording subclass; with the default failByDrop=True nothing is written before the TCP drop); a binary->text opcode flip whose "
    "payload is not UTF-8 may be failed by the WebSocket layer with 1007 before WAMP sees it",
    "asyncio RawSocket has no API to configure the announced maximum (always 2^24); Twisted's is configured through "
    "setProtocolOptions(maxMessagePayloadSize); the limit the oracle enforces is the one read from the endpoint's handshake octets",
    "mixed-framework pairs (Twisted client <-> asyncio server and vice versa; txaio is process-global) run as two processes: the shard's "
    "worker holds one endpoint, a child process (vf/c13_remote.py) the endpoint of the other framework, and the worker relays octets in "
    "lockstep (it owns segmentation and ordering); covered there: negotiation, message sequences both ways, refusal, clean close - "
    "limits and corruption are exercised per framework against the framework-independent wire references only",
    "flatbuffers takes part in the negotiation only (no message exchange)",
    "send sites: a stub session sends from inside onOpen()/onMessage() with try/except around each transport.send() (what careful session "
    "code does); the announced maximum is judged from the first callback the session gets, because the statement says 'never'.  Whether the "
    "transport survives a REFUSED (over-limit) send is not asserted; a transport that closes although everything sent was within the limit "
    "is.  WAMP-over-WebSocket announces no maximum in its handshake, so the send/receive limit clauses are RawSocket-only; sends from "
    "inside onOpen() over WebSocket are covered by the message-conservation scenarios (raw-stream 'outbound', pair-stream 'open_send')",
]
DECIDING = {
    "hs_decided": 100000, "hs_attached": 1000, "hs_refused": 50000, "partial_checked": 50000, "server_reply_checked": 500,
    "client_hello_checked": 1000, "ws_nego_common": 500, "ws_nego_nocommon": 500, "ws_frames_checked": 500,
    "stream_msgs_compared": 2000, "wire_frames_checked": 300, "limit_send_over": 40, "limit_send_within": 80,
    "limit_recv_within": 4, "limit_recv_over_rejected": 10, "corrupt_cases": 800, "corrupt_cases_closed_once": 700,
    "ws_status_checked": 300, "rs_close_checked": 200, "onclose_checked": 100000, "mixed_delivered_ok": 60, "mixed_refused": 4, "open_raise_onclose_checked": 100, "aio_bursts_delivered": 200,
    "limit_send_over_onopen": 60, "limit_send_within_onopen": 120, "limit_send_over_onmessage": 60, "limit_send_within_onmessage": 120,
}

BASE = ["json", "msgpack", "cbor", "ubjson"]
WS_IDS = ["json", "json.batched", "msgpack", "msgpack.batched", "cbor", "cbor.batched", "ubjson", "ubjson.batched", "flatbuffers"]
RESERVED_QUICK = [(0, 0), (0, 1), (1, 0), (0xFF, 0xFF), (0x80, 0)]
RESERVED_THOROUGH = RESERVED_QUICK + [(0, 0x80), (0x7F, 0x7F), (0, 0xFF), (0x10, 0x02)]
POLICIES = ["whole", "bytewise", "random", "halves", "small", "edges"]
# + bursts: 2..6 data_received() calls inside ONE read event before the loop runs (asyncio; allowed by the Protocol contract)
STREAM_POLICIES = POLICIES + ["burst", "burst"]


# ------------------------------------------------------------------------------------------------------------
def _private_nvx_env():
    """Environment for NVX-on workers.  vf.build_nvx prunes all but the 10 newest builds whenever ANY process builds a new
    one (self-test runs of other checks do that constantly), which can delete the /repo build under a running check; so the
    freshly built modules are copied to a directory of this check's own (never pruned by others, small)."""
    import os
    import shutil
    import time

    from vf import bootstrap
    dst = os.path.join(bootstrap.VERIF_ROOT, ".build", "c13-nvx-ship-%s" % build_nvx.source_digest("ship"))
    for attempt in range(6):
        try:
            if not os.path.exists(os.path.join(dst, "BUILD_OK")):
                # (concurrent builders of the same shared directory can trip over each other: retry)
                src = build_nvx.build("ship")
                tmp = "%s.tmp%d" % (dst, os.getpid())
                shutil.rmtree(tmp, ignore_errors=True)
                shutil.copytree(src, tmp)
                if not os.path.exists(os.path.join(tmp, "BUILD_OK")):
                    raise OSError("source build vanished while copying")
                shutil.rmtree(dst, ignore_errors=True)
                os.replace(tmp, dst)
            os.utime(dst)
            break
        except (OSError, RuntimeError):
            time.sleep(1.0 + attempt)
    else:
        raise RuntimeError("could not stage the NVX build")
    parent = os.path.dirname(dst)
    # staged copies are small; drop only those no run can still be using (by age, never by count)
    for n in os.listdir(parent):
        q = os.path.join(parent, n)
        try:
            if n.startswith("c13-nvx-ship-") and q != dst and time.time() - os.path.getmtime(q) > 6 * 3600:
                shutil.rmtree(q, ignore_errors=True)
        except OSError:
            pass
    return {"VERIF_NVX_DIR": dst, "AUTOBAHN_USE_NVX": "1"}


def prepare(tier):
    try:
        _private_nvx_env()
    except Exception as e:
        print("CANNOT-BUILD: %s" % e)
        return False
    return True


def shards(tier, seed):
    out = []
    env_nvx = _private_nvx_env()
    thorough = tier == "thorough"
    hs_parts = 8 if thorough else 4
    nego_parts = 24 if thorough else 2
    for fw in ("tx", "aio"):
        def add(name, params, env=env_nvx):
            p = {"tier": tier, "seed": seed, "nvx": 1 if env is env_nvx else 0}
            p.update(params)
            # generous: a loaded machine must never turn into a verdict (a timeout is INCONCLUSIVE anyway)
            out.append({"name": "%s-%s" % (fw, name), "fw": fw, "env": env, "timeout": 14400, "params": p})
        for role in ("server", "client"):
            for i in range(hs_parts):
                add("hs-%s-%d" % (role, i), {"what": "hs", "role": role, "part": i, "parts": hs_parts})
        for i in range(nego_parts):
            add("nego-%d" % i, {"what": "nego", "part": i, "parts": nego_parts})
        add("streams", {"what": "streams"})
        add("mixed", {"what": "mixed"})
        add("corrupt", {"what": "corrupt"})
        add("limits", {"what": "limits", "part": 0, "parts": 1 if not thorough else 4})
        for i in range(2 if thorough else 1):
            add("sites-%d" % i, {"what": "sites", "part": i, "parts": 2 if thorough else 1})
        if thorough:
            for i in range(1, 4):
                add("limits-%d" % i, {"what": "limits", "part": i, "parts": 4})
            pure = {"AUTOBAHN_USE_NVX": "0"}
            add("pure-nego", {"what": "nego", "part": 0, "parts": 40}, env=pure)
            add("pure-streams", {"what": "streams"}, env=pure)
            add("pure-corrupt", {"what": "corrupt"}, env=pure)
    return out


# ------------------------------------------------------------------------------------------------------------
# case generation (deterministic in (tier, seed, framework))
# ------------------------------------------------------------------------------------------------------------

def ordered_lists(ids, maxlen):
    out = []
    for n in range(1, maxlen + 1):
        out += [list(p) for p in itertools.permutations(ids, n)]
    return out


def gen_nego(tier, seed, part, parts):
    lists = ordered_lists(WS_IDS, 3 if tier == "thorough" else 2)
    k = 0
    for ci, cl in enumerate(lists):
        for si, sl in enumerate(lists):
            k += 1
            if k % parts != part:
                continue
            yield {"kind": "ws-nego", "client": cl, "server": sl, "seed": seed * 7919 + k, "policy": POLICIES[(k + seed) % len(POLICIES)]}


def gen_nego_raw(tier, seed, fw):
    from vf import c13_scen as S
    rng = random.Random("nego-raw/%s/%d" % (fw, seed))
    n = 150 if tier == "quick" else 1500
    for i in range(n):
        sers = rng.sample(WS_IDS, rng.randint(1, 3))
        pol = rng.choice(POLICIES)
        if i % 2 == 0:
            offer = rng.sample(S.JUNK_PROTOCOLS, rng.randint(1, 4))
            if rng.random() < 0.5:
                good = ["wamp.2." + x for x in rng.sample(WS_IDS, rng.randint(1, 2))]
                for g in good:
                    offer.insert(rng.randint(0, len(offer)), g)
            yield {"kind": "ws-nego-raw", "role": "server", "sers": sers, "offer": offer, "seed": seed * 31 + i, "policy": pol}
        else:
            r = rng.random()
            if r < 0.35:
                answer = "wamp.2." + rng.choice(sers)
            elif r < 0.6:
                answer = "wamp.2." + rng.choice(WS_IDS)
            elif r < 0.9:
                answer = rng.choice(S.JUNK_PROTOCOLS)
            else:
                answer = None
            yield {"kind": "ws-nego-raw", "role": "client", "sers": sers, "answer": answer, "seed": seed * 31 + i, "policy": pol}


def gen_streams(tier, seed, fw):
    from vf import c13_scen as S
    rng = random.Random("streams/%s/%d" % (fw, seed))
    reps = 2 if tier == "quick" else 10
    sers = BASE + ["json.batched", "cbor.batched", "msgpack.batched", "ubjson.batched"]
    for rep in range(reps):
        for tr in ("rs", "ws"):
            for ser in sers:
                for pol in STREAM_POLICIES:
                    big = 70000 if rng.random() < 0.25 else 0
                    ssers = [ser] if "." in ser else rng.choice([BASE, [ser], rng.sample(BASE, 2) + [ser]])
                    n1, n2 = rng.randint(1, 8), rng.randint(0, 8)
                    yield {"kind": "pair-stream", "tr": tr, "cser": [ser], "ssers": list(dict.fromkeys(ssers)),
                           "c2s": S.gen_specs(rng, n1, "c", big), "s2c": S.gen_specs(rng, n2, "s", big), "policy": pol,
                           "seed": rng.randint(0, 10 ** 6), "open_send": rng.choice([0, 0, 1, n1]),
                           "smax": rng.choice([None, 2 ** 20]) if fw == "tx" and tr == "rs" else None,
                           "cmax": rng.choice([None, 2 ** 19]) if fw == "tx" and tr == "rs" else None}
                    for role in ("server", "client"):
                        yield {"kind": "raw-stream", "tr": tr, "role": role, "ser": ser, "inbound": S.gen_specs(rng, rng.randint(1, 7), "i", big),
                               "outbound": S.gen_specs(rng, rng.randint(0, 5), "o"), "policy": pol, "seed": rng.randint(0, 10 ** 6),
                               "fragment": rng.choice([0, 1]), "burst_mode": rng.choice(["boundaries", "inside", "mixed"]),
                               "burst_glue_handshake": rng.random() < 0.5}


def gen_limits(tier, seed, fw, part, parts):
    rng = random.Random("limits/%s/%d" % (fw, seed))
    cases = []
    rot = BASE[seed % 4]
    mk = ["publish", "event", "call", "result", "yield", "error", "invocation"]
    if tier == "quick":
        exps_all = [9, 12, 16, 20]
        exps_rot = list(range(9, 21))
        exps_big = []
    else:
        exps_all = list(range(9, 25))
        exps_rot = []
        exps_big = []
    for role in ("server", "client"):
        for exp in sorted(set(exps_all + exps_rot)):
            for ser in (BASE if exp in exps_all else [rot]):
                for d in (-1, 0, 1):
                    cases.append({"kind": "rs-limit-send", "role": role, "ser": ser, "exp": exp, "delta": d, "mkind": rng.choice(mk),
                                  "max_size": rng.choice([None, 512, 2 ** 16]) if fw == "tx" else None})
    if tier == "quick":
        # the top exponent once per run (16 MiB messages)
        cases.append({"kind": "rs-limit-send", "role": ("server", "client")[seed % 2], "ser": rot, "exp": 24, "delta": 1, "mkind": "publish"})
        cases.append({"kind": "rs-limit-send", "role": ("client", "server")[seed % 2], "ser": BASE[(seed + 1) % 4], "exp": 24, "delta": -1, "mkind": "publish"})
    # receive side: Twisted announces what setProtocolOptions says; asyncio always 2^24
    if fw == "tx":
        sizes = [512, 1000, 4096, 2 ** 16, 100000, 2 ** 20] if tier == "quick" else \
            [512, 513, 1000, 1024, 2 ** 11, 2 ** 12, 5000, 2 ** 13, 2 ** 14, 2 ** 15, 2 ** 16, 100000, 2 ** 17, 2 ** 18, 2 ** 19, 2 ** 20,
             2 ** 21, 2 ** 22, 2 ** 23, 2 ** 24 - 1]
        for role in ("server", "client"):
            for ms in sizes:
                for ser in (BASE if (tier == "thorough" or ms <= 2 ** 16) else [rot]):
                    for d in (-1, 0, 1):
                        cases.append({"kind": "rs-limit-recv", "role": role, "ser": ser, "max_size": ms, "delta": d,
                                      "mkind": rng.choice(mk), "seed": rng.randint(0, 999), "policy": rng.choice(["edges", "halves", "whole", "random"])})
        pairs = [(512, 2048), (4096, 512), (2 ** 16, 1000), (None, 2 ** 12)] if tier == "quick" else \
            [(512, 2048), (4096, 512), (2 ** 16, 1000), (None, 2 ** 12), (2 ** 20, 2 ** 18), (2 ** 10, 2 ** 10), (2 ** 22, None), (777, 99999)]
        for smax, cmax in pairs:
            for ser in BASE:
                cases.append({"kind": "rs-limit-pair", "ser": ser, "smax": smax, "cmax": cmax, "deltas": [-1, 0, 1], "seed": rng.randint(0, 999),
                              "policy": rng.choice(POLICIES)})
    sers24 = [rot] if tier == "quick" else BASE
    for i, ser in enumerate(sers24):
        for role in (("server", "client") if tier == "thorough" else (("server", "client")[(seed + i) % 2],)):
            cases.append({"kind": "rs-limit-recv", "role": role, "ser": ser, "max_size": None, "delta": -1, "mkind": "publish",
                          "seed": seed, "policy": "halves"})
    if tier == "thorough":
        cases.append({"kind": "rs-limit-pair", "ser": rot, "smax": None, "cmax": None, "deltas": [-1], "seed": seed, "policy": "whole"})
    # big cases first spread over the parts
    cases.sort(key=lambda c: -(c.get("exp") or (c.get("max_size") or 2 ** 24).bit_length()))
    return [c for i, c in enumerate(cases) if i % parts == part]


def gen_limit_sites(tier, seed, fw, part, parts):
    """The send-side limit by WHERE the session issues the send: from inside onOpen(transport) (like HELLO) and from inside the first
    onMessage() (triggering frame glued to the peer's handshake octets or in its own read), lengths limit-1/limit/limit+1."""
    rng = random.Random("limit-sites/%s/%d" % (fw, seed))
    cases = []
    rot = BASE[(seed + 1) % 4]
    mk = ["publish", "event", "call", "result", "yield", "error", "invocation"]
    hs_pol = ["whole", "bytewise", "halves", "random", "small"]
    thorough = tier == "thorough"
    exps_all = [9, 10, 12, 16] if not thorough else list(range(9, 21))
    exps_rot = list(range(9, 21)) if not thorough else list(range(21, 25))
    k = seed
    for role in ("server", "client"):
        for site in ("open", "message"):
            for exp in sorted(set(exps_all + exps_rot)):
                for ser in (BASE if exp in exps_all else [rot]):
                    for d in (-1, 0, 1):
                        for rep in range(2 if (thorough and exp <= 16) else 1):
                            k += 1
                            cases.append({"kind": "rs-limit-send", "site": site, "role": role, "ser": ser, "exp": exp, "delta": d,
                                          "mkind": rng.choice(mk), "policy": hs_pol[k % len(hs_pol)], "glue": bool((k // len(hs_pol) + rep) % 2),
                                          "seed": rng.randint(0, 10 ** 6),
                                          "max_size": rng.choice([None, 512, 2 ** 16]) if fw == "tx" else None})
    if not thorough:
        # the top exponent once per run and site (16 MiB messages)
        cases.append({"kind": "rs-limit-send", "site": "open", "role": ("client", "server")[seed % 2], "ser": rot, "exp": 24, "delta": 1,
                      "mkind": "publish", "policy": "halves", "glue": True, "seed": seed})
        cases.append({"kind": "rs-limit-send", "site": "message", "role": ("server", "client")[seed % 2], "ser": BASE[(seed + 2) % 4], "exp": 24,
                      "delta": 1, "mkind": "publish", "policy": "whole", "glue": bool(seed % 2), "seed": seed})
    if fw == "tx":
        # both ends the library, each with its own configured maximum (asyncio cannot configure one)
        pairs = [(512, 2048), (4096, 512), (2 ** 16, 1000), (None, 2 ** 12)] if not thorough else \
            [(512, 2048), (4096, 512), (2 ** 16, 1000), (None, 2 ** 12), (2 ** 20, 2 ** 18), (2 ** 10, 2 ** 10), (2 ** 22, None), (777, 99999)]
        for smax, cmax in pairs:
            for ser in BASE:
                cases.append({"kind": "rs-limit-pair-open", "ser": ser, "smax": smax, "cmax": cmax, "deltas": [-1, 0, 1], "seed": rng.randint(0, 999),
                              "policy": rng.choice(POLICIES)})
    cases.sort(key=lambda c: -(c.get("exp") or 0))
    return [c for i, c in enumerate(cases) if i % parts == part]


def gen_corrupt(tier, seed, fw):
    from vf import c13_scen as S
    rng = random.Random("corrupt/%s/%d" % (fw, seed))
    n = 3 if tier == "quick" else 5
    sers = BASE + (["json.batched", "msgpack.batched"] if tier == "thorough" else [])
    for tr, kinds in (("rs", S.RS_CORRUPTIONS), ("ws", S.WS_CORRUPTIONS)):
        for role in ("server", "client"):
            for ck in kinds:
                if ck == "out-of-phase":
                    if role == "server":
                        continue
                    positions = [0, 1]
                elif ck.startswith("open-raises") or ck == "ctor-raises":
                    positions = [0]
                elif ck.startswith("sess-"):
                    positions = list(range(n))
                else:
                    positions = list(range(n + 1))
                for pos in positions:
                    for ser in sers:
                        if ck == "empty" and "." in ser:
                            continue      # an empty batch carries zero messages: not a corruption
                        for fbd in ((True, False) if tr == "ws" else (True,)):
                            yield {"kind": "corrupt", "tr": tr, "role": role, "ser": ser, "ckind": ck, "pos": pos, "n": n,
                                   "policy": rng.choice(POLICIES), "seed": rng.randint(0, 10 ** 6), "fail_by_drop": fbd,
                                   "peer_replies": rng.random() < 0.6,
                                   "max_size": rng.choice([None, 2 ** 12]) if (fw == "tx" and tr == "rs") else None}
        for victim in ("server", "client"):
            for ck in ("sess-runtime", "sess-protocol", "open-raises", "open-raises-early", "open-raises-sent"):
                for pos in ([0] if ck.startswith("open-raises") else range(n)):
                    for ser in BASE:
                        yield {"kind": "pair-boom", "tr": tr, "ser": ser, "ckind": ck, "pos": pos, "n": n, "victim": victim,
                               "policy": rng.choice(POLICIES), "seed": rng.randint(0, 10 ** 6), "fail_by_drop": rng.random() < 0.5}


def gen_mixed(tier, seed, fw):
    """This framework's endpoint <-> the other framework's endpoint (child process), both role assignments."""
    from vf import c13_scen as S
    rng = random.Random("mixed/%s/%d" % (fw, seed))
    reps = 1 if tier == "quick" else 4
    for rep in range(reps):
        for tr in ("rs", "ws"):
            sers = BASE + (["json.batched", "msgpack.batched"] if tr == "ws" else [])
            for ser in sers:
                for lr in ("client", "server"):
                    for pol in POLICIES + ["burst"]:
                        cser = [ser] if tr == "rs" or rng.random() < 0.5 else rng.sample([x for x in WS_IDS if x != "flatbuffers"], 2) + [ser]
                        ssers = [ser] if "." in ser else rng.choice([BASE, [ser], [ser] + rng.sample(BASE, 1)])
                        yield {"kind": "mixed", "tr": tr, "local_role": lr, "cser": list(dict.fromkeys(cser)), "ssers": list(dict.fromkeys(ssers)),
                               "local_send": S.gen_specs(rng, rng.randint(1, 4), "l"), "remote_send": S.gen_specs(rng, rng.randint(0, 4), "r"),
                               "policy": pol, "seed": rng.randint(0, 10 ** 6)}
            for lr in ("client", "server"):
                for _ in range(3 if tier == "quick" else 12):
                    a, b = rng.sample(BASE, 2)
                    yield {"kind": "mixed", "tr": tr, "local_role": lr, "cser": [a], "ssers": [b] + ([x for x in BASE if x not in (a, b)][:rng.randint(0, 2)]),
                           "local_send": [], "remote_send": [], "policy": rng.choice(POLICIES), "seed": rng.randint(0, 10 ** 6)}


# ------------------------------------------------------------------------------------------------------------
# the exhaustive RawSocket handshake space
# ------------------------------------------------------------------------------------------------------------

def _trailer(ser_rs_id):
    """A first frame glued to the handshake: SUBSCRIBED [33, 1, 2] in the serializer the handshake names."""
    from vf import c13_engine as E
    name = E.RS_NAMES.get(ser_rs_id, "json")
    return E.rs_frame(E.plain_codec(name)[0]([33, 1, 2]))


def run_hs(params, R, run):
    from vf import c13_engine as E, c13_scen as S
    role, part, parts, tier, seed = params["role"], params["part"], params["parts"], params["tier"], params["seed"]
    thorough = tier == "thorough"
    fw = run.fw
    comps = E.compositions4()
    variants = RESERVED_THOROUGH if thorough else RESERVED_QUICK
    trailers = {i: _trailer(i) for i in range(16)}
    main_cfg = BASE if role == "server" else [BASE[seed % 4]]
    drv = S.HsDriver(run, role, main_cfg, max_size=(2 ** 16 if (fw == "tx" and seed % 2) else None))
    n = 0
    tag = ("s" if role == "server" else "c") + fw[0]

    def one(d, octets, vi, all_splits, k):
        nonlocal n
        splits = comps if all_splits else [comps[k % 8]]
        for parts_ in splits:
            cls, outcome = d.evaluate(octets, parts_)
            n += 1
        if all_splits:
            # the 4 octets and a first frame in ONE read
            tr_ = trailers[octets[1] & 0x0F]
            cls, outcome = d.evaluate(octets + tr_, [4 + len(tr_)])
            n += 1
            if outcome == "attached":
                R.count("hs_glued_frame_checked")
                if d.last_msgs != 1:
                    R.violation("C13/rs/%s/%s/handshake/%s/glued-frame-lost" % (fw, role, cls),
                                "a frame in the same read as the 4th handshake octet was not delivered exactly once (%d deliveries)" % d.last_msgs,
                                {"octets": (octets + tr_).hex()}, d.case(octets + tr_, [4 + len(tr_)]))
        R.seen("nontrivial", "h%s%s/%s" % (tag, octets.hex(), "".join(x[0] for x in d.sers)) if d is not drv else "h%s%s" % (tag, octets.hex()))
        R.seen("hs_outcomes", "%s/%s/%s" % (role, cls, outcome))

    lo, hi = 256 * part // parts, 256 * (part + 1) // parts
    for b0 in range(lo, hi):
        for b1 in range(256):
            k = b0 * 256 + b1 + seed
            for vi, (r2, r3) in enumerate(variants):
                one(drv, bytes([b0, b1, r2, r3]), vi, vi == 0 or thorough, k + vi)
    drv.flush()
    R.count("hs_decided", n)
    R.count("evaluations", n)
    n = 0
    if thorough:
        # the whole 2^16 space under every split again for the other client serializers / a proper subset as server configuration
        extra = [[x] for x in BASE if x != main_cfg[0]] if role == "client" else [random.Random(seed).sample(BASE, 2)]
        for cfg in extra:
            d = S.HsDriver(run, role, cfg)
            for b0 in range(lo, hi):
                for b1 in range(256):
                    one(d, bytes([b0, b1, 0, 0]), 0, True, b0 * 256 + b1 + seed)
            d.flush()
            R.seen("hs_configs_full_space", "%s/%s" % (role, "+".join(cfg)))
        R.count("hs_decided", n)
        R.count("evaluations", n)
        n = 0
    # other configurations: magic row (all b1) and the supported columns (all b0), every split
    if role == "server":
        cfgs = [list(c) for r in range(1, 5) for c in itertools.combinations(BASE, r)]
    else:
        cfgs = [[s] for s in BASE]
    mine = [c for i, c in enumerate(cfgs) if i % parts == part]
    for cfg in mine:
        d = S.HsDriver(run, role, cfg)
        for b1 in range(256):
            one(d, bytes([0x7F, b1, 0, 0]), 0, True, b1)
        for b1 in [((e << 4) | E.RS_IDS[s]) for s in cfg for e in (0, 7, 15)]:
            for b0 in range(256):
                one(d, bytes([b0, b1, 0, 0]), 0, thorough, b0 + seed)
        d.flush()
        R.seen("hs_configs", "%s/%s" % (role, "+".join(cfg)))
    R.count("hs_decided", n)
    R.count("evaluations", n)
    R.sample({"role": role, "framework": fw, "configured": main_cfg, "octets_1_2": "all 256 x 256 of part %d/%d" % (part, parts),
              "reserved_variants": [list(v) for v in variants], "splits": comps}, kind="rs-handshake-space")


# ------------------------------------------------------------------------------------------------------------
def run_shard(params, R):
    logging.disable(logging.CRITICAL)
    import txaio
    from vf import rfc6455_ref as ref
    from vf import c13_scen as S

    ref.selfcheck()
    fw = "tx" if txaio.using_twisted else "aio"
    if params.get("nvx", 1):
        build_nvx.assert_fresh()
    import autobahn.websocket as W
    R.note("uses_nvx", bool(W.USES_NVX))
    if bool(W.USES_NVX) != bool(params.get("nvx", 1)):
        raise RuntimeError("NVX selection mismatch: wanted %s, USES_NVX=%s" % (params.get("nvx", 1), W.USES_NVX))
    for k in DECIDING:
        R.count(k, 0)
    run = S.Run(R, fw)
    tier, seed, what = params["tier"], params["seed"], params["what"]
    if what == "hs":
        run_hs(params, R, run)
        run.done()
        return
    if what == "nego":
        gens = [gen_nego(tier, seed, params["part"], params["parts"])]
        if params["part"] == 0:
            gens.append(gen_nego_raw(tier, seed, fw))
    elif what == "streams":
        gens = [gen_streams(tier, seed, fw)]
    elif what == "limits":
        gens = [gen_limits(tier, seed, fw, params["part"], params["parts"])]
    elif what == "sites":
        gens = [gen_limit_sites(tier, seed, fw, params["part"], params["parts"])]
    elif what == "corrupt":
        gens = [gen_corrupt(tier, seed, fw)]
    elif what == "mixed":
        gens = [gen_mixed(tier, seed, fw)]
    else:
        raise ValueError(what)
    for g in gens:
        for case in g:
            S.run_case(run, case)
            R.sample(_brief(case), kind=case["kind"], every=211)
    run.done()


def _brief(case):
    c = dict(case)
    for k in ("c2s", "s2c", "inbound", "outbound"):
        if k in c:
            c[k] = ["%s#%s(%d)" % (s["k"], s["tag"], len(s.get("fill", ""))) for s in c[k]]
    return c


def replay(case, R):
    logging.disable(logging.CRITICAL)
    import txaio
    from vf import c13_scen as S

    fw = "tx" if txaio.using_twisted else "aio"
    run = S.Run(R, fw)
    S.run_case(run, case)
    run.done()


MANIFEST_ENTRY = {
    "text": ("The real WAMP transports (RawSocket and WebSocket; Twisted and asyncio; server and client) run on fake transports with "
             "recording stub sessions, both ends being the library or one end being raw octets from independent references. Observed: "
             "session attached iff the RawSocket handshake has magic 0x7F and a configured serializer id, for all 2^16 values of octets "
             "1-2 (plus reserved-octet variants) under every split of the 4 octets, no exception reaching the framework during a "
             "handshake; WebSocket subprotocol = first of the client's list the server supports for all pairs of ordered serializer lists "
             "(<=2, thorough <=3), same serializer and text/binary framing on the wire at both ends, no session without a common "
             "wamp.2.*; tagged message sequences delivered intact and in order under 6 segmentation policies and under bursts of several data_received() calls per read event; for announced maxima "
             "2^9..2^24 nothing longer than the peer's maximum is written (sender gets an error) - whether the session sends after the "
             "handshake, from inside onOpen() or from inside its first onMessage() - and an over-limit incoming frame is "
             "rejected at its header; every injected corruption (frame type, opcode flip, garbage/truncated/non-list payload, unknown "
             "message type, out-of-phase message, session exception) ends with the transport closed (WebSocket 1002/1011) and "
             "onClose exactly once. Held = no deviation on the executions listed in the evidence; not a proof."),
    "note": ("trusts vf/world.py fake transports, vf/rfc6455_ref.py, the plain json/msgpack/cbor2/bjdata codecs and the hand-written "
             "RawSocket table; mixed Twisted<->asyncio pairs run across two processes in lockstep for negotiation, message sequences and "
             "close only (limits/corruption per framework against the wire references); asyncio RawSocket cannot configure "
             "its announced maximum (always 2^24); exceptions reaching the framework after attachment are recorded, not violations"),
    "technique": ("runtime monitoring: recorded session/transport histories of the real transports judged by independent handshake, "
                  "framing and codec references; exhaustive RawSocket handshake space, exhaustive subprotocol list pairs, boundary "
                  "lengths, fault injection at every position, cross-process lockstep relay for mixed-framework pairs"),
}
