"""C01 - WebSocket messages arrive intact, exactly once and in order; every octet the sender
writes forms a well-formed RFC 6455 frame sequence.

Monitor shape: history + executable reference.  The library's own client talks to the library's
own server (both frameworks, one per worker process) through a byte pipe whose segmentation and
interleaving the harness owns.  Every payload carries a unique tag, so the verdict is a plain
comparison of ordered (tag, type, sha256, len) lists:

  application send log  ==  sender's wire (parsed, unmasked, defragmented, inflated by an
                            independent RFC 6455 / RFC 7692 reference)
                        ==  receiver's onMessage log  (== 'message' listener log)

plus the frame-level well-formedness rules of RFC 6455 section 5 on everything written after the
opening handshake, plus: no exception reaches the framework, both connections still OPEN.
Sender-side and receiver-side faults are reported under different keys (``.../sender/...`` vs the
delivery clauses), so an encoder fault is never blamed on the decoder.
"""

import random
import zlib
from collections import deque

from vf import build_nvx
from vf import c01_wire as cw
from vf import rfc6455_ref as ref
from vf.runner import h

PROPERTY = "C01"
LEVEL = "exploration"
EXHAUSTIVE = False
CRASH_IS_VIOLATION = False
RULE = ("library client <-> library server (Twisted and asyncio adapters, NVX and pure-Python masker/validator), "
        "1-40 tagged messages per connection in both directions; lengths on the 0/125/126/65535/65536/2^17 "
        "length-encoding borders and random; per message one of: sendMessage (plain, fragmentSize in "
        "{1,2,3,125,126,n-1,n,n+1,..}, sync, doNotCompress), autoFragmentSize, streaming API with arbitrary "
        "chunking (incl. over-long and empty chunks, zero-length frames), frame API, prepared messages, sendFrame "
        "with write chopping / payload_len repetition; options: mask flags of both roles, applyMask, "
        "utf8validateIncoming, permessage-deflate (default / no context takeover / reduced windows / mem levels); "
        "byte streams cut whole / bytewise / 1-4 octets / random / at every frame border +-1 / as bursts of 2-6 chunks "
        "queued in front of the asyncio adapter's consumer, the two directions "
        "and the 10us queued-write timers interleaved by a seeded scheduler; first frames glued to the opening "
        "handshake (both directions); every single cut position (thorough: every pair) of short streams. "
        "A case is non-trivial when at least one message was compared on the wire AND at the receiver; distinct = "
        "hash of (kind, options, per-message API/length-class plan, segmentation policies, cut). Violation keys = "
        "direction / clause / API + the features that select the code path (pmce, applyoff, xmask, zero-frames).")
ASSUMPTIONS = [
    "reference = vf/rfc6455_ref.py (frame grammar, sender rules) + zlib raw inflate per RFC 7692 7.2.2 with the window / context-takeover parameters read from the server's 101 response; the fast parser in vf/c01_wire.py is cross-checked against it at worker start",
    "only option combinations the library documents as interoperable are paired (a masked-frames-requiring server is never paired with a non-masking client, applyMask is switched on both ends together)",
    "documented option semantics are modelled, not flagged: the mask bit is judged against maskClientFrames / maskServerFrames; with applyMask=False the payload is compared as written (mask key present, octets not XORed); prepared messages are judged by role because PreparedMessage documents role-based masking",
    "sendFrame() is driven only with what a conforming caller passes (message opcode on the first frame, 0 on the others, FIN on the last, no RSV bits, optional payload_len repetition, chopsize, sync and - in a few cases - an explicit 4-octet mask key); it is the only route to write chopping",
    "streaming API grey zones that are NOT asserted: (a) a zero-length frame is completed the way sendMessageFrame(b'') does it, by an empty sendMessageFrameData() - beginMessageFrame(0) immediately followed by another beginMessageFrame() raises 'invalid in current sending state', the docstring only says the frame ends 'when enough data has been sent'; (b) the sign of sendMessageFrameData's return value for an over-long chunk (docstring: 'amount of unconsumed data', code: negative) - both accepted; (c) control frames the APPLICATION itself sends (sendPing / sendPong / sendClose) while it is inside a half-streamed frame are API misuse and not generated - control frames the LIBRARY sends on its own there (automatic pong for a peer ping, autoPingInterval tick) are generated and judged (S-01e)",
    "whether a message is compressed at all is the sender's choice (RFC 7692): only 'RSV1 => inflates to what was sent' and 'RSV1 only with a negotiated extension' are asserted",
    "the early-data sub-scenario (frames in the same segment as the client's opening request) drives the server-side hand-over with a reference-built client stream; a conforming client never does this, the library documents 'process rest, if any'",
    "segmentation policy 'tlsburst' (and the 'burst' variant of every cut position on asyncio): k = 2..6 chunks reach the asyncio adapter by back-to-back data_received() calls inside ONE read event, the loop runs only afterwards (vf.world.AioEndpoint.feed_burst). The asyncio.Protocol contract permits that (a transport may hand over one chunk per decrypted record / buffer; the adapter's receive queue exists for it) although CPython >= 3.11's own selector and ssl transports make one call per read event; on Twisted, where dataReceived() is synchronous, the same chunks are k ordinary read events",
    "per direction only the EARLIEST sender problem is reported (everything after a broken frame is misread); after a sender-side fault the peer's reaction to the malformed stream is not judged here (C02's subject) and a stream that merely STOPS (trailing octets, unfinished / missing message) on a connection the peer has failed is a consequence, not a second finding",
    "the four API/option mixes of the former findings S-01a..d (streaming API under PMCE, prepared messages with applyMask=False, sendFrame with an explicit mask key, beginMessage/endMessage without a frame) are drawn at their natural share of the API mix in every shard and judged like everything else",
]
DECIDING = {
    "messages_compared": 500, "wire_messages_compared": 500, "frames_parsed": 1000,
    "fw_tx": 1, "fw_aio": 1, "sender_client": 1, "sender_server": 1, "nvx_workers": 1, "pure_workers": 1,
    "wire_len7": 1, "wire_len16": 1, "wire_len64": 1,
    "fragmented_messages": 1, "pmce_messages": 1, "queued_writes_fired": 1,
    "api_msg": 1, "api_msg-frag": 1, "api_msg-sync": 1, "api_msg-dnc": 1, "api_autofrag": 1, "api_stream": 1,
    "api_frames": 1, "api_prepared": 1, "api_sendframe": 1, "stream_returns_checked": 1,
    "glue_cases": 1, "cut_positions": 1, "early_data_cases": 1, "pings_compared": 1,
    "mix_stream_under_pmce": 50, "mix_prepared_applymask_off": 20, "mix_sendframe_explicit_mask": 50,
    "mix_begin_end_without_frame": 20, "aio_bursts_delivered": 200,
    "asym_takeover_conns_2plus_msgs_each_way": 100, "asym_takeover_c1_s0": 30, "asym_takeover_c0_s1": 30,
    "echo_payloads": 500, "deliveries_while_peer_inside_streamed_frame": 100, "pongs_compared_on_wire": 100,
    "octets_injected_into_streamed_frame": 0,
}

BORDER_LENGTHS = [0, 1, 2, 3, 124, 125, 126, 127, 128, 129, 65534, 65535, 65536, 65537, 131071, 131072, 131073]
THOROUGH_LENGTHS = [(1 << 20) - 1, (1 << 20) + 1, (1 << 22)]
APIS = ["msg", "msg-frag", "msg-sync", "msg-dnc", "stream", "frames", "prepared", "sendframe"]
COMPRESSING_APIS = ("msg", "msg-frag", "msg-sync", "autofrag", "stream", "frames", "prepared")
MASK_VARIANTS = {
    #             maskClient requireMasked maskServer acceptMasked applyMask
    "std":        (True, True, False, False, True),
    "lenient":    (True, False, False, True, True),
    "srvmask":    (True, True, True, True, True),
    "cliunmask":  (False, False, False, False, True),
    "bothflip":   (False, False, True, True, True),
    "applyoff":   (True, True, False, False, False),
    "applyoff-srvmask": (True, True, True, True, False),
}
SEG_POLICIES = ["whole", "bytewise", "small", "random", "edges", "bursty", "tlsburst"]


# ================================================================================================
# shards
# ================================================================================================

def _private_nvx_dir():
    """vf.build_nvx keeps only the 10 most recent ``nvx-ship-*`` build directories; while many self-test runs of
    other checks build concurrently, the (old) build of /repo is evicted under running workers, which then
    CANNOT-RUN.  This check therefore works from a private copy keyed by the CONTENT of the NVX sources
    (scratch copies with untouched C sources share it), which that clean-up does not match."""
    import hashlib
    import os
    import shutil
    from vf import bootstrap

    hh = hashlib.sha256()
    d = os.path.join(bootstrap.REPO_SRC, "autobahn", "nvx")
    for n in ("_utf8validator.c", "_utf8validator.py", "_xormasker.c", "_xormasker.py", "_compile_args.py"):
        with open(os.path.join(d, n), "rb") as f:
            hh.update(f.read())
    priv = os.path.join(bootstrap.VERIF_ROOT, ".build", "c01-nvx-ship-%s" % hh.hexdigest()[:16])
    if os.path.exists(os.path.join(priv, "BUILD_OK")):
        return priv
    last = None
    for _ in range(5):
        src = build_nvx.build("ship")
        tmp = "%s.tmp%d" % (priv, os.getpid())
        shutil.rmtree(tmp, ignore_errors=True)
        try:
            shutil.copytree(src, tmp)
            if not os.path.exists(os.path.join(tmp, "BUILD_OK")):
                raise OSError("build directory vanished while copying")
            try:
                os.rename(tmp, priv)
            except OSError:
                if not os.path.exists(os.path.join(priv, "BUILD_OK")):
                    raise
            return priv
        except OSError as e:        # evicted between build() and the copy: build again
            last = e
        finally:
            shutil.rmtree(tmp, ignore_errors=True)
    raise RuntimeError("cannot obtain a private NVX build: %r" % last)


def _nvx_env():
    return {"VERIF_NVX_DIR": _private_nvx_dir(), "AUTOBAHN_USE_NVX": "1"}


def prepare(tier):
    try:
        _private_nvx_dir()
    except Exception as e:
        print("CANNOT-BUILD: %s" % e)
        return False
    return True


def shards(tier, seed):
    """quick: 7 NVX shards per framework + one pure-Python shard per framework = 16 processes, ~20 s of CPU each on an idle machine;
    thorough: 4 NVX + 4 pure-Python shards per framework = 16 processes, ~5 min of CPU each."""
    out = []
    nvx_env = _nvx_env()
    pure_env = {"AUTOBAHN_USE_NVX": "0"}
    if tier == "quick":
        per_fw = 7
        envs = [("nvx", nvx_env)]
    else:
        per_fw = 4
        envs = [("nvx", nvx_env), ("pure", pure_env)]
    for ename, env in envs:
        for fw in ("tx", "aio"):
            for i in range(per_fw):
                out.append({"name": "%s-%s-%d" % (fw, ename, i), "fw": fw, "env": env, "timeout": 14400,
                            "params": {"tier": tier, "seed": seed, "part": i, "parts": per_fw, "fw": fw,
                                       "nvx": ename == "nvx"}})
    if tier == "quick":
        # one pure-Python pass per framework in the quick tier too (masker/validator selection happens at import time)
        for fw in ("tx", "aio"):
            out.append({"name": "%s-pure-q" % fw, "fw": fw, "env": pure_env, "timeout": 14400,
                        "params": {"tier": tier, "seed": seed, "part": 0, "parts": 1, "fw": fw, "nvx": False,
                                   "mini": True}})
    return out


# ================================================================================================
# case derivation (everything follows from the case dict; replay == run_case(case))
# ================================================================================================

def xmask_key(j):
    """The explicit mask key handed to sendFrame(mask=..) for the j-th frame of a message."""
    return bytes([(0x41 + j) & 0xFF, 0x62, 0x63, 0x64])


def _pick_len(rng, tier, big_ok=True):
    r = rng.random()
    if r < 0.45:
        return rng.randint(0, 300)
    if r < 0.70:
        return rng.choice(BORDER_LENGTHS[:10])
    if r < 0.85:
        return rng.randint(300, 70000) if big_ok else rng.randint(300, 3000)
    if not big_ok:
        return rng.choice(BORDER_LENGTHS[:10])
    if r < 0.97 or tier == "quick":
        return rng.choice(BORDER_LENGTHS[10:])
    return rng.choice(THOROUGH_LENGTHS[:2])


def _frag_size(rng, n):
    cands = [1, 2, 3, 125, 126, max(1, n - 1), max(1, n), n + 1, 4096, 65535, 65536]
    fs = rng.choice(cands)
    if n // fs > 400:
        fs = n // rng.randint(2, 400) + 1
    return fs


def _split(rng, n, k, allow_zero=False):
    """k parts summing to n."""
    if k <= 1:
        return [n]
    cuts = sorted(rng.randint(0, n) for _ in range(k - 1))
    parts = [b - a for a, b in zip([0] + cuts, cuts + [n])]
    if not allow_zero:
        parts = [p for p in parts if p > 0] or [n]
    return parts


def derive_cfg(rng, force):
    cfg = {
        "pmce": rng.choice([None, None, None, None, "default", "default", "nct", "wbits", "nct-c", "nct-s", "mix", "mix"]),
        "mask": rng.choice(["std"] * 6 + ["lenient", "srvmask", "cliunmask", "bothflip", "applyoff", "applyoff-srvmask"]),
        "utf8": rng.random() < 0.85,
        "autofrag": {"client": 0, "server": 0},
        "logging": rng.random() < 0.04,
        "pings": rng.random() < 0.3,
        # autoPingInterval ticks into half-streamed frames: implemented (force cfg {"autoping": True}, Twisted only) but
        # NOT drawn - under the virtual clock the library re-arms the auto-ping at once after every pong, i.e. a
        # ping/pong storm per delivery that makes a case ~10x slower; the automatic PONG path shows the same defect
        "autoping": rng.random() < 0.0,
        "style": rng.choice(["interleaved", "interleaved", "burst", "lockstep"]),
        "hs_seg": rng.choice(["whole", "whole", "split", "bytewise"]),
        "wbits": [rng.randint(9, 15), rng.randint(9, 15)],
        "mem_level": rng.choice([None, None, 1, 9]),
    }
    for side in ("client", "server"):
        if rng.random() < 0.25:
            cfg["autofrag"][side] = rng.choice([1, 2, 3, 125, 126, 127, 1000, 65535, 65536])
    # random draws for the 'mix' mode are always consumed (the rest of the derivation must not depend on the mode)
    mix = {"s_nct": rng.random() < 0.5, "c_nct": rng.random() < 0.5,
           "s_local": rng.random() < 0.3, "c_local": rng.random() < 0.3,
           "s_wb": rng.choice([0, 0, 9, 10, 12, 15]), "c_wb": rng.choice([0, 0, 9, 11, 13, 15])}
    cfg.update(force.get("cfg", {}))
    if "pmce_opts" not in cfg:
        cfg["pmce_opts"] = pmce_opts(cfg["pmce"], cfg["wbits"], mix)
    return cfg


def pmce_opts(mode, wbits, mix):
    """permessage-deflate option matrix of one connection.
    s_nct / c_nct  : server_/client_no_context_takeover ON THE WIRE (offer.request_no_context_takeover /
                     offer-accept.request_no_context_takeover) - all four combinations occur;
    s_local/c_local: the unilateral overrides offer-accept(no_context_takeover=True) / response-accept(
                     no_context_takeover=True): the sender drops its context without announcing it (always decodable);
    s_wb / c_wb    : server_/client_max_window_bits on the wire (0 = not negotiated = 15)."""
    o = {"s_nct": False, "c_nct": False, "s_local": False, "c_local": False, "s_wb": 0, "c_wb": 0}
    if mode == "nct":
        o.update(s_nct=True, c_nct=True)
    elif mode == "nct-c":
        o.update(c_nct=True)
    elif mode == "nct-s":
        o.update(s_nct=True)
    elif mode == "wbits":
        o.update(s_wb=wbits[0], c_wb=wbits[1])
    elif mode == "mix":
        o.update(mix)
    return o


def plan_message(rng, tier, cfg, role, idx, force, big_ok=True):
    n = force.get("length")
    if n is None:
        n = _pick_len(rng, tier, big_ok)
    api = force.get("api") or rng.choice(APIS + ["msg", "msg"])
    binary = force.get("binary")
    if binary is None:
        binary = rng.random() < 0.5
    p = {"idx": idx, "length": n, "binary": bool(binary), "api": api,
         "fill": rng.choice(["random", "repeat", "mixed"])}
    # the body repeats the body of the previous message of this direction (new unique tag): with context takeover the
    # compressor back-references the earlier message, so a receiver that wrongly drops (or keeps) its context fails
    p["echo"] = rng.random() < (0.7 if force.get("echo") else 0.25)
    pmce = cfg["pmce"] is not None
    if api == "msg-frag":
        p["fs"] = force.get("fs") or _frag_size(rng, n)
        p["sync"] = rng.random() < 0.15
        p["dnc"] = rng.random() < 0.2
    elif api == "msg-sync":
        if rng.random() < 0.3:
            p["fs"] = _frag_size(rng, n)
    elif api == "stream":
        # streamed frame data cannot be compressed (the frame length is announced first); under a negotiated
        # PMCE the library sends such a message uncompressed whether or not doNotCompress is given
        p["dnc"] = rng.random() < 0.5
        k = rng.choice([1, 1, 2, 3, 5])
        p["frames"] = _split(rng, n, k, allow_zero=rng.random() < 0.2)
        p["chunk_max"] = rng.choice([1, 2, 3, 5, 64, 1000, 100000])
        if n > 3000 and p["chunk_max"] < 64:
            p["chunk_max"] = rng.choice([500, 4096, 100000])
        p["overshoot"] = rng.random() < 0.35
        p["sync"] = rng.random() < 0.2
        p["empty_chunks"] = rng.random() < 0.1
        if n == 0 and rng.random() < 0.5:
            p["frames"] = []          # beginMessage(); endMessage(): an empty message without any frame call
    elif api == "frames":
        k = rng.choice([1, 2, 3, 6])
        p["frames"] = _split(rng, n, k, allow_zero=rng.random() < 0.3)
        p["dnc"] = rng.random() < 0.3
        p["sync"] = rng.random() < 0.2
        if n == 0 and rng.random() < 0.3:
            p["frames"] = []          # beginMessage(); endMessage()
    elif api == "prepared":
        p["dnc"] = rng.random() < 0.5
    elif api == "sendframe":
        k = rng.choice([1, 1, 2, 4])
        p["frames"] = _split(rng, n, k, allow_zero=rng.random() < 0.3)
        cs = rng.choice([None, 1, 2, 3, 7, 64, 1000, 70000])
        if cs and (n + 14) // cs > 300:
            cs = (n + 14) // rng.randint(2, 300) + 1
        p["chop"] = cs
        p["sync"] = rng.random() < 0.2
        p["repeat"] = (len(p["frames"]) == 1 and n > 0 and rng.random() < 0.2)
        if p["repeat"]:
            p["unit"] = rng.choice([1, 2, 7, 64, max(1, n - 1), n, n + 3])
        # sendFrame(mask=<explicit key>): a server may only do that towards a client that accepts masked frames
        may_mask = role == "client" or MASK_VARIANTS[cfg["mask"]][3]
        p["xmask"] = bool(may_mask and rng.random() < 0.3)
    elif api == "msg-dnc":
        p["dnc"] = True
    return p


def build_plans(case, cfg, rng):
    tier = case.get("tier", "quick")
    force = case.get("force", {})
    kind = case["kind"]
    plans = {"c2s": [], "s2c": []}
    if kind == "cuts":
        # tiny, timer-free, so the post-handshake stream is short and identical for every cut
        for d, role in (("c2s", "client"), ("s2c", "server")):
            budget = 60
            for i in range(rng.randint(2, 5)):
                api = rng.choice(["msg", "msg-frag", "frames", "stream", "prepared", "sendframe"])
                n = rng.choice([0, 0, 1, 2, 3, 4, 5, 8])
                p = plan_message(rng, tier, cfg, role, i, {"length": n, "api": api})
                p["sync"] = False
                p["chop"] = None
                if "frames" in p and len(p["frames"]) > 3:
                    p["frames"] = _split(rng, n, 2)
                if api == "msg-frag":
                    p["fs"] = rng.choice([1, 2, 3])
                    if n // p["fs"] > 3:
                        p["fs"] = 3
                p["xmask"] = bool(p.get("xmask"))
                cost = n + 8 * (len(p.get("frames", [1])) + 1 + (n // p["fs"] + 1 if api == "msg-frag" else 0))
                if cost > budget:
                    break
                budget -= cost
                plans[d].append(p)
        return plans
    if "dir" in force:          # systematic grid: the forced API/length in one direction
        d = force["dir"]
        role = "client" if d == "c2s" else "server"
        L = force["length"]
        lens = [L]
        if L <= 70000:
            lens += [max(0, L - 1), L + 1][:rng.randint(0, 2)]
        for i, n in enumerate(lens):
            plans[d].append(plan_message(rng, tier, cfg, role, i, dict(force, length=n)))
        od = "s2c" if d == "c2s" else "c2s"
        orole = "server" if role == "client" else "client"
        for i in range(rng.randint(0, 2)):
            plans[od].append(plan_message(rng, tier, cfg, orole, i, {}, big_ok=False))
        return plans
    total = case.get("n_msgs") or rng.choice([1, 2, 3, 4, 6, 9, 14, 20, 30, 40])
    nc = rng.randint(0, total)
    if case.get("balanced"):
        nc = total // 2
    if kind == "glue":
        nc = max(1, min(nc, total - 1)) if total > 1 else rng.randint(0, 1)
    budget = {"quick": 350000, "thorough": 3000000}[tier]
    for d, role, cnt in (("c2s", "client", nc), ("s2c", "server", total - nc)):
        for i in range(cnt):
            p = plan_message(rng, tier, cfg, role, i, {"echo": True} if case.get("echo") else {}, big_ok=budget > 140000)
            budget -= p["length"]
            plans[d].append(p)
    return plans


# ================================================================================================
# one side of a connection
# ================================================================================================

class Side:
    def __init__(self, run, role):
        self.run = run
        self.role = role
        self.direction = "c2s" if role == "client" else "s2c"
        self.plans = []
        self.ep = None
        self.proto = None
        self.sent = []           # completed sends, in call order
        self.pings = []
        self.steps = deque()     # pending steps of the message being sent
        self.next_plan = 0
        self.dead = None         # exception raised by a send API
        self.listener = []
        self.in_frame = False    # inside a half-written streamed frame
        self.seg = None
        self.onopen_n = 0
        self.prev_body = {}      # is_binary -> body of the last message sent (see plan 'echo')

    # -- options ---------------------------------------------------------------------------
    def mask_opt(self):
        mc, _, ms, _, _ = MASK_VARIANTS[self.run.cfg["mask"]]
        return mc if self.role == "client" else ms

    def apply_mask(self):
        return MASK_VARIANTS[self.run.cfg["mask"]][4]

    def bind(self, proto):
        self.proto = proto
        proto.on("message", self._on_message_event)

    def _on_message_event(self, payload, is_binary=None):
        self.listener.append((bytes(payload), bool(is_binary)))

    def written(self):
        """Octets this endpoint has produced so far (on the transport or parked in the send queue)."""
        return len(self.ep.all_out) + sum(len(e[0]) for e in self.proto.send_queue)

    def has_more(self):
        return self.dead is None and (bool(self.steps) or self.next_plan < len(self.plans))

    # -- sending -----------------------------------------------------------------------------
    def _features(self, p):
        """Mechanism-relevant features of one send (part of the violation key).  Configuration that does not
        change which code path writes the octets (which non-default mask variant, onOpen, UTF-8 validation,
        segmentation ...) is NOT part of the key; it is in the violation detail."""
        toks = []
        api = p["api"]
        if self.run.pmce_on and api in COMPRESSING_APIS and not p.get("dnc"):
            toks.append("pmce")              # this message takes the compressing path
        masked = (self.role == "client") if (api == "prepared" and "pmce" not in toks) else (self.mask_opt() or bool(p.get("xmask")))
        if masked and not self.apply_mask():
            toks.append("applyoff")          # frames carry a mask key that is documented NOT to be applied
        if p.get("xmask"):
            toks.append("xmask")             # sendFrame(mask=<explicit key>)
        if api in ("stream", "frames") and not p.get("frames"):
            toks.append("zero-frames")       # beginMessage(); endMessage()
        return "+".join([api] + toks)

    def _load_next(self, onopen=False):
        run = self.run
        p = self.plans[self.next_plan]
        self.next_plan += 1
        api = p["api"]
        n = p["length"]
        if api == "sendframe" and p.get("repeat"):
            ulen = max(1, p["unit"])
            if p["binary"]:
                unit = cw.make_payload(run.seed, self.direction, p["idx"], ulen, True, p["fill"])
            else:
                # a repeated text unit must stay valid UTF-8 wherever it is cut: ASCII filler after the tag
                unit = (cw.make_tag(self.direction, p["idx"]) + b"abcdefghijklmnopqrstuvwxyz" * (ulen // 26 + 1))[:ulen]
            payload = (unit * (n // len(unit) + 1))[:n]
        else:
            unit = None
            payload = cw.make_payload(run.seed, self.direction, p["idx"], n, p["binary"], p["fill"])
            prev = self.prev_body.get(p["binary"])
            if p.get("echo") and prev and n > cw.TAG_LEN + 8:
                payload = cw.echo_payload(self.direction, p["idx"], n, p["binary"], prev)
                run.R.count("echo_payloads")
        if len(payload) >= cw.TAG_LEN + 8:
            self.prev_body[p["binary"]] = payload[cw.TAG_LEN:][:20000]
        rec = {"idx": p["idx"], "tag": cw.tag_of(payload), "binary": p["binary"], "sha": cw.sha(payload), "len": n,
               "api": api, "payload": payload, "plan": p, "onopen": onopen,
               "xmask": bool(p.get("xmask")), "done": False, "ret_bad": None}
        if api == "msg" and run.cfg["autofrag"][self.role]:
            rec["api"] = "autofrag"
        rec["feat"] = self._features(dict(p, api=rec["api"]))
        pr = self.proto
        st = self.steps
        rng = run.rng_api
        binary = p["binary"]

        if api in ("msg", "msg-dnc", "msg-frag", "msg-sync"):
            kw = {}
            if "fs" in p:
                kw["fragmentSize"] = p["fs"]
            if p.get("sync") or api == "msg-sync":
                kw["sync"] = True
            if p.get("dnc"):
                kw["doNotCompress"] = True

            def go():
                self.sent.append(rec)        # logged before the call: a receiver may see it synchronously
                rec["done"] = True
                pr.sendMessage(payload, binary, **kw)
            st.append(("msg", go))
        elif api == "prepared":
            def go():
                pm = pr.factory.prepareMessage(payload, isBinary=binary, doNotCompress=bool(p.get("dnc")))
                self.sent.append(rec)
                rec["done"] = True
                pr.sendPreparedMessage(pm)
            st.append(("msg", go))
        elif api == "frames":
            sizes = p["frames"]

            def begin():
                self.sent.append(rec)
                pr.beginMessage(isBinary=binary, doNotCompress=bool(p.get("dnc")))
            st.append(("begin", begin))
            pos = 0
            for sz in sizes:
                chunk = payload[pos:pos + sz]
                pos += sz
                st.append(("frame", (lambda c=chunk: pr.sendMessageFrame(c, sync=bool(p.get("sync"))))))
            st.append(("end", lambda: (pr.endMessage(), rec.__setitem__("done", True))))
        elif api == "stream":
            sizes = p["frames"]

            def begin():
                self.sent.append(rec)
                pr.beginMessage(isBinary=binary, doNotCompress=bool(p.get("dnc")))
            st.append(("begin", begin))
            # chunk plan is drawn now (deterministic), executed step by step
            state = {"pos": 0}
            for sz in sizes:
                def begin_frame(sz=sz):
                    pr.beginMessageFrame(sz)
                    state["left"] = sz
                    self.in_frame = sz > 0
                    state["mark"] = self.written() if sz > 0 else None
                st.append(("bframe", begin_frame))
                left = sz
                chunks = []
                while left > 0:
                    c = rng.randint(1, p["chunk_max"])
                    if not p["overshoot"]:
                        c = min(c, left)
                    if p.get("empty_chunks") and rng.random() < 0.2:
                        chunks.append(0)
                    chunks.append(c)
                    left -= min(c, left)
                if sz == 0:
                    # "the frame is automatically ended when enough data has been sent": a zero-length frame is
                    # ended the way sendMessageFrame(b"") ends it, by an empty sendMessageFrameData (ASSUMPTIONS)
                    chunks.append(0)
                for c in chunks:
                    def data(c=c):
                        pos = state["pos"]
                        chunk = payload[pos:pos + c]     # may reach beyond this frame (over-long chunk)
                        want_rest = state["left"] - len(chunk)
                        was_open = pr.state == pr.STATE_OPEN
                        # monitor: between two data calls of ONE frame only the application's octets may be written
                        if state.get("mark") is not None and self.written() != state["mark"] and not rec.get("ctl_in_frame"):
                            rec["ctl_in_frame"] = self.written() - state["mark"]
                            run.R.count("octets_injected_into_streamed_frame")
                        got = pr.sendMessageFrameData(chunk, sync=bool(p.get("sync")))
                        used = min(len(chunk), state["left"])
                        state["pos"] = pos + used
                        state["left"] -= used
                        state["mark"] = self.written() if state["left"] > 0 else None
                        if state["left"] == 0:
                            self.in_frame = False
                        run.R.count("stream_chunks")
                        # documented return: octets remaining (>0), 0 when complete, "amount of unconsumed data"
                        # otherwise (the code comment says negative, the docstring gives no sign: both accepted).
                        # A connection the PEER has failed meanwhile returns None: not this call's fault.
                        if was_open and rec["ret_bad"] is None:
                            run.R.count("stream_returns_checked")
                            ok = (got == want_rest) if want_rest >= 0 else (got in (want_rest, -want_rest))
                            if not ok or type(got) is not int:
                                rec["ret_bad"] = "sendMessageFrameData returned %r, frame arithmetic gives %r" % (got, want_rest)
                    st.append(("data", data))
            st.append(("end", lambda: (pr.endMessage(), rec.__setitem__("done", True))))
        elif api == "sendframe":
            sizes = p["frames"] or [0]
            op = 2 if binary else 1
            self_masked = self.mask_opt()
            pos = 0
            for k, sz in enumerate(sizes):
                last = k == len(sizes) - 1
                kw = {"opcode": op if k == 0 else 0, "fin": last, "sync": bool(p.get("sync"))}
                if p.get("chop"):
                    kw["chopsize"] = p["chop"]
                if p.get("repeat"):
                    kw["payload"] = unit
                    kw["payload_len"] = n
                else:
                    kw["payload"] = payload[pos:pos + sz]
                pos += sz
                if p.get("xmask"):
                    kw["mask"] = xmask_key(k)

                def go(kw=kw, first=(k == 0), last=last):
                    if first:
                        self.sent.append(rec)
                    pr.sendFrame(**kw)
                    if last:
                        rec["done"] = True
                st.append(("frame", go))
            rec["expect_masked"] = True if p.get("xmask") else self_masked
        else:
            raise ValueError(api)
        run.R.count("api_" + rec["api"])
        toks = rec["feat"].split("+")
        if toks[0] == "stream" and "pmce" in toks:
            run.R.count("mix_stream_under_pmce")
        if toks[0] == "prepared" and "applyoff" in toks:
            run.R.count("mix_prepared_applymask_off")
        if "xmask" in toks:
            run.R.count("mix_sendframe_explicit_mask")
        if "zero-frames" in toks:
            run.R.count("mix_begin_end_without_frame")
        run.apis_used.add(rec["api"])

    def step(self, onopen=False):
        """Execute one step of the current message (loading the next message when idle).
        Returns the step kind or None."""
        if self.dead is not None:
            return None
        if not self.steps:
            if self.next_plan >= len(self.plans):
                return None
            run = self.run
            if run.cfg["pings"] and not onopen and run.rng_sched.random() < 0.3:
                self.ping()
            self._load_next(onopen)
        kind, fn = self.steps.popleft()
        try:
            fn()
        except Exception as e:           # a send API raising
            self.dead = e
            self.steps.clear()
            # on a connection the peer has failed meanwhile sendMessage() documents Disconnected: a consequence
            lost = self.proto.state != self.proto.STATE_OPEN
            self.run.send_raised.append((self, kind, e, lost, self.sent[-1] if self.sent else None))
            return None
        if self.run.cfg["pings"] and not onopen and kind in ("frame",) and self.steps and self.run.rng_sched.random() < 0.2:
            self.ping()
        return kind

    def send_whole_message(self, onopen=False):
        k = self.step(onopen)
        while self.steps and self.dead is None:
            self.step(onopen)
        return k

    def ping(self):
        pl = self.run.rng_sched.randbytes(self.run.rng_sched.choice([0, 1, 4, 124, 125]))
        try:
            self.proto.sendPing(pl)
            self.pings.append(pl)
        except Exception as e:
            self.dead = e
            self.run.send_raised.append((self, "ping", e, self.proto.state != self.proto.STATE_OPEN, None))


# ================================================================================================
# one case
# ================================================================================================

class CaseRun:
    def __init__(self, case, R):
        self.case = case
        self.R = R
        self.kind = case["kind"]
        self.seed = case["seed"]
        self.viol = []
        self.send_raised = []
        self.apis_used = set()
        self.pmce_on = False
        self.pmce_params = None
        self.sender_fault = {"c2s": None, "s2c": None}
        self.autoping_ticks = 0

    def violation(self, direction, clause, rec, what, detail=None):
        key = "C01/%s/%s/%s" % (direction, clause, rec["feat"] if rec else "-")
        self.viol.append((key, what, detail or {}, direction, clause))

    # -- set-up --------------------------------------------------------------------------------
    def _pmce_options(self, so, co):
        from autobahn.websocket.compress import (PerMessageDeflateOffer, PerMessageDeflateOfferAccept,
                                                 PerMessageDeflateResponse, PerMessageDeflateResponseAccept)
        cfg = self.cfg
        po = cfg["pmce_opts"]
        mem = cfg["mem_level"]
        offer = PerMessageDeflateOffer(accept_no_context_takeover=True, accept_max_window_bits=True,
                                       request_no_context_takeover=bool(po["s_nct"]),
                                       request_max_window_bits=po["s_wb"] or 0)

        def accept(offers):
            for o in offers:
                if isinstance(o, PerMessageDeflateOffer):
                    return PerMessageDeflateOfferAccept(o, request_no_context_takeover=bool(po["c_nct"]),
                                                        request_max_window_bits=po["c_wb"] or 0,
                                                        no_context_takeover=True if po["s_local"] else None,
                                                        mem_level=mem)

        def caccept(resp):
            if isinstance(resp, PerMessageDeflateResponse):
                return PerMessageDeflateResponseAccept(resp, no_context_takeover=True if po["c_local"] else None,
                                                       mem_level=mem)

        so["perMessageCompressionAccept"] = accept
        co["perMessageCompressionOffers"] = [offer]
        co["perMessageCompressionAccept"] = caccept

    def setup(self):
        from vf.ws import WS, Link

        case = self.case
        rng = random.Random("c01/%s/%s" % (self.kind, self.seed))
        random.seed("c01-lib/%s/%s" % (self.kind, self.seed))      # the library draws its frame masks from `random`
        self.rng_api = random.Random(rng.getrandbits(64))
        self.rng_sched = random.Random(rng.getrandbits(64))
        self.cfg = cfg = derive_cfg(rng, case.get("force", {}))
        import txaio
        if cfg.get("autoping") and not txaio.using_twisted:
            # the asyncio virtual clock re-fires the 200 ms batched auto-ping timer without bound once it is due;
            # autoPingInterval ticks are therefore driven on Twisted only (peer pings into half-streamed frames run
            # on both frameworks)
            cfg["autoping"] = False
        if cfg.get("autoping"):
            cfg["pings"] = False        # keeps the ping bookkeeping simple: every ping on the wire is an automatic one
        if self.kind == "cuts":
            cfg["pings"] = False
            cfg["autoping"] = False
            cfg["hs_seg"] = "whole"
            cfg["autofrag"] = {"client": 0, "server": 0}
            cfg["logging"] = False
        if self.kind == "glue":
            cfg["style"] = rng.choice(["interleaved", "burst"])
        plans = build_plans(case, cfg, rng)
        # a tiny autoFragmentSize times a huge message is hundreds of thousands of frames (and, cut at every
        # frame border, millions of read events): keep the frame count of one message below ~3000
        for d, role in (("c2s", "client"), ("s2c", "server")):
            a = cfg["autofrag"][role]
            longest = max([p["length"] for p in plans[d] if p["api"] in ("msg", "msg-dnc", "msg-sync", "prepared")] or [0])
            if a and longest // a > 3000:
                cfg["autofrag"][role] = longest // rng.randint(2, 3000) + 1
        mc, req, ms, acc, apply_ = MASK_VARIANTS[cfg["mask"]]
        so = {"maskServerFrames": ms, "requireMaskedClientFrames": req, "applyMask": apply_,
              "utf8validateIncoming": cfg["utf8"], "autoFragmentSize": cfg["autofrag"]["server"]}
        co = {"maskClientFrames": mc, "acceptMaskedServerFrames": acc, "applyMask": apply_,
              "utf8validateIncoming": cfg["utf8"], "autoFragmentSize": cfg["autofrag"]["client"]}
        if cfg.get("autoping"):
            for o in (so, co):
                o.update(autoPingInterval=0.3, autoPingTimeout=0)
        if cfg["pmce"]:
            self._pmce_options(so, co)
        self.ws = w = WS()
        sf = w.server_factory(options=so)
        cf = w.client_factory(options=co)
        if cfg["logging"]:
            for f in (sf, cf):
                f.logOctets = True
                f.logFrames = True
                f.trackTimings = True
        self.client = Side(self, "client")
        self.server = Side(self, "server")
        self.client.plans, self.server.plans = plans["c2s"], plans["s2c"]
        self.sides = [self.client, self.server]
        if self.kind == "glue":
            self.server.onopen_n = rng.randint(1, max(1, min(4, len(self.server.plans))))
            self.client.onopen_n = rng.randint(0, min(3, len(self.client.plans)))

        def on_open(side):
            def script(proto):
                side.bind(proto)
                # whether compression was negotiated is known to the application at this point
                self.pmce_on = proto._perMessageCompress is not None if hasattr(proto, "_perMessageCompress") else False
                for _ in range(min(side.onopen_n, len(side.plans))):
                    side.send_whole_message(onopen=True)
            return script

        sf.vf_on_open = on_open(self.server)
        cf.vf_on_open = on_open(self.client)
        # PMCE presence must be known before the first qual is computed: both sides negotiate the same thing
        self.pmce_on = cfg["pmce"] is not None
        s = w.attach(sf, "server")
        c = w.attach(cf, "client")
        self.server.ep, self.client.ep = s, c
        self.link = link = Link(w.world, c, s)
        # segmentation policies
        for side in self.sides:
            planned = sum(p["length"] for p in side.plans)
            pol = (case.get("seg") or {}).get(side.direction) or rng.choice(SEG_POLICIES)
            if pol in ("bytewise", "small") and planned > 6000:
                pol = rng.choice(["bursty", "edges", "random"])
            side.seg = cw.Seg(pol, random.Random(rng.getrandbits(64)), side.ep, link)
        return link

    def handshake(self):
        w, link, cfg = self.ws, self.link, self.cfg
        c, s = self.client.ep, self.server.ep
        world = w.world
        world.settle()
        # client request -> server
        mode = cfg["hs_seg"]
        for _ in range(10000):
            avail = link.pending(c)
            if not avail:
                break
            if mode == "whole":
                n = avail
            elif mode == "bytewise":
                n = 1
            else:
                n = self.rng_sched.randint(1, avail)
            link.deliver(c, n)
            world.settle()
        if self.kind == "glue":
            # let queued (sync) writes of onOpen drain so that response + frames travel as ONE segment
            glue = self.case.get("glue", "one")
            if glue != "nodrain":
                self._drain_timers()
            avail = link.pending(s)
            head_len = bytes(s.all_out).find(b"\r\n\r\n") + 4
            if glue in ("one", "nodrain"):
                link.deliver(s, avail)
            else:   # cut k octets after the head (k may be 0: exactly the head)
                k = int(glue)
                link.deliver(s, min(avail, head_len + k))
            world.settle()
            self.R.count("glue_cases")
            self.R.count("glue_octets_after_head", max(0, avail - head_len))
        else:
            for _ in range(10000):
                avail = link.pending(s)
                if not avail:
                    break
                n = avail if mode == "whole" else (1 if mode == "bytewise" else self.rng_sched.randint(1, avail))
                link.deliver(s, n)
                world.settle()
        from vf.ws import is_open
        ok = is_open(c) and is_open(s)
        if ok:
            for side in self.sides:
                if side.proto is None:      # onOpen not seen?!
                    ok = False
        return ok

    def _drain_timers(self, horizon=0.05):
        world = self.ws.world
        for _ in range(200000):
            world.settle()
            nd = world.next_deadline()
            if nd is None or nd > world.now() + horizon:
                return
            world.advance(max(0.0, nd - world.now()))
            self.R.count("queued_writes_fired")
        raise RuntimeError("timers do not drain")

    # -- driving -------------------------------------------------------------------------------
    def _deliver_burst(self, src_ep, sizes):
        """``sizes`` consecutive chunks of what ``src_ep`` wrote reach the peer's protocol back to back in ONE read
        event (asyncio: k data_received() calls, the loop runs afterwards - AioEndpoint.feed_burst); on Twisted
        dataReceived() is synchronous, so the same chunks are simply k read events."""
        link = self.link
        link.collect()
        buf = link.inflight[id(src_ep)]
        chunks = []
        for n in sizes:
            if not buf:
                break
            n = max(1, min(n, len(buf)))
            chunks.append(bytes(buf[:n]))
            del buf[:n]
        if not chunks:
            return 0
        dst = link.peer_of(src_ep)
        fb = getattr(dst, "feed_burst", None)
        if fb is not None and len(chunks) > 1:
            handed = fb(chunks)
            if handed > 1:
                self.R.count("aio_bursts_delivered")
                self.R.count("aio_burst_chunks", handed)
        else:
            for ch in chunks:
                dst.feed(ch)
        moved = sum(len(c) for c in chunks)
        link.delivered[id(src_ep)] += moved
        link.collect()
        return moved

    def _deliver_next(self, side):
        avail = self.link.pending(side.ep)
        if not avail:
            return 0
        if side.seg.policy == "tlsburst":
            return self._deliver_burst(side.ep, side.seg.next_burst(avail))
        return self.link.deliver(side.ep, side.seg.next_n(avail))

    def _deliver_some(self, side):
        link = self.link
        peer = self.server if side is self.client else self.client
        avail = link.pending(side.ep)
        if not avail:
            return 0
        if peer.in_frame:
            self.R.count("deliveries_while_peer_inside_streamed_frame")
        return self._deliver_next(side)

    def drive(self):
        world = self.ws.world
        rs = self.rng_sched
        style = self.cfg["style"]
        guard = 0
        guard_max = 3_000_000 + 40 * sum(p["length"] for sd in self.sides for p in sd.plans)
        while True:
            guard += 1
            if guard > guard_max:
                raise RuntimeError("drive: no progress bound hit")
            choices = []
            senders = [sd for sd in self.sides if sd.has_more()]
            pend = [sd for sd in self.sides if self.link.pending(sd.ep)]
            if self.cfg["autoping"] and self.autoping_ticks < 3 and any(sd.in_frame for sd in self.sides) and rs.random() < 0.05:
                # an autoPingInterval tick while a frame is half-streamed
                self.autoping_ticks += 1
                world.advance(0.45)
                self.R.count("autoping_ticks_inside_streamed_frame")
                continue
            nd = world.next_deadline()
            timer = nd is not None and nd <= world.now() + 0.01
            if style == "burst":
                if senders:
                    choices = ["send"] * 6 + (["time"] if timer else [])
                else:
                    choices = (["deliver"] * 3 if pend else []) + (["time"] if timer else [])
            elif style == "lockstep":
                if pend or timer:
                    choices = (["deliver"] * 3 if pend else []) + (["time"] if timer else [])
                    if senders and any(sd.steps for sd in senders):
                        choices += ["send"]      # keep a half-sent message moving
                elif senders:
                    choices = ["send"]
            else:
                choices = (["send"] * 3 if senders else []) + (["deliver"] * 4 if pend else []) + (["time"] * 2 if timer else [])
            if not choices:
                if senders:
                    choices = ["send"]
                else:
                    break
            act = rs.choice(choices)
            if act == "send":
                cand = [sd for sd in senders if sd.steps] if style == "lockstep" and any(sd.steps for sd in senders) else senders
                rs.choice(cand).step()
            elif act == "deliver":
                self._deliver_some(rs.choice(pend))
            else:
                dt = rs.choice([0.00001, 0.00001, 0.00002, 0.0001])
                if nd <= world.now() + dt:
                    self.R.count("queued_writes_fired")
                world.advance(dt)
        # drain
        for _ in range(1_000_000):
            self._drain_timers()
            pend = [sd for sd in self.sides if self.link.pending(sd.ep)]
            if not pend:
                nd = world.next_deadline()
                if nd is None or nd > world.now() + 0.05:
                    break
                continue
            sd = rs.choice(pend)
            self._deliver_next(sd)
        else:
            raise RuntimeError("drain does not terminate")

    def drive_cuts(self):
        """Everything is sent first (stream is then fixed), then the chosen direction is delivered cut at
        the given absolute post-handshake offsets; the other direction whole."""
        for sd in self.sides:
            while sd.has_more():
                sd.step()
        self._drain_timers()
        cut = self.case.get("cut")
        link = self.link
        lens = {sd.direction: link.pending(sd.ep) for sd in self.sides}
        self.stream_len = lens
        order = list(self.sides)
        if self.rng_sched.random() < 0.5:
            order.reverse()
        for sd in order:
            if cut and cut[0] == sd.direction:
                pos, sizes = 0, []
                for c in cut[1:]:
                    if c > pos:
                        sizes.append(c - pos)
                        pos = c
                if self.case.get("burst"):
                    # the pieces (and the rest) arrive back to back inside one read event
                    self._deliver_burst(sd.ep, sizes + [1 << 30])
                else:
                    for n in sizes:
                        link.deliver(sd.ep, n)
                    link.deliver(sd.ep, None)
                self.R.count("cut_positions", len(cut) - 1)
            else:
                link.deliver(sd.ep, None)
        self._drain_timers()
        for sd in self.sides:
            while link.pending(sd.ep):
                link.deliver(sd.ep, None)

    # -- verdict -------------------------------------------------------------------------------
    def judge(self):
        from vf.ws import app_events, is_open

        R = self.R
        cfg = self.cfg
        # ---------- sender side ----------
        s_head = cw.split_head(bytes(self.server.ep.all_out))
        pm = cw.negotiated_pmce(s_head[0]) if s_head else None
        self.pmce_params = pm
        if pm:
            R.seen("pmce_negotiated", "c_nct=%d s_nct=%d c_wb=%d s_wb=%d" % (pm["client_nct"], pm["server_nct"],
                                                                            pm["client_wbits"], pm["server_wbits"]))
            R.seen("pmce_takeover", "c_nct=%d s_nct=%d c_local=%d s_local=%d" % (
                pm["client_nct"], pm["server_nct"], bool(cfg["pmce_opts"]["c_local"]), bool(cfg["pmce_opts"]["s_local"])))
            n_cmp = [sum(1 for r in sd.sent if "pmce" in r["feat"].split("+") and r["api"] != "stream") for sd in self.sides]
            if pm["client_nct"] != pm["server_nct"] and min(n_cmp) >= 2:
                R.count("asym_takeover_conns_2plus_msgs_each_way")
                R.count("asym_takeover_c%d_s%d" % (pm["client_nct"], pm["server_nct"]))
        if bool(pm) != bool(cfg["pmce"]):
            self.violation("s2c", "sender/pmce-negotiation", None,
                           "extension offered/accepted=%r but 101 response says %r" % (cfg["pmce"], pm))
        # Each direction yields its EARLIEST problem.  "Soft" problems (the stream simply stops: trailing octets,
        # unfinished / missing message, missing pings) are what a sender looks like whose connection the peer has
        # failed - they are reported only when the connection is still open (nobody cut the stream) or when no
        # other explanation exists (see the liveness clause below).
        found = {}
        for side in self.sides:
            found[side.direction] = self._judge_sender(side, pm)
        lost = {sd.direction: (not is_open(sd.ep) or bool(sd.ep.close_requested) or bool(sd.ep.lost)) for sd in self.sides}
        pair_down = any(lost.values())      # one end gone = the connection is gone (the other end may not know yet)
        for side in self.sides:
            d = side.direction
            c = found[d]
            if c is None:
                continue
            pos, _, clause, rec, what, detail, soft = c
            if soft and pair_down:
                R.count("soft_problems_on_lost_connections")
                continue
            self.violation(d, clause, rec, what, detail)
            self.sender_fault[d] = clause
        any_fault = any(self.sender_fault.values())
        # ---------- receiver side ----------
        for side in self.sides:
            d = side.direction
            peer = self.server if side is self.client else self.client
            got = [(bytes(e[2]), bool(e[3])) for e in app_events(peer.ep, ("onMessage",))]
            if peer.listener != got:
                self.violation(d, "listener-mismatch", None, "'message' listener saw %d messages, onMessage %d" % (
                    len(peer.listener), len(got)))
            if any_fault:
                continue
            sent = [r for r in side.sent]
            self._compare_delivery(d, sent, got)
            # pings
            got_pings = [bytes(e[2]) for e in app_events(peer.ep, ("onPing",))]
            got_pongs = [bytes(e[2]) for e in app_events(side.ep, ("onPong",))]
            if not pair_down and getattr(peer, "wire_pongs", None) is not None and peer.wire_pongs != got_pings:
                # every ping is answered with a pong carrying the ping's payload (eventually: the run has drained)
                self.violation("s2c" if d == "c2s" else "c2s", "pong-not-echoing-ping", None,
                               "pings received %d, pongs written %d (or payloads differ)" % (len(got_pings), len(peer.wire_pongs)))
            R.count("pongs_compared_on_wire", len(got_pings))
            if cfg.get("autoping"):
                if got_pings != getattr(side, "wire_pings", got_pings):
                    self.violation(d, "ping-delivery", None, "automatic pings on the wire %d, onPing calls at the peer %d" % (
                        len(side.wire_pings), len(got_pings)))
                continue
            if got_pings != side.pings:
                self.violation(d, "ping-delivery", None, "pings sent %d, onPing calls at the peer %d" % (len(side.pings), len(got_pings)))
            if got_pongs != side.pings:
                self.violation(d, "pong-delivery", None, "pings sent %d, onPong calls %d" % (len(side.pings), len(got_pongs)))
        # ---------- liveness of the connection ----------
        if not any_fault:
            esc = list(self.ws.world.escaped)
            for name, e in esc:
                self.violation("c2s" if name == "server" else ("s2c" if name == "client" else "-"),
                               "escaped/%s/%s" % (e.where.split(":")[0], type(e.exc).__name__), None,
                               "exception reached the framework at %s: %r" % (name, e))
            down = [sd for sd in self.sides if lost[sd.direction]]
            # the endpoint that gave up first (it asked its transport to close) is the one to blame
            down.sort(key=lambda sd: 0 if sd.ep.close_requested else 1)
            for side in down[:1]:
                reason = getattr(side.ep.proto, "wasNotCleanReason", None)
                closes = [e[2:] for e in app_events(side.ep, ("onClose",))]
                self.violation("s2c" if side.role == "client" else "c2s", "not-open-at-end/%s" % side.role, None,
                               "%s left OPEN during valid traffic (state=%r close_requested=%r reason=%r onClose=%r)" % (
                                   side.role, side.ep.proto.state, side.ep.close_requested, reason, closes))

    def _judge_sender(self, side, pm):
        """Everything ``side`` wrote after its handshake part.  Once a stream is broken every later octet is
        misread, so only the EARLIEST problem of a direction is returned (position = frame index):
        (pos, order, clause, rec, what, detail, soft) or None."""
        R = self.R
        d = side.direction
        cands = []

        def cand(pos, clause, rec, what, detail=None, soft=False):
            cands.append((pos, len(cands), clause, rec, what, detail, soft))

        sp = cw.split_head(bytes(side.ep.all_out))
        if sp is None:
            return (0, 0, "sender/no-handshake-head", None, "no CRLFCRLF in sender output", None, False)
        frames, tail = cw.parse_frames(sp[1])
        R.count("frames_parsed", len(frames))
        R.count("sender_" + side.role)
        problems, _rmsgs, _controls, _inc = ref.check_sender_stream(frames, side.role, pmce=bool(pm),
                                                                     mask_expected=side.mask_opt())
        msgs, frame_msg, open_tail = cw.assemble(frames)
        sent = side.sent
        nfr = len(frames)
        # message index a frame belongs to: frames the continuation discipline cannot attribute (and control
        # frames) are charged to the message that was being / about to be written at that point
        owner, done_before = [], 0
        for k, f in enumerate(frames):
            mi = frame_msg[k]
            owner.append(mi if mi is not None else done_before)
            if mi is not None and f.opcode not in ref.CONTROL_OPS and f.fin and f.opcode in (0, 1, 2):
                done_before = mi + 1

        def rec_of_msg(mi):
            return sent[mi] if mi is not None and 0 <= mi < len(sent) else None

        def rec_of_frame(k, data_only=False):
            if k is None or k >= nfr:
                return rec_of_msg(len(msgs))
            if data_only and frames[k].opcode in ref.CONTROL_OPS:
                return None
            return rec_of_msg(owner[k])

        for clause, k, text in problems:
            if clause.startswith("mask-bit-"):
                continue            # judged per frame below (prepared messages mask by role)
            if clause.startswith("close-code-invalid-"):
                clause = "close-code-invalid"       # the code itself is a value, not a mechanism
            is_ctl = k is not None and k < nfr and frames[k].opcode in ref.CONTROL_OPS
            cand(k, "sender/" + clause, None if is_ctl else rec_of_frame(k), "frame %d: %s" % (k, text))
        nth_in_msg = {}
        for k, f in enumerate(frames):
            rec = rec_of_frame(k, data_only=True)
            want = side.mask_opt()
            if rec is not None:
                j = nth_in_msg.get(owner[k], 0)
                nth_in_msg[owner[k]] = j + 1
                if rec["api"] == "prepared" and not (pm and not rec["plan"].get("dnc")):
                    want = side.role == "client"
                elif rec["api"] == "sendframe":
                    want = rec.get("expect_masked", want)
                    if rec["xmask"] and f.masked and f.mask != xmask_key(j):
                        cand(k, "sender/explicit-mask-key", rec,
                             "frame %d %r: sendFrame(mask=%s) wrote mask key %s" % (k, f, xmask_key(j).hex(), f.mask.hex()))
            if bool(f.masked) != bool(want):
                cand(k, "sender/mask-bit-%s" % ("set" if f.masked else "clear"), rec,
                     "frame %d %r: mask bit %d, options/role demand %d" % (k, f, f.masked, want))
            R.count("wire_len%d" % f.length_form)
        if tail:
            rec = rec_of_msg(len(msgs)) or (sent[-1] if sent else None)
            sc = cw.scan_frame(tail, 0)
            # judged only on a COMPLETE header: a header cut short (chopped write on a connection the peer has
            # failed meanwhile) says nothing about the key
            if rec is not None and rec["xmask"] and sc is not None and sc[2][3] and (
                    sc[2][4] not in [xmask_key(j) for j in range(8)]):
                cand(nfr, "sender/explicit-mask-key", rec, "last frame has the mask bit but the key sendFrame() was given "
                     "is not on the wire: %s" % tail[:16].hex())
            cand(nfr, "sender/trailing-octets", rec,
                 "%d octets after the last complete frame do not form a frame: %s" % (len(tail), tail[:24].hex()), soft=True)
        if open_tail:
            cand(nfr, "sender/unfinished-message", rec_of_msg(len(msgs)), "stream ends inside a fragmented message", soft=True)
        # content: wire messages vs send log
        inflater = None
        if pm:
            nct = pm["client_nct"] if side.role == "client" else pm["server_nct"]
            wb = pm["client_wbits"] if side.role == "client" else pm["server_wbits"]
            inflater = cw.Inflater(nct, wb)
        broke = False
        for i, m in enumerate(msgs):
            if i >= len(sent):
                cand(m.first_frame, "sender/wire-extra-message", sent[-1] if sent else None,
                     "message #%d on the wire (%d octets) was never sent by the application" % (i, len(m.payload)))
                broke = True
                break
            rec = sent[i]
            wire = m.payload if side.apply_mask() else m.raw
            if m.frames > 1:
                R.count("fragmented_messages")
            if m.rsv1:
                R.count("pmce_messages")
                if inflater is None:
                    broke = True        # rsv1-without-extension already reported by the reference
                    break
                try:
                    wire = inflater.inflate(wire)
                except zlib.error as e:
                    cand(m.first_frame, "sender/payload", rec, "RSV1 message #%d does not inflate with the negotiated "
                         "parameters %r: %s" % (i, pm, e), {"wire": m.payload[:64].hex()})
                    broke = True
                    break
            R.count("wire_messages_compared")
            if (m.opcode == 2) != rec["binary"]:
                cand(m.first_frame, "sender/wire-type", rec, "message #%d sent as %s, opcode on the wire %d" % (
                    i, "binary" if rec["binary"] else "text", m.opcode))
            if len(wire) != rec["len"] or cw.sha(wire) != rec["sha"]:
                cand(m.first_frame, "sender/payload", rec,
                     "message #%d: application sent %d octets (sha %s), wire carries %d octets (sha %s)" % (
                         i, rec["len"], rec["sha"], len(wire), cw.sha(wire)),
                     {"sent_head": rec["payload"][:48].hex(), "wire_head": wire[:48].hex(),
                      "frames": m.frames, "lens": m.lens[:12]})
            if rec["ret_bad"]:
                cand(m.first_frame, "sender/stream-return", rec, rec["ret_bad"])
        # the message the stream stops in (if any): what is on the wire of it must be a PREFIX of what was sent
        # (compressed: must inflate to a prefix) - a truncated stream does not hide a corrupt encoder
        if not broke and len(msgs) < len(sent):
            rec = sent[len(msgs)]
            part = [f for k, f in enumerate(frames) if f.opcode in (0, 1, 2) and owner[k] == len(msgs)
                    and (frame_msg[k] == len(msgs))]
            pieces = [(f.payload if side.apply_mask() else f.raw_payload) for f in part]
            first_rsv1 = bool(part[0].rsv & 4) if part else None
            first_pos = next((k for k, f in enumerate(frames) if part and f is part[0]), nfr)
            sc = cw.scan_frame(tail, 0) if tail else None
            if sc is not None and sc[2][2] in (0, 1, 2) and (part or sc[2][2] != 0):
                hdr_end, _end, (t_fin, t_rsv, t_op, t_masked, t_key, t_len, _form) = sc
                body = tail[hdr_end:]
                if t_masked and side.apply_mask():
                    body = cw.xor_fast(body, t_key)
                pieces.append(body)
                if first_rsv1 is None:
                    first_rsv1 = bool(t_rsv & 4)
            have = b"".join(pieces)
            if first_rsv1 is not None and not (rec["xmask"]):
                R.count("partial_messages_checked")
                plain = None
                if first_rsv1:
                    if inflater is not None:
                        try:
                            plain = inflater.inflate_partial(have)
                        except zlib.error as e:
                            cand(first_pos, "sender/payload", rec, "unfinished RSV1 message #%d: the %d octets written so far do "
                                 "not inflate: %s" % (len(msgs), len(have), e), {"wire": have[:64].hex()})
                else:
                    plain = have
                if plain is not None and not rec["payload"].startswith(plain):
                    cand(first_pos, "sender/payload", rec, "unfinished message #%d: the %d octets written so far are not a "
                         "prefix of the %d octets sent" % (len(msgs), len(plain), rec["len"]),
                         {"sent_head": rec["payload"][:48].hex(), "wire_head": plain[:48].hex()})
        # runtime monitor: octets the application did not hand over were written inside a frame it was streaming
        for i, r in enumerate(sent):
            if r.get("ctl_in_frame"):
                pos = msgs[i].first_frame if i < len(msgs) else min(
                    [k for k in range(nfr) if owner[k] == i and frames[k].opcode not in ref.CONTROL_OPS] or [nfr])
                cand(pos - 0.25, "sender/control-frame-inside-streamed-frame", r,
                     "%d octets the application did not pass (a control frame the library sent on its own: automatic "
                     "pong / ping) were written between two sendMessageFrameData() calls of ONE frame of message #%d" % (
                         r["ctl_in_frame"], i))
                break
        # a send API that raised on an open connection: that message is (at best) incomplete on the wire
        for sd, kind, e, conn_lost, rec in self.send_raised:
            if sd is side and not conn_lost:
                cand(nfr - 0.5, "sender/send-raised-%s" % type(e).__name__, rec, "%s step raised %r on an OPEN connection" % (kind, e))
        if not broke and len(msgs) < len(sent) and side.dead is None:
            cand(nfr, "sender/wire-missing-message", sent[len(msgs)],
                 "application sent %d messages, %d complete messages on the wire" % (len(sent), len(msgs)), soft=True)
        # control frames this side wrote (payload as the peer will read it)
        ctl = [(f.opcode, f.payload if side.apply_mask() else f.raw_payload, k) for k, f in enumerate(frames)
               if f.opcode in ref.CONTROL_OPS]
        wire_pings = [p for (op, p, k) in ctl if op == ref.OP_PING]
        side.wire_pings = wire_pings
        side.wire_pongs = [p for (op, p, k) in ctl if op == ref.OP_PONG]
        if self.cfg.get("autoping"):
            R.count("autopings_on_wire", len(wire_pings))
        elif wire_pings != side.pings:
            if wire_pings == side.pings[:len(wire_pings)]:
                cand(nfr, "sender/ping-missing", None, "pings sent %d, on the wire %d" % (len(side.pings), len(wire_pings)), soft=True)
            else:
                k = nfr
                for i, (pl, kk) in enumerate([(pl, kk) for (op, pl, kk) in ctl if op == ref.OP_PING]):
                    if i >= len(side.pings) or side.pings[i] != pl:
                        k = kk
                        break
                cand(k, "sender/ping-mismatch", None, "pings sent %d, on the wire %d, first difference at frame %d" % (
                    len(side.pings), len(wire_pings), k))
        R.count("pings_compared", len(wire_pings))
        for (op, p, k) in ctl:
            if op == ref.OP_CLOSE:
                cand(k, "sender/unexpected-close-frame", None, "a close frame was written during valid traffic")
                break
        if not cands:
            return None
        cands.sort(key=lambda c: (c[0], c[6], c[1]))        # earliest first; at the same place a hard problem wins
        pos, order, clause, rec, what, detail, soft = cands[0]
        return (pos, order, clause, rec, what, dict(detail or {}, later_problems=[c[2] for c in cands[1:6]]), soft)

    def _compare_delivery(self, d, sent, got):
        R = self.R
        skeys = [(r["binary"], r["sha"], r["len"]) for r in sent]
        gkeys = [(b, cw.sha(p), len(p)) for (p, b) in got]
        R.count("messages_compared", max(len(skeys), len(gkeys)))
        if skeys == gkeys:
            return
        by_tag = {r["tag"]: r for r in sent if r["tag"]}
        from collections import Counter
        sc, gc = Counter(skeys), Counter(gkeys)
        # 1. something delivered that was never sent
        for j, k in enumerate(gkeys):
            if gc[k] > sc.get(k, 0) and k not in sc:
                tag = cw.tag_of(got[j][0])
                rec = by_tag.get(tag)
                if rec is None and j < len(sent):
                    rec = sent[j]
                    tagless = True
                else:
                    tagless = False
                if rec is not None and (not rec["binary"], rec["sha"], rec["len"]) == k:
                    clause = "type-flipped"
                elif rec is not None and not tagless:
                    clause = "altered"
                elif rec is not None and rec["tag"] is None:
                    clause = "altered"
                else:
                    clause = "phantom"
                self.violation(d, "delivery/" + clause, rec, "delivery #%d (%s, %d octets, sha %s) matches no sent message; %s" % (
                    j, "binary" if k[0] else "text", k[2], k[1],
                    ("%s sent #%d (%s, %d octets, sha %s)" % ("no readable tag; at this position the application" if tagless
                                                               else "its tag belongs to", rec["idx"],
                                                               "binary" if rec["binary"] else "text", rec["len"], rec["sha"])) if rec else "no tag"),
                    {"got_head": got[j][0][:48].hex(), "sent_head": rec["payload"][:48].hex() if rec else None})
                return
        for j, k in enumerate(gkeys):
            if gc[k] > sc.get(k, 0):
                rec = next(r for r in sent if (r["binary"], r["sha"], r["len"]) == k)
                self.violation(d, "delivery/duplicate", rec, "sent #%d delivered %d times (sent %d times)" % (rec["idx"], gc[k], sc[k]))
                return
        for i, k in enumerate(skeys):
            if sc[k] > gc.get(k, 0):
                self.violation(d, "delivery/missing", sent[i], "sent #%d (%s, %d octets, api %s) never delivered; %d of %d messages arrived" % (
                    sent[i]["idx"], "binary" if k[0] else "text", k[2], sent[i]["api"], len(gkeys), len(skeys)))
                return
        i = next(i for i, (a, b) in enumerate(zip(skeys, gkeys)) if a != b)
        self.violation(d, "delivery/reordered", sent[i], "same messages, different order from position %d on" % i)

    # -- whole case ---------------------------------------------------------------------------
    def run(self):
        R = self.R
        R.count("evaluations")
        try:
            self.setup()
            ok = self.handshake()
            both_opened = all(sd.proto is not None for sd in self.sides)      # onOpen seen on both ends
            if ok:
                if self.kind == "cuts":
                    self.drive_cuts()
                else:
                    self.drive()
            if both_opened:
                # also when a connection died right after onOpen: what the onOpen handlers sent is judged
                # like any other traffic (sender fault, else 'not-open-at-end' with the closing side's reason)
                self.judge()
            else:
                from vf.ws import app_events
                self.violation("-", "open-failed", None, "opening handshake between compatible endpoints failed: mask=%s pmce=%s escaped=%r client=%r server=%r" % (
                    self.cfg["mask"], self.cfg["pmce"], self.ws.world.escaped,
                    [e[1:] for e in app_events(self.client.ep)][-2:], [e[1:] for e in app_events(self.server.ep)][-2:]))
        finally:
            ws = getattr(self, "ws", None)
            if ws is not None and hasattr(ws.world, "close"):
                ws.world.close()
        self.report()
        return self

    def plan_summary(self):
        out = {}
        for side in self.sides:
            out[side.direction] = [(r["api"], r["len"], "b" if r["binary"] else "t", r["feat"], "onopen" if r["onopen"] else "") for r in side.sent]
        return out

    def report(self):
        R = self.R
        cfg = self.cfg
        R.count("fw_" + self.ws.world.fw)
        cfg_sum = {k: cfg[k] for k in ("pmce", "pmce_opts", "mask", "utf8", "autofrag", "style", "pings", "hs_seg")}
        for key, what, detail, d, clause in self.viol:
            detail = dict(detail)
            detail.update(cfg=cfg_sum, kind=self.kind, fw=self.ws.world.fw, plan=self.plan_summary(),
                          seg={sd.direction: sd.seg.policy for sd in self.sides if sd.seg})
            R.violation(key, what, detail, self.case)
        n_cmp = sum(len(sd.sent) for sd in self.sides)
        R.seen("options", "%s/%s/utf8=%s" % (cfg["pmce"], cfg["mask"], cfg["utf8"]))
        R.seen("styles", "%s/%s" % (self.kind, cfg["style"]))
        for sd in self.sides:
            if sd.seg:
                R.seen("seg_policies", sd.seg.policy)
                R.count("read_events", sd.seg.reads)
        if n_cmp and not any(self.sender_fault.values()):
            plan = [[(r["api"], _len_class(r["len"]), r["binary"]) for r in sd.sent] for sd in self.sides]
            R.seen("nontrivial", h([self.kind, cfg_sum, plan, [sd.seg.policy for sd in self.sides], self.case.get("cut"),
                                    self.case.get("glue"), self.case.get("burst")]))
            R.sample({"case": self.case, "cfg": cfg_sum, "plan": self.plan_summary(),
                      "seg": {sd.direction: sd.seg.policy for sd in self.sides},
                      "octets": {sd.direction: len(sd.ep.all_out) for sd in self.sides}}, kind=self.kind, every=37)


def _len_class(n):
    if n <= 125:
        return "7:%d" % n if n in (0, 1, 2, 124, 125) else "7"
    if n <= 0xFFFF:
        return "16:%d" % n if n in (126, 127, 65534, 65535) else "16"
    return "64:%d" % n if n in (65536, 65537) else "64"


# ================================================================================================
# early data: frames in the same segment as the client's opening request (server-side hand-over)
# ================================================================================================

def run_early(case, R):
    from vf.ws import WS, app_events, is_open

    R.count("evaluations")
    rng = random.Random("c01/early/%s" % case["seed"])
    random.seed("c01-lib/early/%s" % case["seed"])
    w = WS()
    try:
        sf = w.server_factory(options={"utf8validateIncoming": rng.random() < 0.8})
        req, key = ref.client_request(key=ref.new_key(rng))
        msgs, wire = [], b""
        for i in range(rng.randint(1, 4)):
            n = rng.choice([0, 1, 2, 5, 7, 125, 126, 300])
            binary = rng.random() < 0.5
            p = cw.make_payload(case["seed"], "c2s", i, n, binary, "mixed")
            msgs.append((p, binary))
            parts = _split(rng, n, rng.choice([1, 1, 2, 3]), allow_zero=True)
            pos = 0
            for k, sz in enumerate(parts):
                wire += ref.encode_frame((2 if binary else 1) if k == 0 else 0, p[pos:pos + sz], fin=(k == len(parts) - 1),
                                         mask=rng.randbytes(4))
                pos += sz
        mode = case.get("glue", "one")
        if mode == "one":
            chunks = [req + wire]
        else:
            k = min(int(mode), len(wire))
            chunks = [req + wire[:k], wire[k:]]
        s = w.attach(sf, "server")
        for ch in chunks:
            if ch:
                s.feed(ch)
                w.world.settle()
        R.count("early_data_cases")
        got = [(bytes(e[2]), bool(e[3])) for e in app_events(s, ("onMessage",))]
        R.count("messages_compared", len(msgs))
        det = {"mode": mode, "sent": [(p[:24].hex(), b) for p, b in msgs], "got": [(p[:24].hex(), b) for p, b in got]}
        if not is_open(s) or s.escaped:
            R.violation("C01/c2s/handover/server-not-open", "server did not stay OPEN after request+frames in one segment: state=%r escaped=%r onClose=%r" % (
                s.proto.state, s.escaped, [e[2:] for e in app_events(s, ("onClose",))]), det, case)
        elif got != msgs:
            clause = "missing" if len(got) < len(msgs) else ("phantom" if len(got) > len(msgs) else "altered")
            R.violation("C01/c2s/handover/%s" % clause, "frames following the opening request in the same segment: sent %d messages, delivered %d, equal=%s" % (
                len(msgs), len(got), got == msgs), det, case)
        else:
            R.seen("nontrivial", h(["early", mode, [(len(p), b) for p, b in msgs]]))
    finally:
        if hasattr(w.world, "close"):
            w.world.close()


# ================================================================================================
# entry points
# ================================================================================================

def run_case(case, R):
    if case["kind"] == "early":
        return run_early(case, R)
    return CaseRun(case, R).run()


def _startup(R, params):
    cw.selfcheck()
    R.note("reference_selfcheck", True)
    import autobahn.websocket as W
    want_nvx = params.get("nvx", True)
    if want_nvx:
        build_nvx.assert_fresh()
    if bool(W.USES_NVX) != bool(want_nvx):
        raise RuntimeError("NVX selection mismatch: USES_NVX=%r wanted %r" % (W.USES_NVX, want_nvx))
    R.count("nvx_workers" if want_nvx else "pure_workers")


def run_shard(params, R):
    import time
    _startup(R, params)
    tier, seed, part, parts = params["tier"], params["seed"], params["part"], params["parts"]
    fw = params["fw"]
    base = "%d/%s/%d/%s" % (seed, fw, part, "n" if params.get("nvx", True) else "p")
    rng = random.Random("c01-shard/" + base)
    t0 = time.time()
    n = 0

    def S():
        nonlocal n
        n += 1
        return "%s/%d" % (base, n)

    # 1. systematic grid: border length x API x direction (sharded)
    grid = []
    lengths = BORDER_LENGTHS + (THOROUGH_LENGTHS if tier == "thorough" and params.get("nvx", True) else [])
    for L in lengths:
        for api in APIS:
            for d in ("c2s", "s2c"):
                grid.append((L, api, d))
    if params.get("mini"):
        grid = [g for g in grid if g[0] in (0, 125, 126, 65535, 65536)]
    for gi, (L, api, d) in enumerate(grid):
        if gi % parts != part:
            continue
        force = {"length": L, "api": api, "dir": d}
        if L > 70000:
            force["cfg"] = {"logging": False}
        run_case({"kind": "pair", "seed": S(), "tier": tier, "force": force}, R)
    # fragment sizes around n for sendMessage, autoFragmentSize on the borders
    for gi, (L, fs_off) in enumerate([(L, o) for L in (2, 125, 126, 127, 65535, 65536, 65537) for o in (-1, 0, 1)]):
        if gi % parts != part:
            continue
        for d in ("c2s", "s2c"):
            run_case({"kind": "pair", "seed": S(), "tier": tier,
                      "force": {"length": L, "api": "msg-frag", "dir": d, "fs": max(1, L + fs_off)}}, R)
            role = "client" if d == "c2s" else "server"
            run_case({"kind": "pair", "seed": S(), "tier": tier,
                      "force": {"length": L, "api": "msg", "dir": d,
                                "cfg": {"autofrag": {role: max(1, L + fs_off), ("server" if role == "client" else "client"): 0}}}}, R)
    # 1b. permessage-deflate takeover matrix: wire {client,server}_no_context_takeover x unilateral overrides x
    #     window sizes, several messages each way whose bodies repeat earlier bodies (back-references)
    combos = [(cn, sn, cl, sl) for cn in (0, 1) for sn in (0, 1) for cl in (0, 1) for sl in (0, 1)]
    for rep_i in range(6 if tier == "thorough" else (1 if params.get("mini") else 2)):
        for ci, (cn, sn, cl, sl) in enumerate(combos):
            if (ci + rep_i) % parts != part:
                continue
            po = {"c_nct": bool(cn), "s_nct": bool(sn), "c_local": bool(cl), "s_local": bool(sl),
                  "c_wb": rng.choice([0, 0, 9, 12, 15]), "s_wb": rng.choice([0, 0, 9, 11, 15])}
            run_case({"kind": "pair", "seed": S(), "tier": tier, "balanced": True, "echo": True,
                      "n_msgs": rng.choice([6, 10, 16]), "force": {"cfg": {"pmce": "mix", "pmce_opts": po}}}, R)
    phase = {"grid": round(time.time() - t0, 1)}
    thorough = tier == "thorough"
    mini = bool(params.get("mini"))
    # 2. glue: first frames in the segment of the opening handshake response
    t1 = time.time()
    for i in range(100 if thorough else (10 if mini else 24)):
        for glue in ("one", "nodrain", str(rng.choice([0, 1, 2, 3, 5, 6, 7, 9, 13]))):
            run_case({"kind": "glue", "seed": S(), "tier": tier, "glue": glue,
                      "n_msgs": rng.choice([2, 3, 5, 8])}, R)
    phase["glue"] = round(time.time() - t1, 1)
    # 3. early data at the server
    t1 = time.time()
    for i in range(100 if thorough else (6 if mini else 12)):
        for glue in ("one", "1", "2", "5", "6", "7"):
            run_case({"kind": "early", "seed": S(), "glue": glue}, R)
    phase["early"] = round(time.time() - t1, 1)
    # 4. every cut position of short streams (every pair of cut positions for some of them in thorough)
    t1 = time.time()
    for i in range(20 if thorough else (3 if mini else 6)):
        cs = S()
        probe = CaseRun({"kind": "cuts", "seed": cs, "tier": tier}, R).run()
        lens = getattr(probe, "stream_len", {})
        for d in ("c2s", "s2c"):
            L = lens.get(d, 0)
            if L < 2 or L > 64 + 16:
                continue
            for c in range(1, L):
                run_case({"kind": "cuts", "seed": cs, "tier": tier, "cut": [d, c]}, R)
                if fw == "aio":     # the same cut as two chunks queued in front of the adapter's consumer
                    run_case({"kind": "cuts", "seed": cs, "tier": tier, "cut": [d, c], "burst": True}, R)
            R.count("streams_cut_exhaustively")
            if thorough and i < 6:
                for c1 in range(1, L):
                    for c2 in range(c1 + 1, L):
                        run_case({"kind": "cuts", "seed": cs, "tier": tier, "cut": [d, c1, c2]}, R)
                        if fw == "aio" and i < 3:
                            run_case({"kind": "cuts", "seed": cs, "tier": tier, "cut": [d, c1, c2], "burst": True}, R)
                R.count("streams_cut_pairs_exhaustively")
    phase["cuts"] = round(time.time() - t1, 1)
    # 5. random cases
    t1 = time.time()
    # fixed amounts of work, not wall time: the same seed runs the same cases on a loaded machine too
    n_rand = 350 if not thorough else 4000
    for i in range(n_rand):
        kind = "glue" if rng.random() < 0.12 else "pair"
        case = {"kind": kind, "seed": S(), "tier": tier}
        if kind == "glue":
            case["glue"] = rng.choice(["one", "one", "nodrain", str(rng.randint(0, 20))])
        run_case(case, R)
        R.count("random_cases")
    phase["random"] = round(time.time() - t1, 1)
    R.note("phase_wall_s_first_shard", phase)
    for k in DECIDING:
        R.count(k, 0)


def replay(case, R):
    cw.selfcheck()
    run_case(case, R)


MANIFEST_ENTRY = {
    "text": ("The library's client and server (Twisted and asyncio adapters, NVX and pure-Python builds) exchange tagged "
             "messages through a harness-owned byte pipe: every application send (message, frame, streaming, prepared and "
             "raw-frame API used as documented; fragment sizes and payload lengths on all length-encoding borders; masking, "
             "applyMask, UTF-8 validation and permessage-deflate options with their documented semantics; sync/chopped "
             "writes) is compared with (a) the sender's wire, parsed, unmasked, defragmented and inflated (negotiated window "
             "and context take-over) by an independent RFC 6455/7692 reference that also enforces the frame rules (minimal "
             "lengths, continuation discipline, control frames, mask bit and key, RSV1), and (b) the receiver's onMessage "
             "log, under whole/bytewise/random/frame-border segmentations, interleaved directions and queued-write timers, "
             "frames glued to the handshake, and every cut position of short streams. Held = no mismatch, no escaped "
             "exception, both ends OPEN on the executions listed in the evidence (four sender-side defects this check "
             "found - streaming API under permessage-deflate, prepared messages with applyMask=False, sendFrame with an "
             "explicit mask key, beginMessage/endMessage without a frame - are repaired in the tree and their triggers are "
             "part of the regular workload); not a proof."),
    "note": "trusts vf/rfc6455_ref.py, vf/c01_wire.py (self-checked against the RFC examples and each other), zlib; payloads > 4 MiB, TLS, real sockets, mixed-framework pairs and application-called sendPing/sendClose inside a half-streamed frame (API misuse) are not driven; streaming-API grey zones (zero-length frame completion, sign of the over-long-chunk return value) are accepted either way",
    "technique": "runtime monitoring: tagged-history comparison (send log = reference-parsed wire = receive log) over generated and exhaustively cut executions on a virtual clock",
}
