"""C17 - silent peers are dropped on time, responsive peers never.

Monitor shape: invariant on a virtual time line + deadline book (vf/c17_sim.py).  One *time line* =
one real autobahn endpoint (server or client, Twisted or asyncio adapter) on a fake transport and
the virtual clock; the harness plays the peer and the application.  The book of deadlines is built
only from the configuration and from boundary observations (our close frame / auto-ping on the
wire, connection-made, the scripted reactions of the peer); the library's timer handles are never
read.  Verdicts are one-sided (the factories' batched timer floors deadlines to whole seconds, so
a timeout may fire up to <1 s early and never late - the statement grants exactly that second).
"""

import logging
import random

from vf import build_nvx
from vf.runner import h

PROPERTY = "C17"
LEVEL = "exploration"
EXHAUSTIVE = False
RULE = ("time lines enumerated from a grid: openHandshakeTimeout, closeHandshakeTimeout, serverConnectionDropTimeout, "
        "autoPingInterval, autoPingTimeout in {0,1,2,3,5,10}, autoPingRestartOnAnyTraffic, both roles, connection made "
        "at 3 phases of the whole-second timer grid (0, .37, .75); every peer reaction (handshake octets whole / split, "
        "close reply, TCP drop, pong, wrong / stale pong, data frame, fragment, peer ping; for a client behind an explicit HTTP proxy "
        "also the proxy's answer to CONNECT whole / split / denied) placed on a 0.25 s lattice "
        "from 2 s before to 1.5 s after its deadline, and - where it coincides with the instant the timer fires - "
        "before the timer, after it, and (asyncio) inside the same loop iteration; the closing handshake started by the "
        "application (sendClose, also from onOpen) and by the LIBRARY failing the connection with failByDrop=False (reserved "
        "opcode, RSV bit, invalid UTF-8 text, message over maxMessagePayloadSize); every timer family also with a peer that no "
        "longer reads while our write buffer is non-empty (graceful transport close never / late completes: the drop must be "
        "abortive); application using the frame streaming API with ping ticks inside / between streamed frames; a server that "
        "keeps sending close / data / ping frames after the closing handshake instead of dropping TCP; races of two timers (close while a "
        "ping is pending, auto-ping falling due while CLOSING, peer close while a ping is pending, protocol violation "
        "while a ping is pending, delayed connection-lost after our loseConnection); plus seeded random time lines over "
        "the full option grid. After CLOSED every remaining timer is fired and the clock advanced by one hour. "
        "A time line is non-trivial when at least one deciding monitor fired in it (a deadline judged on a silent peer, "
        "a responsive peer still connected 1 s after its deadline, an auto-ping interval measured, a timer fired after "
        "CLOSED); distinct = hash of (framework, whole case).")
ASSUMPTIONS = [
    "time is virtual only (twisted task.Clock / asyncio loop with overridden time()); no wall-clock verdicts",
    "deadline D = arming instant + configured timeout; a drop is on time iff it happens in (D-1, D]; a peer reaction with "
    ">= 1 s to spare cancels the deadline, a reaction with less margin makes it grey (both outcomes accepted)",
    "arming instants: connection-made (open), our initiating close frame on the wire (close), completion of the closing "
    "handshake for a client (server-drop), auto-ping on the wire (ping)",
    "a pong / data frame that arrives after either side has sent a close frame only greys the ping deadline (the statement "
    "does not say whether it must still count)",
    "auto-ping cadence is asserted only while OPEN and relative to 'connection opened' / 'previous ping answered'; pings after "
    "an unanswered ping with autoPingTimeout=0 are not demanded",
    "timeout value 0 = timer disabled (documented); then only 'never dropped by that timer' is checked",
    "transport: abortConnection()/abort() delivers connection-lost at once; loseConnection()/close() after lost_delay (unflushed "
    "write buffer; 'never' = peer not reading, the transport only goes away at the horizon); a deadline counts as met when "
    "connection-lost is deliverable by D, not when the close was requested; "
    "no octets are delivered to the endpoint after it asked the transport to close",
    "the peer sends nothing after its own close frame except in the 'reclose' family (close_again / data_again / ping_again); "
    "deadlines are armed once and never re-armed by such frames",
    "an auto-ping whose tick falls while the application is inside a streamed frame may come as late as one interval after "
    "that frame was finished (the statement does not say whether it may interrupt the frame); the octets the application "
    "streams are not parsed, library-written frames are",
]
DECIDING = {
    "deadline_evaluated_open_server": 20, "deadline_evaluated_open_client": 20,
    "deadline_evaluated_close_server": 20, "deadline_evaluated_close_client": 20,
    "deadline_evaluated_drop_client": 20,
    # close frame sent by the LIBRARY to fail the connection (failByDrop=False), peer silent / answering in time
    "deadline_evaluated_failclose_server": 20, "deadline_evaluated_failclose_client": 20, "responsive_not_dropped_failclose": 10,
    "failclose_kinds": 8,
    # client behind an explicit HTTP proxy: proxy silent or half-answering (STATE_PROXY_CONNECTING) / answered, server silent
    # auto-ping cadence judged on time lines where the application was inside a streamed frame around the tick; server-drop
    # deadline judged although the server kept sending close frames after the closing handshake
    "ping_intervals_measured_streaming": 100, "pings_written_at_frame_completion": 20, "streamed_frames_begun": 100,
    "deadline_evaluated_drop_after_repeated_close": 50, "close_frames_after_peer_close": 100,
    # timer-initiated drops judged while the write buffer cannot be flushed (only an abortive close ends the connection)
    "timer_drops_unflushable_buffer": 100, "unflushable_timer_kinds": 7,
    "deadline_evaluated_open_proxy_pending": 20, "deadline_evaluated_open_proxy_answered": 20, "responsive_not_dropped_open_proxy": 10,
    "deadline_evaluated_ping_server": 20, "deadline_evaluated_ping_client": 20,
    "timer_drops_evaluated": 200,
    "responsive_not_dropped_open": 100, "responsive_not_dropped_close": 50, "responsive_not_dropped_drop": 10,
    "responsive_not_dropped_ping": 50,
    "ping_intervals_measured": 200,
    "postclose_checks": 1000, "postclose_timer_steps": 50, "closed_not_lost_timer_steps": 10,
    "same_instant_races": 50, "same_iteration_steps": 5,
    "roles_fw": 4,
}

GRID = [0, 1, 2, 3, 5, 10]
T0S = [0.0, 0.37, 0.75]
HS_AT = 0.25            # the peer completes the opening handshake (when the case is not about it)
CLOSE_AT = 0.75         # we / the peer start the closing handshake (when the case is not about its timing)


# ------------------------------------------------------------------------------------------------
# case generation
# ------------------------------------------------------------------------------------------------
def lattice(d):
    """Reaction offsets (relative to the arming instant) around a deadline ``d`` seconds away."""
    if d <= 0:
        return [0.25, 1.0, 2.5]
    pts = [d - 2, d - 1.5, d - 1.25, d - 1, d - 0.75, d - 0.5, d - 0.25, d, d + 0.25, d + 0.75, d + 1.5]
    return sorted(set(x for x in pts if x >= 0))


def placements(t0, arm_rel, d, off):
    """Ordering modes for a reaction at arm_rel+off: where it can coincide with the firing instant of a
    whole-second timer (t0 on the .25 lattice and the instant inside (D-1, D]) all three orders are produced."""
    if d > 0 and t0 in (0.0, 0.75) and d - 1 < off <= d:
        t_abs = t0 + arm_rel + off
        if abs(t_abs - round(t_abs)) < 1e-9:
            return [False, True, "iter"]
    return [False]


def opts_base(**kw):
    o = {"openHandshakeTimeout": 5, "closeHandshakeTimeout": 1, "autoPingInterval": 0, "autoPingTimeout": 0}
    o.update(kw)
    return o


def fam_open():
    for role in ("server", "client"):
        for oht in GRID:
            for t0 in T0S:
                o = opts_base(openHandshakeTimeout=oht)
                hz = max(oht, 1) + 3
                yield {"fam": "open/silent", "role": role, "opts": o, "t0": t0, "acts": [], "horizon": hz}
                for off in lattice(oht):
                    for b in placements(t0, 0.0, oht, off):
                        yield {"fam": "open/hs", "role": role, "opts": o, "t0": t0, "acts": [[off, "hs", b]], "horizon": hz}
                        yield {"fam": "open/hs-split", "role": role, "opts": o, "t0": t0,
                               "acts": [[0.0, "hs_a", True], [off, "hs_b", b]], "horizon": hz}
                    yield {"fam": "open/peer-drop", "role": role, "opts": o, "t0": t0, "acts": [[off, "drop"]], "horizon": hz}
                # first half only: still silent as far as the handshake is concerned
                yield {"fam": "open/half-only", "role": role, "opts": o, "t0": t0, "acts": [[0.25, "hs_a"]], "horizon": hz}
                if role == "client":
                    # explicit HTTP proxy: CONNECT first (STATE_PROXY_CONNECTING); the deadline runs from connection-made
                    px = {"role": "client", "proxy": True, "opts": o, "t0": t0, "horizon": hz}
                    yield dict(px, fam="open/proxy/silent", acts=[])
                    yield dict(px, fam="open/proxy/partial-answer", acts=[[0.25, "px_a"]])
                    yield dict(px, fam="open/proxy/denied", acts=[[0.25, "px_deny"]])
                    for off in lattice(oht):
                        for b in placements(t0, 0.0, oht, off):
                            # proxy answers at off, the server behind it stays silent / answers 0.25 s later
                            yield dict(px, fam="open/proxy/answer-then-silent-server", acts=[[off, "px", b]])
                            yield dict(px, fam="open/proxy/split-answer", acts=[[0.0, "px_a", True], [off, "px_b", b]])
                            yield dict(px, fam="open/proxy/answer-then-hs", acts=[[off, "px", b], [off + 0.25, "hs"]])
                            # proxy answers at once, the server completes at off
                            yield dict(px, fam="open/proxy/early-answer-hs-at", acts=[[0.0, "px", True], [off, "hs", b]])
                        yield dict(px, fam="open/proxy/peer-drop", acts=[[off, "drop"]])


def _start_close(how, c):
    """(onopen, acts) that make US initiate the closing handshake at t_rel c."""
    if how == "onopen":
        return "close", []
    if how == "api":
        return None, [[c, "api_close"]]
    return None, [[c, how]]         # violation by the peer (bad | bad_rsv | bad_utf8 | big): we FAIL the connection with a close frame


def fam_close():
    for role in ("server", "client"):
        for cht in GRID:
            for t0 in T0S:
                for how, c in (("api", CLOSE_AT), ("onopen", HS_AT), ("bad", CLOSE_AT), ("bad_rsv", CLOSE_AT), ("bad_utf8", 1.5),
                               ("big", CLOSE_AT), ("bad", 2.25)):
                    onopen, acts0 = _start_close(how, c)
                    o = opts_base(closeHandshakeTimeout=cht, serverConnectionDropTimeout=2)
                    if how not in ("api", "onopen"):
                        # the LIBRARY starts the closing handshake (1002 / 1007 / 1009); failByDrop defaults to True = drop at once
                        o.update(failByDrop=False, maxMessagePayloadSize=64)
                    base = {"role": role, "opts": o, "t0": t0, "onopen": onopen, "horizon": c + max(cht, 1) + 6}
                    a0 = [[HS_AT, "hs"]] + acts0
                    yield dict(base, fam="close/silent/" + how, acts=a0)
                    for off in lattice(cht):
                        for b in placements(t0, c, cht, off):
                            yield dict(base, fam="close/reply/" + how, acts=a0 + [[c + off, "close", b]])
                        yield dict(base, fam="close/peer-drop/" + how, acts=a0 + [[c + off, "drop"]])
                    for off in (lattice(cht)[0], lattice(cht)[len(lattice(cht)) // 2]):
                        # traffic that is not a close reply does not count
                        yield dict(base, fam="close/data-no-reply/" + how, acts=a0 + [[c + off, "data"], [c + off + 0.25, "ping"]])
    # client: the server replied in time, now it has to drop TCP
    for scdt in GRID:
        for t0 in T0S:
            for cht in (0, 2, 10):
                for reply_off in (0.25, 0.75):
                    o = opts_base(closeHandshakeTimeout=cht, serverConnectionDropTimeout=scdt)
                    r = CLOSE_AT + reply_off
                    base = {"role": "client", "opts": o, "t0": t0, "horizon": r + max(scdt, 1) + 4}
                    a0 = [[HS_AT, "hs"], [CLOSE_AT, "api_close"], [r, "close"]]
                    yield dict(base, fam="drop/silent", acts=a0)
                    for off in lattice(scdt):
                        for b in placements(t0, r, scdt, off):
                            yield dict(base, fam="drop/server-drops", acts=a0 + [[r + off, "drop_clean" if off % 0.5 else "drop", b]])


def fam_peer_close():
    for role in ("server", "client"):
        for t0 in T0S:
            for scdt in (GRID if role == "client" else [1]):
                for lost_delay in (None, 0.5, 3.0):
                    for ping in ((0, 0), (1, 1), (2, 2), (1, 5)):
                        o = opts_base(serverConnectionDropTimeout=scdt, autoPingInterval=ping[0], autoPingTimeout=ping[1])
                        base = {"role": role, "opts": o, "t0": t0, "lost_delay": lost_delay, "horizon": 3 + max(scdt, 1) + 6}
                        for c in (CLOSE_AT, 1.75, 2.75):
                            a0 = [[HS_AT, "hs"], [c, "close"]]
                            yield dict(base, fam="peer-close/silent", acts=a0)
                            if role == "client":
                                for off in lattice(scdt):
                                    for b in placements(t0, c, scdt, off):
                                        yield dict(base, fam="peer-close/server-drops", acts=a0 + [[c + off, "drop", b]])


PING_KINDS = ("pong", "data", "dataf", "pong_wrong", "pong_stale", "ping")


def fam_ping():
    for role in ("server", "client"):
        for I in (1, 2, 3, 5, 10):
            for T in GRID:
                for restart in (True, False):
                    for t0 in T0S:
                        o = opts_base(autoPingInterval=I, autoPingTimeout=T, autoPingRestartOnAnyTraffic=restart)
                        hz = HS_AT + 3 * I + 3 * max(T, 1) + 4
                        base = {"role": role, "opts": o, "t0": t0, "acts": [[HS_AT, "hs"]], "horizon": hz}
                        yield dict(base, fam="ping/silent", rules=[])
                        # every ping answered quickly: cadence
                        yield dict(base, fam="ping/answered", rules=[{"on": "ping", "delay": 0.25, "do": "pong", "first": 0, "count": 4}],
                                   horizon=HS_AT + 5 * I + 4 + max(T, 1))
                        for kind in PING_KINDS:
                            offs = lattice(T) if kind in ("pong", "data") else lattice(T)[1::3]
                            for off in offs:
                                for nth in ((0, 1) if kind == "pong" else (1,)):
                                    rules = []
                                    if nth:
                                        rules.append({"on": "ping", "delay": 0.25, "do": "pong", "first": 0, "count": nth})
                                    # the firing instant of the ping timeout depends on the ping instant (itself a whole second):
                                    # a reaction T-k whole seconds after the ping coincides with it -> all three orders
                                    modes = [False, True, "iter"] if (T > 0 and off == T) else [False]
                                    for b in modes:
                                        yield dict(base, fam="ping/%s" % kind,
                                                   rules=rules + [{"on": "ping", "delay": off, "do": kind, "first": nth, "count": 1, "before": b}])


def fam_races():
    for role in ("server", "client"):
        for t0 in T0S:
            # E1 we close while an auto-ping is unanswered; E4 protocol violation while a ping is unanswered
            for I, T in ((1, 2), (2, 3), (2, 5), (1, 10)):
                for cht in (1, 3, 10):
                    for trigger in ("api_close", "bad"):
                        for d in (0.25, 1.0, T - 0.25):
                            o = opts_base(autoPingInterval=I, autoPingTimeout=T, closeHandshakeTimeout=cht, serverConnectionDropTimeout=2,
                                          failByDrop=False)
                            base = {"role": role, "opts": o, "t0": t0, "acts": [[HS_AT, "hs"]], "horizon": I + T + cht + 8}
                            r0 = {"on": "ping", "delay": d, "do": trigger, "first": 0, "count": 1}
                            yield dict(base, fam="race/close-during-ping/silent", rules=[r0])
                            for off in (0.25, cht - 1, cht - 0.25, cht + 0.5):
                                if off > 0:
                                    yield dict(base, fam="race/close-during-ping/reply",
                                               rules=[r0, {"on": "ping", "delay": d + off, "do": "close", "first": 0, "count": 1}])
                            yield dict(base, fam="race/close-during-ping/pong-then-silent",
                                       rules=[r0, {"on": "ping", "delay": d + 0.25, "do": "pong", "first": 0, "count": 1}])
            # E2 an auto-ping falls due while we are CLOSING (nothing may be sent, nothing may be armed)
            for I, T in ((1, 1), (2, 1), (2, 2), (3, 5), (5, 0)):
                for cht in (2, 3, 5, 10):
                    for how in ("api", "bad", "onopen", "bad_utf8"):
                        c = HS_AT if how == "onopen" else CLOSE_AT
                        onopen, acts0 = _start_close(how, c)
                        o = opts_base(autoPingInterval=I, autoPingTimeout=T, closeHandshakeTimeout=cht, serverConnectionDropTimeout=2,
                                      failByDrop=False)
                        base = {"role": role, "opts": o, "t0": t0, "onopen": onopen, "horizon": c + cht + 8}
                        a0 = [[HS_AT, "hs"]] + acts0
                        yield dict(base, fam="race/ping-due-while-closing/silent", acts=a0)
                        for off in lattice(cht):
                            yield dict(base, fam="race/ping-due-while-closing/reply", acts=a0 + [[c + off, "close"]])
                        yield dict(base, fam="race/ping-due-while-closing/data", acts=a0 + [[c + 0.5, "data"], [c + 1.0, "pong"]])
            # E3 the peer closes while an auto-ping is unanswered (server: loseConnection with an unflushed buffer)
            for I, T in ((1, 1), (1, 2), (2, 3), (1, 5)):
                for lost_delay in (None, 0.5, 2.0, 6.0):
                    for d in (0.25, 0.75, T - 0.25):
                        for scdt in ((0, 1, 3, 10) if role == "client" else (1,)):
                            o = opts_base(autoPingInterval=I, autoPingTimeout=T, serverConnectionDropTimeout=scdt)
                            base = {"role": role, "opts": o, "t0": t0, "lost_delay": lost_delay, "acts": [[HS_AT, "hs"]],
                                    "horizon": I + T + scdt + 10}
                            yield dict(base, fam="race/peer-close-during-ping",
                                       rules=[{"on": "ping", "delay": d, "do": "close", "first": 0, "count": 1}])
                            yield dict(base, fam="race/peer-close-during-ping/then-drop",
                                       rules=[{"on": "ping", "delay": d, "do": "close", "first": 0, "count": 1},
                                              {"on": "ping", "delay": d + 0.5, "do": "drop", "first": 0, "count": 1}])
            # E5 failByDrop: protocol violation drops at once, all timers must stay quiet afterwards
            for I, T in ((1, 2), (2, 0)):
                o = opts_base(autoPingInterval=I, autoPingTimeout=T, failByDrop=True)
                yield {"fam": "race/fail-by-drop", "role": role, "opts": o, "t0": t0, "acts": [[HS_AT, "hs"], [I + 0.5, "bad"]],
                       "horizon": I + T + 6}
            # E6 handshake completes, open timeout must never fire later, whatever else happens
            for oht in (1, 2, 3):
                o = opts_base(openHandshakeTimeout=oht, autoPingInterval=1, autoPingTimeout=1)
                yield {"fam": "race/open-timer-vs-open-connection", "role": role, "opts": o, "t0": t0,
                       "acts": [[0.0, "hs", True]], "rules": [{"on": "ping", "delay": 0.0, "do": "pong", "first": 0, "count": 6, "before": True}],
                       "horizon": oht + 8}


def fam_unflushed():
    """Peer silent AND no longer reading while our write buffer is not empty (the application queued data / the handshake
    octets are still unsent): a graceful transport close never completes (lost_delay "never") or completes late.  Every
    timer-initiated drop must end the connection by its deadline all the same (i.e. be abortive) and be reported."""
    for role in ("server", "client"):
        for t0 in T0S:
            for ld in ("never", 3.0, 0.25):
                # open handshake
                for oht in (1, 2, 5):
                    o = opts_base(openHandshakeTimeout=oht)
                    b = {"role": role, "opts": o, "t0": t0, "lost_delay": ld, "horizon": oht + 4}
                    yield dict(b, fam="unflushed/open/silent", acts=[])
                    yield dict(b, fam="unflushed/open/half", acts=[[0.25, "hs_a"]])
                    if role == "client":
                        yield dict(b, fam="unflushed/open/proxy-silent", proxy=True, acts=[])
                        yield dict(b, fam="unflushed/open/proxy-answered", proxy=True, acts=[[0.25, "px"]])
                # closing handshake started by the application / by the library failing the connection
                for cht in (1, 3):
                    for how in ("api", "bad_utf8", "big"):
                        onopen, acts0 = _start_close(how, CLOSE_AT)
                        o = opts_base(closeHandshakeTimeout=cht, serverConnectionDropTimeout=2)
                        if how != "api":
                            o.update(failByDrop=False, maxMessagePayloadSize=64)
                        yield {"fam": "unflushed/close/" + how, "role": role, "opts": o, "t0": t0, "lost_delay": ld,
                               "acts": [[HS_AT, "hs"], [0.5, "api_send"]] + acts0, "horizon": cht + 6}
                # client waiting for the server to drop TCP (we initiated / the server initiated)
                if role == "client":
                    for scdt in (1, 3):
                        o = opts_base(closeHandshakeTimeout=5, serverConnectionDropTimeout=scdt)
                        b = {"role": role, "opts": o, "t0": t0, "lost_delay": ld, "horizon": scdt + 7}
                        yield dict(b, fam="unflushed/drop/we-initiated",
                                   acts=[[HS_AT, "hs"], [0.5, "api_send"], [CLOSE_AT, "api_close"], [1.25, "close"]])
                        yield dict(b, fam="unflushed/drop/peer-initiated", acts=[[HS_AT, "hs"], [0.5, "api_send"], [CLOSE_AT, "close"]])
                # auto-ping: the ping itself sits behind the queued data
                for I, T in ((1, 1), (2, 3), (1, 5)):
                    for restart in (True, False):
                        o = opts_base(autoPingInterval=I, autoPingTimeout=T, autoPingRestartOnAnyTraffic=restart)
                        b = {"role": role, "opts": o, "t0": t0, "lost_delay": ld, "acts": [[HS_AT, "hs"], [0.5, "api_send"]],
                             "horizon": 2 * I + 2 * T + 5}
                        yield dict(b, fam="unflushed/ping/silent", rules=[])
                        yield dict(b, fam="unflushed/ping/one-answer-then-silent",
                                   rules=[{"on": "ping", "delay": 0.25, "do": "pong", "first": 0, "count": 1},
                                          {"on": "ping", "delay": 0.5, "do": "api_send", "first": 0, "count": 1}])


def fam_stream():
    """The application uses the frame streaming API; auto-ping ticks fall inside a streamed frame, between two frames of a
    streamed message, or next to ordinary sendMessage() calls.  Every ping is answered: pings must keep coming at the
    interval while OPEN (a ping that falls inside a frame may be postponed until one interval after the frame is finished)."""
    for role in ("server", "client"):
        for t0 in T0S:
            for I, T in ((1, 0), (1, 2), (2, 1), (2, 5), (3, 0)):
                o = opts_base(autoPingInterval=I, autoPingTimeout=T)
                answer = {"on": "ping", "delay": 0.25, "do": "pong", "first": 0, "count": None}
                for nth_tick in (1, 2):            # the frame spans the 1st / 2nd ping tick after onOpen
                    tick = HS_AT + nth_tick * I
                    for lead, tail in ((0.5, 0.5), (0.25, 1.25), (0.75, 0.25), (0.5, I + 0.5)):
                        b, e = max(HS_AT + 0.25, tick - lead), tick + tail
                        base = {"role": role, "opts": o, "t0": t0, "rules": [answer], "horizon": e + 3 * I + 3}
                        mid = [[b + (e - b) * k / 4.0, "st_data"] for k in (1, 2, 3)]
                        yield dict(base, fam="stream/tick-inside-frame",
                                   acts=[[HS_AT, "hs"], [b, "st_begin"]] + mid + [[e, "st_end"]])
                        yield dict(base, fam="stream/tick-between-frames",
                                   acts=[[HS_AT, "hs"], [b, "st_frame"], [e, "st_frame"], [e + 0.25, "st_end"]])
                        yield dict(base, fam="stream/sendMessage-only", acts=[[HS_AT, "hs"], [b, "api_send"], [e, "api_send"]])
                        yield dict(base, fam="stream/two-frames-one-message",
                                   acts=[[HS_AT, "hs"], [b, "st_begin"], [tick + 0.125, "st_frame"], [e, "st_begin"], [e + 0.5, "st_end"]])
                # frame never finished: the peer answers what it gets, the connection stays open
                yield {"fam": "stream/frame-left-open", "role": role, "opts": o, "t0": t0, "rules": [answer],
                       "acts": [[HS_AT, "hs"], [HS_AT + 0.5, "st_begin"], [HS_AT + 1.5, "st_data"]], "horizon": HS_AT + 4 * I + 3}


def fam_reclose():
    """After the closing handshake is complete the server does not drop TCP but keeps sending frames (close frames again,
    data, pings) at intervals shorter / longer than serverConnectionDropTimeout: the drop deadline was armed ONCE."""
    for t0 in T0S:
        for scdt in (1, 2, 3, 5):
            for initiator in ("we", "peer"):
                for again in ("close_again", "data_again", "ping_again", "mixed"):
                    for gap in (0.5, scdt - 0.25, scdt + 0.5):
                        if gap <= 0:
                            continue
                        o = opts_base(closeHandshakeTimeout=2, serverConnectionDropTimeout=scdt)
                        if initiator == "we":
                            a0, r = [[HS_AT, "hs"], [CLOSE_AT, "api_close"], [1.25, "close"]], 1.25
                        else:
                            a0, r = [[HS_AT, "hs"], [CLOSE_AT, "close"]], CLOSE_AT
                        kinds = ["close_again", "data_again", "ping_again"] if again == "mixed" else [again]
                        acts = [[r + gap * (k + 1), kinds[k % len(kinds)]] for k in range(10) if r + gap * (k + 1) < r + 3 * scdt + 3]
                        yield {"fam": "reclose/%s/%s" % (initiator, again), "role": "client", "opts": o, "t0": t0,
                               "acts": a0 + acts, "horizon": r + 3 * scdt + 4}
                        # control: the server drops in time after some repeated frames
                        if gap < scdt - 1:
                            yield {"fam": "reclose/%s/%s/then-drops" % (initiator, again), "role": "client", "opts": o, "t0": t0,
                                   "acts": a0 + acts[:1] + [[r + scdt - 1.0, "drop"]], "horizon": r + 3 * scdt + 4}
    # server role: it drops at once after the handshake; frames after that must not resurrect anything
    for t0 in T0S:
        o = opts_base(closeHandshakeTimeout=2)
        yield {"fam": "reclose/server", "role": "server", "opts": o, "t0": t0, "lost_delay": 2.0,
               "acts": [[HS_AT, "hs"], [CLOSE_AT, "close"], [1.0, "close_again"], [1.5, "data_again"]], "horizon": 6}


FAMILIES = [("stream", fam_stream), ("reclose", fam_reclose), ("unflushed", fam_unflushed), ("open", fam_open), ("close", fam_close), ("peer-close", fam_peer_close), ("ping", fam_ping), ("races", fam_races)]

RKINDS = ["st_begin", "st_data", "st_end", "st_frame", "close_again", "data_again", "close_again", "api_send", "hs", "hs_a", "hs_b", "close", "drop", "drop_clean", "pong", "pong_wrong", "pong_stale", "data", "dataf", "ping", "bad",
          "bad_rsv", "bad_utf8", "big", "api_close"]


def gen_random(rng):
    role = rng.choice(("server", "client"))
    o = {"openHandshakeTimeout": rng.choice(GRID), "closeHandshakeTimeout": rng.choice(GRID),
         "autoPingInterval": rng.choice(GRID), "autoPingTimeout": rng.choice(GRID),
         "autoPingRestartOnAnyTraffic": rng.random() < 0.5}
    if role == "client":
        o["serverConnectionDropTimeout"] = rng.choice(GRID)
    o["failByDrop"] = rng.random() < 0.35       # the library default is True (fail = drop at once)
    if rng.random() < 0.5:
        o["maxMessagePayloadSize"] = 64
    if rng.random() < 0.1:
        o["autoPingSize"] = rng.choice((12, 16, 125))
    t0 = rng.choice((0.0, 0.37, 0.75, 0.5, 0.99, 0.001))
    acts = []
    t = 0.0
    proxy = role == "client" and rng.random() < 0.2
    if proxy and rng.random() < 0.8:
        t = rng.choice((0.0, 0.25, 0.75, 1.0, 1.75, 2.75))
        if rng.random() < 0.25:
            acts.append([0.0, "px_a", True])
            acts.append([t, "px_b", rng.choice((False, True, "iter"))])
        else:
            acts.append([t, rng.choice(("px", "px", "px", "px_a", "px_deny")), rng.choice((False, True, "iter"))])
    if rng.random() < 0.85:
        t = t + rng.choice((0.0, 0.25, 0.75, 1.0, 1.75))
        if rng.random() < 0.2:
            acts.append([t if proxy else 0.0, "hs_a", True])
            acts.append([t, "hs_b", rng.choice((False, True, "iter"))])
        else:
            acts.append([t, "hs", rng.choice((False, True, "iter"))])
    for _ in range(rng.choice((0, 0, 1, 1, 2, 3, 5))):
        t = t + rng.choice((0.0, 0.25, 0.25, 0.5, 0.75, 1.0, 1.25, 2.0, 3.25, 5.0))
        acts.append([t, rng.choice(RKINDS), rng.choice((False, False, True, "iter"))])
    rules = []
    if o["autoPingInterval"]:
        for _ in range(rng.choice((0, 1, 1, 2))):
            rules.append({"on": "ping", "delay": rng.choice((0.0, 0.25, 0.5, 0.75, 1.0, 1.25, 1.75, 2.0, 2.75, 4.0, 4.75, 9.0, 9.75, 10.0)),
                          "do": rng.choice(("pong", "pong", "pong", "data", "dataf", "pong_wrong", "pong_stale", "close", "api_close",
                                            "bad", "bad_utf8", "drop", "ping")),
                          "first": rng.choice((0, 0, 1, 2)), "count": rng.choice((1, 1, 2, 5, None)),
                          "before": rng.choice((False, False, True, "iter"))})
    case = {"fam": "random", "role": role, "proxy": proxy, "opts": o, "t0": t0, "acts": acts, "rules": rules,
            "onopen": "close" if rng.random() < 0.07 else None,
            "lost_delay": rng.choice((None, None, 0.25, 1.0, 3.0, 12.0, "never")),
            "horizon": t + rng.choice((3, 6, 12, 25))}
    return case


# ------------------------------------------------------------------------------------------------
def prepare(tier):
    try:
        build_nvx.build("ship")
    except Exception as e:
        print("CANNOT-BUILD: %s" % e)
        return False
    return True


def shards(tier, seed):
    out = []
    env_nvx = build_nvx.worker_env("ship")
    parts = 8 if tier == "quick" else 16
    for fw in ("tx", "aio"):
        for i in range(parts):
            out.append({"name": "%s-%d" % (fw, i), "fw": fw, "env": env_nvx, "timeout": 7200,
                        "params": {"tier": tier, "seed": seed, "part": i, "parts": parts, "nvx": 1}})
    if tier == "thorough":
        for fw in ("tx", "aio"):
            for i in range(2):
                out.append({"name": "%s-pure-%d" % (fw, i), "fw": fw, "env": {"AUTOBAHN_USE_NVX": "0"}, "timeout": 7200,
                            "params": {"tier": "pure", "seed": seed, "part": i, "parts": 2, "nvx": 0}})
    return out


def judge(case, R, fw, sample_every=1499):
    from vf import c17_sim as S

    R.count("evaluations")
    sim = S.run_case(case, R)
    R.seen("roles_fw", "%s/%s" % (case["role"], fw))
    R.seen("families", case.get("fam", "?"))
    o = case["opts"]
    R.seen("option_combinations", "%s/%s/%s/%s/%s/%s/%s" % (
        case["role"], o.get("openHandshakeTimeout"), o.get("closeHandshakeTimeout"), o.get("serverConnectionDropTimeout"),
        o.get("autoPingInterval"), o.get("autoPingTimeout"), o.get("autoPingRestartOnAnyTraffic")))
    if any(len(a) > 2 and a[2] in (True, "iter") for a in case.get("acts") or []) or any(
            r.get("before") in (True, "iter") for r in case.get("rules") or []):
        R.count("same_instant_races")
    for f in sim.fired:
        R.seen("monitors_fired", f)
    if sim.fired:
        R.seen("nontrivial", h([fw, case]))
    closes = [list(e[2:]) for e in S.app_events(sim.ep, ("onClose",))]
    R.sample({"case": case, "fw": fw, "dropped_at_rel": None if sim.dropped_at is None else sim.rel(sim.dropped_at),
              "drop": [sim.drop_how, sim.drop_cause], "auto_pings_at_rel": [sim.rel(t) for t, _ in sim.pings][:8],
              "onClose": closes, "monitors_fired": sorted(sim.fired)},
             kind=case.get("fam", "case").split("/")[0], every=sample_every)
    return sim


def run_shard(params, R):
    logging.disable(logging.CRITICAL)
    import txaio

    from vf import rfc6455_ref as ref

    ref.selfcheck()
    fw = "tx" if txaio.using_twisted else "aio"
    nvx = params.get("nvx", 1)
    if nvx:
        build_nvx.assert_fresh()
    import autobahn.websocket as W

    R.note("uses_nvx", bool(W.USES_NVX))
    if bool(W.USES_NVX) != bool(nvx):
        raise RuntimeError("NVX selection mismatch: wanted %s, USES_NVX=%s" % (nvx, W.USES_NVX))
    tier, part, parts, seed = params["tier"], params["part"], params["parts"], params["seed"]
    for k in DECIDING:
        if k not in ("roles_fw", "failclose_kinds", "unflushable_timer_kinds"):
            R.count(k, 0)
    # ---- enumerated families.  thorough: all of them; quick / pure: a seed-dependent residue class of each family
    stride = {"quick": 3, "pure": 12, "thorough": 1}[tier]
    idx = 0
    for name, gen in FAMILIES:
        for k, case in enumerate(gen()):
            if name in ("stream", "reclose", "unflushed") or (k + seed) % stride == 0:     # the small families always run in full
                if idx % parts == part:
                    judge(case, R, fw)
                    R.count("enumerated_cases")
                idx += 1
    # ---- seeded random time lines
    n_rand = {"quick": 1500, "pure": 1500, "thorough": 20000}[tier]
    rng = random.Random(seed * 1000003 + part * 7919 + (0 if fw == "tx" else 1) + (17 if tier == "pure" else 0))
    for _ in range(n_rand):
        judge(gen_random(rng), R, fw, sample_every=2999)
        R.count("random_cases")


def replay(case, R):
    logging.disable(logging.CRITICAL)
    import txaio

    from vf import c17_sim as S

    fw = "tx" if txaio.using_twisted else "aio"
    sim = S.Sim(case, R, trace=True)
    sim.run()
    R.count("evaluations")
    R.note("trace", [list(map(str, t)) for t in sim.trace][:200])
    R.note("fw", fw)


MANIFEST_ENTRY = {
    "text": ("Real server and client endpoints (Twisted and asyncio adapters) are run on a virtual clock against a scripted peer; "
             "a deadline book derived only from the configuration and from boundary observations (connection-made, our close "
             "frame / auto-ping on the wire, the peer's scripted reactions) decides online: silent peer => transport closed within "
             "(D-1 s, D] - and really gone by D even when the write buffer cannot be flushed, i.e. closed abortively - and "
             "onClose(False, 1006, reason naming that timer); peer reacting with >= 1 s to spare => never dropped by "
             "that timer; while OPEN the next auto-ping is on the wire within (ref+interval-1, ref+interval]; after CLOSED every "
             "remaining timer is fired and one more hour passes without any callback, write, transport call, state or "
             "close-result change. Workload: grid {0,1,2,3,5,10} of the five timeouts x restart-on-traffic x both roles x 3 phases "
             "of the whole-second timer grid (closing handshakes started by the application and by the library failing the connection "
             "with failByDrop=False; clients also behind an explicit HTTP proxy that stays silent, answers CONNECT partially, late or in "
             "time), each peer reaction on a 0.25 s lattice before/at/after its deadline (at = before, "
             "after and inside the timer's loop iteration), two-timer races, random time lines. Held = no deviation on the time "
             "lines listed in the evidence; not a proof."),
    "note": ("trusts the virtual clock / fake transports of vf/world.py and the frame codec vf/rfc6455_ref.py; one-sided tolerance "
             "of one second (timer granularity) as granted by the statement; reactions with less than 1 s to spare, and pongs/data "
             "after a close frame, are grey (both outcomes accepted); no real sockets, TLS or proxies"),
    "technique": "runtime monitoring: deadline-book invariant on virtual time lines (boundary observation of octets, transport close calls and app callbacks) over an enumerated timing lattice and seeded random schedules",
}
