"""C20 - end-to-end encrypted payloads are recovered exactly or rejected.

Monitor shape: history + reference rule + fault enumeration.  An ORIGINATOR and a RESPONDER session (REAL
``ApplicationSession`` objects behind REAL client transports: WebSocket / RawSocket, Twisted / asyncio, four
serializers) are joined by a forwarding stub that plays the router with plain WAMP lists (``vf.c20_pair``):
PUBLISH -> EVENT, CALL -> INVOCATION, YIELD -> RESULT, ERROR -> ERROR.  Both sessions carry a real
``autobahn.wamp.cryptobox.KeyRing`` built from key material the harness generated itself.

What decides (nothing of it uses autobahn's KeyRing or message classes):

* the KEYRING RULE is re-stated in ``vf.c20_pair.ref_key/ref_has_box`` (longest registered prefix, else the default
  key, else none; originator box needs originator private key, responder box the responder private key);
* every message a session WRITES is read back from the octets of the real transport; when the rule says "encrypted"
  the payload must open - with PyNaCl directly, under the key the rule names - to exactly ``{uri, args, kwargs}`` of
  the application call, and no clear argument may travel next to it;
* every argument carries unique tags (text, 52-bit integers, doubles, binaries); the tags of a payload the rule
  says is encrypted are searched - raw, and in json / msgpack / cbor / ubjson item encoding - in ALL octets both
  transports write;
* the receiving application (event handler, endpoint, on_progress, call outcome) reports what it was given: equal
  to the originator's URI / args / kwargs when both key rings hold the matching halves of the same key, NOTHING (and
  a call failing with ``wamp.error.encryption.*`` / ``wamp.error.no_payload_codec``) otherwise;
* FAULT ENUMERATION on matched key rings, all five payload paths (event, invocation, result, progressive result,
  error): every single octet of a genuine ciphertext XOR 0x01 / 0x80 / 0xFF, every truncation length, extensions,
  harness-sealed payloads under wrong key pairs, the ciphertext of another URI (genuine and harness-sealed) under
  the envelope of this one, altered ``enc_algo`` / ``enc_serializer`` / ``enc_key``: the handler must not run (for
  the enc_* fields, which the box does not authenticate: must not run with anything but the original payload) and
  the call must fail with an explicit encryption error, nothing else;
* the 24-octet nonces of all ciphertexts the library produced in the process must be pairwise distinct;
* KEY RING HISTORY: the key ring is not only built once and used afterwards - while both sessions are joined and AFTER
  a fixed URI set was driven in every direction, keys are added / replaced / removed on the live ``KeyRing`` objects
  (``set_key`` for a proper prefix of the URIs in use, for exactly a URI in use, for the default key) or a new payload
  codec is set on the joined session (``set_payload_codec``), on one side or on both, and the SAME URIs are driven
  again.  The oracle does not change: the reference rule applied to the layout as it stands after the change decides
  what must be encrypted (and under which key), recovered, or rejected - so anything the key ring or the session
  remembered from the earlier use of a URI shows as clear payload / a payload under the superseded key on the wire, or
  as a handler that ran on a payload sealed under a key the receiver no longer holds.
"""

import base64
import copy
import datetime
import json
import random
import struct

from vf.runner import h as _hash

PROPERTY = "C20"
LEVEL = "fault_enumeration"
EXHAUSTIVE = False
RULE = ("three case families per (framework, transport, serializer): (1) ROUNDTRIP - 16 fixed + seeded random key-ring "
        "layouts (default key, per-prefix keys with nested prefixes, prefix-only, originator-only / responder-only "
        "halves, wrong key pairs, diverging prefix tables, no codec on one side) x 6 URIs (one per prefix class incl. "
        "'no key') x {publish/event, prefix-subscription event, call with plain result, CallResult with kwargs, "
        "progressive results, ApplicationError, RuntimeError} with seeded tagged payloads of what the inner JSON codec "
        "claims to carry; (2) FAULTS - on matched layouts, for each of the 5 payload paths one genuine ciphertext and "
        "EVERY single-octet alteration (XOR 01/80/FF at every offset), every truncation length, 7 extensions, 4 wrong "
        "key pairs, 4 URI swaps, 11 enc_* field alterations, with positive controls (harness-sealed correct payload and "
        "the genuine message are accepted in between); (3) UNENCODABLE - values only the outer serializer can carry "
        "(datetime, set, object) in every direction, octets searched for the sibling tags; (4) REJOIN - GOODBYE with the "
        "transport kept, join() again on the same session objects, same traffic; (5) HISTORY - 5 scripted + seeded random "
        "sequences of key ring changes on JOINED sessions (set_key on the live KeyRing: key of a proper prefix / of exactly "
        "a URI in use / default key x added, replaced, removed x originator side, responder side, both; "
        "set_payload_codec with a new key ring or None), the full traffic (4 URIs x {publish, 5 call kinds with a fixed "
        "error URI each} + prefix subscription + prefix registration) before the first and after every change, always "
        "over the same URIs, judged by the key ring rule on the layout after the change.  One evaluation = one "
        "exchange or one altered delivery; it is non-trivial when a verdict was taken from the receiving application "
        "or from the octets on the wire; distinct = (framework, transport, serializer, layout, URI, path, payload "
        "shape | fault class + position).")
ASSUMPTIONS = [
    "PyNaCl (libsodium) Box is trusted as the reference for 'opens under key K'; key material is derived by the harness",
    "the router is a transparent forwarder of payload and enc_* fields (what WAMP payload transparency specifies); "
    "PUBLISHED/acknowledged publishing, registration/subscription meta events are not driven",
    "an ERROR is expected encrypted iff the responder's key ring has a box for the ERROR URI (the library keys errors by "
    "their own URI; errors whose URI has no key travel in clear by design - not asserted); a YIELD iff its INVOCATION was",
    "not asserted (statement leaves room): replay of a genuine ciphertext, reflection of an originator ciphertext "
    "back to the originator (NaCl box keys are symmetric), swapping two results of the SAME procedure, the error URI "
    "chosen among the encryption error URIs, whether the session survives a rejected message, the outcome of a call "
    "whose result cannot be encrypted (only the absence of clear payload on the wire is asserted there), exact value "
    "equality on the CLEAR path (C03), reserved kwarg names of ApplicationError / CallResult, NUL-prefixed strings, "
    "non-finite floats, integers beyond 2**53",
    "alterations of enc_algo / enc_serializer / enc_key (not authenticated by the box, not named in the statement): "
    "accepted outcomes are rejection, a protocol error, or delivery of exactly the original payload",
    "the harness codecs (json/msgpack/cbor2/bjdata) and vf.rfc6455_ref are trusted for decoding what the sessions wrote",
    "key ring history: 'a keyring active' is read as the key ring AS IT STANDS when a message is written / received "
    "(KeyRing.set_key and ISession.set_payload_codec are public and documented without a 'before first use' "
    "restriction); changes are applied only BETWEEN completed exchanges - a change while a call is in flight (CALL "
    "under the old key, YIELD under the new) is not driven, the statement leaves that open; KeyRing.rotate_key() is not "
    "driven (it calls Key.rotate(), which does not exist, on the unchanged tree)",
]
DECIDING = {
    "events_compared": 500, "invocations_compared": 1500, "results_compared": 1000, "progress_compared": 600,
    "errors_compared": 600, "wire_encrypted_opened": 6000, "wire_clear_by_rule": 3000, "rejections_checked": 1500,
    "octet_strings_searched": 50000, "tag_patterns_searched": 1000000, "nonces_compared": 50000,
    "faults_event": 10000, "faults_invocation": 10000, "faults_result": 10000, "faults_progress": 10000,
    "faults_error": 10000, "fault_ciphertext_byte": 40000, "fault_truncation": 12000, "fault_extension": 600,
    "fault_wrong_key": 300, "fault_uri_swap": 300, "fault_enc_field": 1000, "positive_controls": 400,
    "unencodable_probes": 200, "enc_error_uris": 3, "layouts": 16,
    # >= 2 handlers on one subscription id: all of them get the exact payload / none of them runs for a rejected EVENT
    "multi_handler_events_compared": 500, "multi_handler_rejections": 10000,
    # pattern-based subscriptions / registrations (concrete URI in details.topic / details.procedure, key by concrete URI)
    "pattern_events_compared": 300, "pattern_invocations_compared": 1000, "pattern_results_compared": 800,
    "pattern_errors_compared": 300, "faults_pattern_registration": 5000, "pattern_policies": 4,
    # ERROR direction at callers that define()d an exception class for the envelope error URI
    "faults_error_defined_class": 8000, "mapped_errors_compared": 300,
    # messages written in a SECOND / THIRD session joined on the same session objects (GOODBYE, transport kept) and judged
    "second_session_messages_judged": 3000, "rejoins": 100, "rejoin_variants": 12,
    # key ring HISTORY: changes applied to the live key rings / codecs of joined sessions on which the URIs had already been
    # driven; exchanges judged after such a change (of those: on URIs whose rule status - key named for the originator /
    # for the responder - was altered by the change); what the shared verdict code judged in them; distinct op classes
    # (A|B : p|x|d|c +|~|-) and distinct (op class / originator transition / responder transition) reached
    "keyring_changes_after_use": 400, "post_change_exchanges": 8000, "post_change_exchanges_status_changed": 3000,
    "post_change_wire_judged": 15000, "post_change_deliveries_compared": 10000, "post_change_rejections_checked": 1000,
    "keyring_change_ops": 20, "keyring_change_transitions": 25,
}

COMBOS = [("websocket", "json"), ("websocket", "msgpack"), ("websocket", "cbor"), ("websocket", "ubjson"),
          ("rawsocket", "json"), ("rawsocket", "msgpack"), ("rawsocket", "cbor"), ("rawsocket", "ubjson")]

PUBLISH, EVENT, CALL, RESULT, INVOCATION, YIELD, ERROR = 16, 36, 48, 50, 68, 70, 8
MSGNAME = {PUBLISH: "publish", CALL: "call", YIELD: "yield", ERROR: "error"}

PREFIX_POOL = ["com.c20.p.", "com.c20.p.q.", "com.c20.p.q.r.", "com.c20.z", "com.", "wamp.error."]
URI_POOL = ["com.c20.p.a1", "com.c20.p.q.a2", "com.c20.p.q.r.a3", "com.c20.zz.a4", "com.c20.y.a5", "org.c20.a6"]
ERR_POOL = ["com.c20.p.err1", "com.c20.p.q.err2", "com.c20.zerr3", "org.c20.err4"]
KINDS = ["value", "callresult", "progress", "raise", "raise_rt"]
# handlers attached to ONE subscription id (the stub router answers repeated SUBSCRIBEs for a topic with the same id)
NHANDLERS = {"com.c20.p.a1": 3, "com.c20.p.q.a2": 2, "com.c20.p.q.r.a3": 1, "com.c20.zz.a4": 2, "com.c20.y.a5": 3, "org.c20.a6": 2}
# pattern-based subscriptions / registrations: (pattern, match policy, concrete URI the router reports in details)
PATTERN_SUBS = [("com.c20.p.", "prefix", "com.c20.p.q.a2"), ("com.", "prefix", "com.c20.zz.a4"), ("org.", "prefix", "org.c20.a6"),
                ("com.c20..a5", "wildcard", "com.c20.y.a5"), ("com.c20.p..a3x", "wildcard", "com.c20.p.q.a3x")]
PATTERN_REGS = [("com.c20.", "prefix", "com.c20.p.a1"), ("com.c20.", "prefix", "com.c20.p.q.a2"), ("com.c20.p.", "prefix", "com.c20.p.q.r.a3"),
                ("com.c20.", "prefix", "com.c20.zz.a4"), ("com.c20..a5", "wildcard", "com.c20.y.a5"), ("org..a6", "wildcard", "org.c20.a6")]


# error URIs for which the CALLER session define()s an exception class (constructible from anything / fixed signature
# (item, qty=0)); the other error URIs arrive as generic ApplicationError
DEFINE_ANY = ["com.c20.p.q.err2", "org.c20.err4", "com.c20.p.derr1", "com.c20.p.derr9"]
DEFINE_FIXED = ["com.c20.p.ferr1", "com.c20.p.ferr9"]


def nhandlers(topic):
    return NHANDLERS.get(topic, 2)


def events_exact(evs, nh, topic, args, kwargs):
    """every one of the ``nh`` handlers of the subscription id ran exactly once, each with exactly the original data"""
    return (len(evs) == nh and sorted(e[5] for e in evs) == list(range(nh))
            and all(e[1] == topic and same(e[2], args) and same(e[3], kwargs) for e in evs))


def K(view, default=None, prefixes=None):
    return {"view": view, "default": default, "prefixes": dict(prefixes or {})}


_PQ = {"com.c20.p.": 1, "com.c20.p.q.": 2}
LAYOUTS = [
    ("default/full-full", K("full", 0), K("full", 0)),
    ("default/orig-resp", K("orig", 0), K("resp", 0)),
    ("prefix+default/orig-resp", K("orig", 0, _PQ), K("resp", 0, _PQ)),
    ("prefix-only/orig-resp", K("orig", None, _PQ), K("resp", None, _PQ)),
    ("prefix-only/full-full", K("full", None, dict(_PQ, **{"com.c20.z": 3})), K("full", None, dict(_PQ, **{"com.c20.z": 3}))),
    ("errors-keyed/orig-resp", K("orig", 4, {"wamp.error.": 6, "com.c20.p.": 1}), K("resp", 4, {"wamp.error.": 6, "com.c20.p.": 1})),
    ("originator-only-both", K("orig", 0), K("orig", 0)),
    ("responder-only-both", K("resp", 0), K("resp", 0)),
    ("swapped-roles", K("resp", 0, _PQ), K("orig", 0, _PQ)),
    ("wrong-pair/responder", K("orig", [0, 1]), K("resp", [0, 3])),
    ("wrong-pair/originator", K("orig", [0, 1]), K("resp", [2, 1])),
    ("wrong-default-right-prefix", K("orig", 0, {"com.c20.p.": 1}), K("resp", 5, {"com.c20.p.": 1})),
    ("prefix-depth-mismatch", K("orig", 0, {"com.c20.p.": 1}), K("resp", 0, _PQ)),
    ("no-codec-responder", K("full", 0), None),
    ("no-codec-originator", None, K("full", 0)),
    ("no-codec-both", None, None),
]
FAULT_LAYOUTS = [0, 1, 2, 4, 5]      # indices into LAYOUTS: both sides hold matching halves for every key


def _P():
    from vf import c20_pair
    return c20_pair


# ------------------------------------------------------------------------------------------------
# tags + payloads
# ------------------------------------------------------------------------------------------------

class TagGen:
    def __init__(self, rng):
        self.rng = rng
        self.n = 0

    def new(self, kind):
        self.n += 1
        r = self.rng
        if kind == "s":
            return "Tg%04dq%016x" % (self.n % 10000, r.getrandbits(64))
        if kind == "i":
            return (1 << 52) | r.getrandbits(52)
        if kind == "f":
            return float(struct.unpack(">d", struct.pack(">Q", (0x40F << 52) | r.getrandbits(52)))[0])
        if kind == "b":
            return bytes(r.getrandbits(8) for _ in range(12))
        raise ValueError(kind)


_CODECS = None


def _plain_codecs():
    global _CODECS
    if _CODECS is None:
        from vf.wamp_harness import _codec
        _CODECS = [_codec(n)[0] for n in ("json", "msgpack", "cbor", "ubjson")]
    return _CODECS


def tag_patterns(kind, v):
    """Octet patterns whose occurrence on the wire reveals tag ``v``: the raw core plus the item encoding of each
    plain serializer library."""
    pats = set()
    if kind == "s":
        pats.add(v.encode("utf8"))
    elif kind == "i":
        pats.update((str(v).encode("ascii"), struct.pack(">Q", v), struct.pack("<Q", v)))
    elif kind == "f":
        pats.update((repr(v).encode("ascii"), struct.pack(">d", v), struct.pack("<d", v)))
    elif kind == "b":
        pats.update((v, base64.b64encode(v), v.hex().encode("ascii")))
    for dumps in _plain_codecs():
        try:
            pats.add(bytes(dumps(v)))
        except Exception:
            pass
    return [p for p in pats if len(p) >= 8]


UNI = ["häß€", "\U0001F600\U0001F9EA", "q\"uo\\te\n\t", "  ", "日本語", ""]
SMALL = [None, True, False, 0, -1, 1, 2 ** 31, -(2 ** 53) + 1, 2 ** 53 - 1, 0.5, -1e-9, 3.0, "", "x", [], {}]
SHAPES = ["none", "args", "kwargs", "both", "nested", "unicode", "binary", "numbers"]


def gen_value(rng, tg, tags, depth, kinds="sifb"):
    c = rng.random()
    if depth > 0 and c < 0.22:
        return [gen_value(rng, tg, tags, depth - 1, kinds) for _ in range(rng.randint(0, 3))]
    if depth > 0 and c < 0.40:
        d = {}
        for _ in range(rng.randint(0, 3)):
            d[gen_key(rng, tg, tags)] = gen_value(rng, tg, tags, depth - 1, kinds)
        return d
    if c < 0.55:
        return rng.choice(SMALL) if True else None
    k = rng.choice(kinds)
    v = tg.new(k)
    tags.append((k, v))
    if k == "s" and rng.random() < 0.4:
        v = rng.choice(UNI) + v + rng.choice(UNI)
    return v


def gen_key(rng, tg, tags):
    c = rng.random()
    if c < 0.5:
        return "k%d" % rng.randint(0, 999)
    if c < 0.7:
        return rng.choice(["ключ", "clé", "键"]) + str(rng.randint(0, 99))
    v = tg.new("s")
    tags.append(("s", v))
    return v


def gen_payload(rng, tg, shape=None, small=False, size=None):
    """-> (args list, kwargs dict, tags [(kind, value)], shape)"""
    shape = shape or rng.choice(SHAPES)
    tags = []
    args, kwargs = [], {}
    size = size or ("small" if small else "medium")
    small = size == "small"
    depth = 0 if small else 2
    kinds = {"unicode": "s", "binary": "b", "numbers": "if"}.get(shape, "sifb")
    if shape in ("args", "both", "nested", "unicode", "binary", "numbers"):
        n = 1 if small else (rng.randint(1, 4) if size == "medium" else rng.randint(8, 14))
        for _ in range(n):
            args.append(gen_value(rng, tg, tags, depth if shape != "args" else 0, kinds))
    if shape in ("kwargs", "both", "nested", "unicode"):
        n = 1 if small else (rng.randint(1, 3) if size == "medium" else rng.randint(5, 9))
        for _ in range(n):
            kwargs[gen_key(rng, tg, tags)] = gen_value(rng, tg, tags, depth if shape == "nested" else 0, kinds)
    if shape != "none" and not tags:
        v = tg.new("s")
        tags.append(("s", v))
        args.append(v)
    return args, kwargs, tags, shape


def same(a, b):
    """Type-strict structural equality (list == tuple allowed)."""
    if isinstance(a, (list, tuple)) and isinstance(b, (list, tuple)):
        return len(a) == len(b) and all(same(x, y) for x, y in zip(a, b))
    if isinstance(a, (bytes, bytearray)) and isinstance(b, (bytes, bytearray)):
        return bytes(a) == bytes(b)
    if type(a) is not type(b):
        return False
    if isinstance(a, dict):
        return set(a) == set(b) and all(same(a[k], b[k]) for k in a)
    return a == b


def short(o, n=300):
    r = repr(o)
    return r if len(r) <= n else r[:n] + "..."


def is_enc_uri(u):
    return isinstance(u, str) and (u == "wamp.error.no_payload_codec" or u.startswith("wamp.error.encryption."))


def norm_result(args, kwargs):
    """What a caller sees for a RESULT with these args/kwargs (protocol.py collapses 0/1 positional results)."""
    args = list(args or [])
    kwargs = dict(kwargs or {})
    if kwargs or len(args) > 1:
        return ("multi", args, kwargs)
    return ("single", args[0] if args else None)


NONCES = {}


# ------------------------------------------------------------------------------------------------
# one case = one layout on one transport x serializer
# ------------------------------------------------------------------------------------------------

class Ctx:
    def __init__(self, R, case):
        import txaio
        self.R = R
        self.case = case
        self.fw = "tx" if txaio.using_twisted else "aio"
        self.transport = case["transport"]
        self.ser = case["ser"]
        self.lname = case["layout"]["name"]
        # private copies: the key-ring history family edits the reference layout while the case runs
        self.side_a = copy.deepcopy(case["layout"]["a"])
        self.side_b = copy.deepcopy(case["layout"]["b"])
        self.rng = random.Random(case["seed"])
        self.tg = TagGen(self.rng)
        self.secrets = []           # (pattern, kind)
        self.input_class = "regular"
        self.pair = None
        self.session_no = 1         # > 1: the traffic runs in a later session joined on the SAME session objects
        self.pairs_built = 0
        self.force_err = None       # error URI the next "raise" script uses (None: seeded choice from ERR_POOL)
        self.history = None         # key-ring changes applied so far in this case (labels), for violation details
        self.cfg = "%s/%s/%s/%s" % (self.fw, self.transport, self.ser, self.lname)

    # -- pair life cycle -------------------------------------------------------------------------
    def P(self):
        if self.pair is not None and not self.pair.alive():
            self.R.count("pairs_rebuilt")
            self.drop()
        if self.pair is None:
            self.pair = _P().Pair(self.transport, self.ser, self.side_a, self.side_b,
                                  codec_mode=self.case.get("codec_mode", "ctor"))
            self.session_no = 1
            self.pair.define_errors(DEFINE_ANY, DEFINE_FIXED)
            self.pairs_built += 1
        return self.pair

    def drop(self):
        if self.pair is not None:
            try:
                self.scan("teardown")
            except Exception:
                pass
            for e in self.pair.escaped():
                self.R.seen("escaped_to_framework", e[:120])
            self.pair.teardown()
            self.pair = None

    # -- verdicts --------------------------------------------------------------------------------------
    def V(self, key, what, **detail):
        detail.update(config=self.cfg)
        if self.history:
            detail.update(keyring_history=" -> ".join(self.history[-8:]))
        self.R.violation(key, what, detail, replay=self.case)

    def nontrivial(self, *parts):
        self.R.seen("nontrivial", self.cfg + "/" + "/".join(str(p) for p in parts))

    # -- secrets + wire observation ----------------------------------------------------------------------
    def add_secrets(self, tags):
        for kind, v in tags:
            for pat in tag_patterns(kind, v):
                self.secrets.append((pat, kind))

    def clear_secrets(self):
        self.secrets = []

    def scan(self, where):
        """Read every WAMP message both transports wrote since the last scan: nonce bookkeeping + tag search."""
        p = self.pair
        if p is None:
            return
        P = _P()
        for side, octets in p.new_wire_octets():
            try:
                msg = p.A.loads(octets)
            except Exception:
                msg = None
            mname = "other"
            if isinstance(msg, list) and msg and msg[0] in MSGNAME:
                mname = MSGNAME[msg[0]]
                try:
                    parts = P.parts_of(msg)
                except Exception:
                    parts = None
                if parts is not None and P.is_encrypted(parts):
                    self.note_nonce(parts["tail"][0], side, mname)
            self.R.count("octet_strings_searched")
            self.R.count("tag_patterns_searched", len(self.secrets))
            for pat, kind in self.secrets:
                if pat in octets:
                    self.V("C20/%s/clear-payload-on-wire/%s" % (mname, self.input_class),
                           "a tag of a payload the key ring rule says is encrypted occurs in the octets of a %s message "
                           "written by session %s (%s)" % (mname.upper(), side, where),
                           tag_kind=kind, pattern_hex=pat.hex(), octets_hex=octets.hex()[:600], message=short(msg, 500))
                    break

    def note_nonce(self, payload, side, mname):
        n = bytes(payload[:24])
        self.R.count("nonces_compared")
        prev = NONCES.get(n)
        if prev is not None:
            self.V("C20/nonce-reuse", "the 24-octet nonce of a %s ciphertext written by session %s was already used by "
                   "an earlier %s ciphertext" % (mname.upper(), side, prev), nonce_hex=n.hex())
        NONCES[n] = "%s(%s)" % (mname.upper(), side)

    def wire_check(self, msg, uri, args, kwargs, key, what):
        """``msg`` was written by a session for (uri, args, kwargs); ``key`` = the key the rule prescribes (None = clear).
        Returns (parts, encrypted?)."""
        P = _P()
        R = self.R
        parts = P.parts_of(msg)
        enc = P.is_encrypted(parts)
        if self.session_no > 1:
            R.count("second_session_messages_judged")
        if key is None:
            if enc:
                R.seen("oddities", "%s encrypted although the rule names no key" % what)
            else:
                R.count("wire_clear_by_rule")
            return parts, enc
        if not enc:
            self.V("C20/%s/clear-payload-on-wire/%s" % (what, self.input_class),
                   "%s for %r was written WITHOUT payload encryption although the session's key ring has a box for that "
                   "URI" % (what.upper(), uri), message=short(msg, 500))
            return parts, enc
        e = parts["enc"]
        if e.get("enc_algo") != "cryptobox" or e.get("enc_serializer") != "json" or len(parts["tail"]) != 1:
            self.V("C20/%s/envelope-fields" % what, "unexpected payload-transparency fields %r" % (e,), message=short(msg, 300))
        try:
            inner = P.open_box(key, parts["tail"][0])
        except Exception as ex:
            self.V("C20/%s/not-under-rule-key" % what,
                   "%s payload for %r does not open under the key the rule prescribes (%r): %r" % (what.upper(), uri, key, ex))
            return parts, enc
        R.count("wire_encrypted_opened")
        ok = (isinstance(inner, dict) and inner.get("uri") == uri and same(inner.get("args") or [], list(args or []))
              and same(inner.get("kwargs") or {}, dict(kwargs or {})))
        if not ok:
            self.V("C20/%s/inner-payload-differs" % what,
                   "decrypted %s payload differs from the application's uri/args/kwargs" % what.upper(),
                   inner=short(inner, 500), expected=short({"uri": uri, "args": args, "kwargs": kwargs}, 500))
        return parts, enc

    def matched(self, enc, key_used, recv_side, recv_is_orig, uri):
        """Will the receiver (by the rule) recover an unaltered message?"""
        P = _P()
        if not enc:
            return True
        if recv_side is None:
            return False
        return P.same_key(key_used, P.ref_has_box(recv_side, recv_is_orig, uri))

    # -- outcome of a call at A ---------------------------------------------------------------------------
    def outcome(self, o):
        from autobahn.wamp.exception import ApplicationError
        from autobahn.wamp.types import CallResult
        if not o.results:
            return ("pending",)
        if len(o.results) > 1:
            return ("completed-%d-times" % len(o.results),)
        k, v = o.results[0]
        if k == "ok":
            if isinstance(v, CallResult):
                return ("ok", norm_result(v.results, v.kwresults))
            return ("ok", ("single", v))
        if isinstance(v, ApplicationError):
            return ("apperr", v.error, list(v.args), dict(v.kwargs or {}))
        if hasattr(v, "c20_uri"):
            # an exception class the caller define()d for that error URI, built by the library from the ERROR's payload
            return ("mapped", v.c20_uri, list(v.c20_args), dict(v.c20_kwargs), type(v).__name__)
        return ("exc", type(v).__name__, str(v)[:200])

    def expect_enc_error(self, o, path, fclass, label):
        """A call hit by a detected alteration / key mismatch must fail with an explicit encryption error."""
        oc = self.outcome(o)
        if oc[0] == "apperr" and is_enc_uri(oc[1]):
            self.R.seen("enc_error_uris", oc[1])
            return True
        if oc[0] == "ok":
            what = "resolved"
        elif oc[0] == "apperr":
            what = "other-error"
        elif oc[0] == "mapped":
            what = "mapped-class"
        else:
            what = oc[0]
        self.V("C20/%s/%s/call-outcome/%s" % (path, fclass, what),
               "call did not fail with wamp.error.encryption.* / wamp.error.no_payload_codec after %s (%s): %s"
               % (fclass, label, short(oc, 300)), outcome=short(oc, 600), label=label)
        return False


# ------------------------------------------------------------------------------------------------
# family 1: round trips over key ring layouts
# ------------------------------------------------------------------------------------------------

def rt_publish(ctx, topic, sub_topic=None, match=None, shape=None):
    P = _P()
    R = ctx.R
    p = ctx.P()
    R.count("evaluations")
    sub = sub_topic or topic
    nh = nhandlers(sub)
    p.ensure_sub(sub, match, handlers=nh)
    args, kwargs, tags, shape = gen_payload(ctx.rng, ctx.tg, shape)
    kA = P.ref_has_box(ctx.side_a, True, topic)
    if kA is not None:
        ctx.add_secrets(tags)
    m = p.publish(topic, args, kwargs)
    if m is None:
        ctx.V("C20/publish/nothing-sent", "publish() wrote no PUBLISH", topic=topic)
        return
    parts, enc = ctx.wire_check(m, topic, args, kwargs, kA, "publish")
    ctx.scan("after publish")
    evs = p.send_event(sub, parts, {"topic": topic} if match else None)
    path = "event-pattern" if match else "event"
    ctx.nontrivial(path, topic, shape)
    if ctx.matched(enc, kA, ctx.side_b, False, topic):
        if len(evs) != nh or sorted(e[5] for e in evs) != list(range(nh)):
            ctx.V("C20/%s/%s/handlers-invoked-wrong-count" % (path, "not-recovered" if enc else "clear-by-rule"),
                  "unaltered EVENT for %r between matching key rings: %d handler invocations for %d handlers on the "
                  "subscription id" % (topic, len(evs), nh), got=short(evs, 400))
        elif enc:
            if not events_exact(evs, nh, topic, args, kwargs):
                ctx.V("C20/%s/not-recovered/payload-differs" % path, "subscriber received a payload different from the publisher's",
                      got=short(evs, 600), expected=short((topic, args, kwargs), 600))
            R.count("events_compared")
            if nh > 1:
                R.count("multi_handler_events_compared")
            if match:
                R.count("pattern_events_compared")
                R.seen("pattern_policies", "sub/" + match)
            R.seen("shapes_recovered", path + "/" + shape)
    else:
        if evs:
            ctx.V("C20/%s/key-mismatch/handler-invoked" % path,
                  "EVENT encrypted under a key the subscriber's key ring does not hold for %r reached %d of the %d handlers"
                  % (topic, len(evs), nh), got=short(evs, 400))
        R.count("rejections_checked")
        if nh > 1:
            R.count("multi_handler_rejections")
    ctx.scan("after event")
    ctx.clear_secrets()
    if R.counters.get("evaluations", 0) % 97 == 1:
        R.sample({"config": ctx.cfg, "path": path, "uri": topic, "args": short(args, 200), "kwargs": short(kwargs, 200),
                  "publish_on_wire": short(m, 300), "delivered": short(evs, 300)}, kind="roundtrip")


def make_script(ctx, kind):
    """-> (script for the endpoint, expected replies [(type, uri|None, args, kwargs, tags, progress?)])"""
    rng, tg = ctx.rng, ctx.tg
    exp = []
    if kind == "value":
        tags = []
        v = gen_value(rng, tg, tags, 1)
        return ("value", v), [("yield", None, [v], {}, tags, False)]
    if kind == "callresult":
        a, k, tags, _ = gen_payload(rng, tg, rng.choice(["both", "kwargs", "nested", "args", "none"]))
        return ("callresult", a, k), [("yield", None, a, k, tags, False)]
    if kind == "progress":
        steps = []
        for _ in range(rng.randint(1, 3)):
            a, k, tags, _ = gen_payload(rng, tg, rng.choice(["args", "both", "kwargs"]))
            steps.append((a, k))
            exp.append(("yield", None, a, k, tags, True))
        tags = []
        v = gen_value(rng, tg, tags, 1)
        exp.append(("yield", None, [v], {}, tags, False))
        return ("progress", steps, ("value", v)), exp
    if kind == "raise":
        uri = rng.choice(ERR_POOL)
        if ctx.force_err is not None:
            uri = ctx.force_err
        a, k, tags, _ = gen_payload(rng, tg, rng.choice(["both", "args", "kwargs", "none", "unicode"]))
        return ("raise", uri, a, k), [("error", uri, a, k, tags, False)]
    if kind == "raise_rt":
        a, _k, tags, _ = gen_payload(rng, tg, "args")
        return ("raise_rt", a), [("error", "wamp.error.runtime_error", a, {}, tags, False)]
    raise ValueError(kind)


def rt_call(ctx, proc, kind, shape=None, reg=None, match=None):
    """``proc`` = the concrete URI called; ``reg``/``match`` = the pattern the endpoint is registered under (the harness
    then reports ``proc`` in INVOCATION.details.procedure, as a dealer does for pattern-based registrations)."""
    P = _P()
    R = ctx.R
    p = ctx.P()
    R.count("evaluations")
    reg = reg or proc
    p.ensure_reg(reg, match)
    inv_details = {"procedure": proc} if match else None
    args, kwargs, tags, shape = gen_payload(ctx.rng, ctx.tg, shape)
    kA = P.ref_has_box(ctx.side_a, True, proc)
    if kA is not None:
        ctx.add_secrets(tags)
    script, expected = make_script(ctx, kind)
    p.script[:] = [script]
    n_prog0 = len(p.progress)
    o, c = p.call(proc, args, kwargs, progressive=(kind == "progress"))
    if c is None:
        ctx.V("C20/call/nothing-sent", "call() wrote no CALL", proc=proc)
        return
    parts, enc = ctx.wire_check(c, proc, args, kwargs, kA, "call")
    ctx.scan("after call")
    rid, invs, replies = p.send_invocation(reg, parts, inv_details)
    ctx.nontrivial("call-pattern" if match else "call", reg, proc, kind, shape)
    if not ctx.matched(enc, kA, ctx.side_b, False, proc):
        # the responder cannot open it: endpoint must not run, the call must fail with an encryption error
        p.script[:] = []
        if invs:
            ctx.V("C20/invocation/key-mismatch/handler-invoked",
                  "INVOCATION encrypted under a key the callee's key ring does not hold for %r reached the endpoint" % proc,
                  got=short(invs, 400))
        if len(replies) != 1 or replies[0][0] != ERROR or not is_enc_uri(replies[0][4]):
            ctx.V("C20/invocation/key-mismatch/reply", "callee did not answer an undecryptable INVOCATION with exactly one "
                  "encryption ERROR", replies=short(replies, 500))
        else:
            R.seen("enc_error_uris", replies[0][4])
            p.forward_reply(c[1], replies[0])
            ctx.expect_enc_error(o, "invocation", "key-mismatch", ctx.lname)
        R.count("rejections_checked")
        ctx.scan("after rejected invocation")
        ctx.clear_secrets()
        return
    if len(invs) != 1:
        ctx.V("C20/invocation/%s/handler-invoked-%d-times" % ("not-recovered" if enc else "clear-by-rule", len(invs)),
              "unaltered INVOCATION for %r between matching key rings: endpoint invoked %d times" % (proc, len(invs)),
              replies=short(replies, 400))
        p.script[:] = []
        ctx.scan("after invocation")
        ctx.clear_secrets()
        return
    if enc:
        _, dproc, hargs, hkwargs, _algo = invs[0]
        if dproc != proc or not same(hargs, args) or not same(hkwargs, kwargs):
            ctx.V("C20/invocation/not-recovered/payload-differs", "callee received a payload different from the caller's",
                  got=short((dproc, hargs, hkwargs), 600), expected=short((proc, args, kwargs), 600))
        R.count("invocations_compared")
        if match:
            R.count("pattern_invocations_compared")
            R.seen("pattern_policies", "reg/" + match)
        R.seen("shapes_recovered", "invocation/" + shape)
    # ---- replies of the callee
    if len(replies) != len(expected):
        ctx.V("C20/reply/count", "callee wrote %d replies, script prescribes %d" % (len(replies), len(expected)),
              replies=short(replies, 600), kind=kind)
        ctx.scan("after replies")
        ctx.clear_secrets()
        return
    final_state = None
    for reply, (rtype, euri, rargs, rkwargs, rtags, is_prog) in zip(replies, expected):
        if (reply[0] == YIELD) != (rtype == "yield"):
            ctx.V("C20/reply/type", "callee wrote %r where the script prescribes %s" % (reply[:3], rtype), reply=short(reply, 400))
            break
        if rtype == "yield":
            kY = P.ref_has_box(ctx.side_b, False, proc) if enc else None
            if kY is not None:
                ctx.add_secrets(rtags)
            rparts, renc = ctx.wire_check(reply, proc, rargs, rkwargs, kY, "yield")
            ctx.scan("after yield")
            p.forward_reply(c[1], reply)
            ok_a = ctx.matched(renc, kY, ctx.side_a, True, proc)
            if is_prog:
                got = p.progress[n_prog0:]
                n_prog0 = len(p.progress)
                if ok_a:
                    if len(got) != 1:
                        ctx.V("C20/progress/not-recovered/handler-invoked-%d-times" % len(got),
                              "unaltered progressive RESULT: on_progress invoked %d times" % len(got))
                    elif renc:
                        if not same(got[0][0], rargs) or not same(got[0][1], rkwargs):
                            ctx.V("C20/progress/not-recovered/payload-differs", "on_progress received a payload different from "
                                  "the callee's", got=short(got[0], 600), expected=short((rargs, rkwargs), 600))
                        R.count("progress_compared")
                        if match:
                            R.count("pattern_results_compared")
                elif got:
                    ctx.V("C20/progress/key-mismatch/handler-invoked", "on_progress ran for a RESULT the caller cannot open")
            else:
                final_state = ("result", ok_a, renc, rargs, rkwargs)
        else:
            kE = P.ref_has_box(ctx.side_b, False, euri)
            if kE is not None:
                ctx.add_secrets(rtags)
            rparts, renc = ctx.wire_check(reply, euri, rargs, rkwargs, kE, "error")
            ctx.scan("after error")
            p.forward_reply(c[1], reply)
            final_state = ("error", ctx.matched(renc, kE, ctx.side_a, True, euri), renc, rargs, rkwargs, euri)
    if final_state is not None:
        oc = ctx.outcome(o)
        if final_state[0] == "result":
            _, ok_a, renc, rargs, rkwargs = final_state
            if ok_a:
                want = ("ok", norm_result(rargs, rkwargs))
                if oc[0] != "ok":
                    ctx.V("C20/result/%s/call-outcome/%s" % ("not-recovered" if renc else "clear-by-rule", oc[0]),
                          "unaltered RESULT between matching key rings: call did not resolve: %s" % short(oc, 300))
                elif renc:
                    if not same(oc, want):
                        ctx.V("C20/result/not-recovered/payload-differs", "caller received a result different from the callee's",
                              got=short(oc, 600), expected=short(want, 600))
                    R.count("results_compared")
                    if match:
                        R.count("pattern_results_compared")
                    R.seen("shapes_recovered", "result/" + kind)
            else:
                ctx.expect_enc_error(o, "result", "key-mismatch", ctx.lname)
                R.count("rejections_checked")
        else:
            _, ok_a, renc, rargs, rkwargs, euri = final_state
            if ok_a:
                if oc[0] not in ("apperr", "mapped"):
                    ctx.V("C20/error/%s/call-outcome/%s" % ("not-recovered" if renc else "clear-by-rule", oc[0]),
                          "unaltered ERROR between matching key rings: call did not fail with the callee's error: %s" % short(oc, 300))
                elif renc:
                    want_kind = "mapped" if euri in p.defined else "apperr"
                    if oc[0] != want_kind or oc[1] != euri or not same(oc[2], rargs) or not same(oc[3], rkwargs):
                        ctx.V("C20/error/not-recovered/payload-differs", "caller received an error different from the callee's",
                              got=short(oc, 600), expected=short((want_kind, euri, rargs, rkwargs), 600))
                    R.count("errors_compared")
                    if want_kind == "mapped":
                        R.count("mapped_errors_compared")
                    if match:
                        R.count("pattern_errors_compared")
                    R.seen("shapes_recovered", "error/" + kind)
            else:
                ctx.expect_enc_error(o, "error", "key-mismatch", ctx.lname)
                R.count("rejections_checked")
    ctx.scan("after replies")
    ctx.clear_secrets()
    if R.counters.get("evaluations", 0) % 131 == 2:
        R.sample({"config": ctx.cfg, "path": "call/" + kind, "uri": proc, "args": short(args, 200), "kwargs": short(kwargs, 200),
                  "call_on_wire": short(c, 300), "replies_on_wire": short(replies, 400), "outcome": short(ctx.outcome(o), 300)},
                 kind="roundtrip")


def family_roundtrip(ctx):
    R = ctx.R
    R.seen("layouts", ctx.lname if not ctx.lname.startswith("rnd") else "rnd/" + _hash(ctx.case["layout"]))
    reps = ctx.case.get("reps", 1)
    for _ in range(reps):
        for uri in URI_POOL:
            rt_publish(ctx, uri)
            for kind in KINDS:
                rt_call(ctx, uri, kind)
        for sub, match, topic in PATTERN_SUBS:
            rt_publish(ctx, topic, sub_topic=sub, match=match)
        for reg, match, proc in PATTERN_REGS:
            for kind in KINDS:
                rt_call(ctx, proc, kind, reg=reg, match=match)


# ------------------------------------------------------------------------------------------------
# family 2: fault enumeration on matched key rings
# ------------------------------------------------------------------------------------------------

def variants(ctx, parts, kid, uri, args, kwargs, swap_uri, swap_parts, quick_stride=1):
    """Yield (fault class, label, parts, strict?, envelope uri override) for one genuine encrypted message."""
    P = _P()
    rng = ctx.rng
    ct = bytes(parts["tail"][0])

    def with_ct(b, **enc):
        q = dict(parts)
        q["tail"] = [bytes(b)]
        if enc:
            e = dict(parts["enc"])
            for k, v in enc.items():
                if v is None:
                    e.pop(k, None)
                else:
                    e[k] = v
            q["enc"] = e
        return q

    for i in range(0, len(ct), quick_stride):
        for x in (0x01, 0x80, 0xFF):
            b = bytearray(ct)
            b[i] ^= x
            yield ("ciphertext-byte", "xor%02x@%d/%d" % (x, i, len(ct)), with_ct(b), True, None)
    for n in range(0, len(ct), quick_stride):
        yield ("truncation", "len%d/%d" % (n, len(ct)), with_ct(ct[:n]), True, None)
    mid = 24 + (len(ct) - 24) // 2
    for label, b in (("append00", ct + b"\x00"), ("append16", ct + bytes(rng.getrandbits(8) for _ in range(16))),
                     ("prepend00", b"\x00" + ct), ("insert-after-nonce", ct[:24] + b"\x00" + ct[24:]),
                     ("insert-mid", ct[:mid] + b"\x55" + ct[mid:]), ("doubled", ct + ct),
                     ("tail-rotated", ct[:24] + ct[25:] + ct[24:25])):
        yield ("extension", label, with_ct(b), True, None)
    oi, ri = P._idx(kid)
    inner = {"uri": uri, "args": list(args), "kwargs": dict(kwargs)}
    for wk in (7, [oi, 15], [14, ri], [ri + 16, oi + 16]):
        nonce = bytes(rng.getrandbits(8) for _ in range(24))
        yield ("wrong-key", "sealed-under-%s" % (wk,), with_ct(P.seal(wk, inner, nonce)), True, None)
    # the ciphertext of ANOTHER uri (same key) under the envelope of this one, and vice versa
    yield ("uri-swap", "genuine-other-under-this-envelope", with_ct(swap_parts["tail"][0]), True, None)
    yield ("uri-swap", "genuine-this-under-other-envelope", with_ct(ct), True, swap_uri)
    nonce = bytes(rng.getrandbits(8) for _ in range(24))
    yield ("uri-swap", "sealed-inner-uri-other", with_ct(P.seal(kid, dict(inner, uri=swap_uri), nonce)), True, None)
    nonce = bytes(rng.getrandbits(8) for _ in range(24))
    yield ("uri-swap", "sealed-inner-uri-absent", with_ct(P.seal(kid, {"args": list(args), "kwargs": dict(kwargs)}, nonce)), True, None)
    for label, enc in (("algo-mqtt", {"enc_algo": "mqtt"}), ("algo-xbr", {"enc_algo": "xbr"}), ("algo-custom", {"enc_algo": "x_c20"}),
                       ("algo-null", {"enc_algo": "null"}), ("algo-int", {"enc_algo": 1}),
                       ("ser-cbor", {"enc_serializer": "cbor"}), ("ser-msgpack", {"enc_serializer": "msgpack"}),
                       ("ser-custom", {"enc_serializer": "x_c20"}), ("ser-absent", {"enc_serializer": None}),
                       ("key-set", {"enc_key": "c20key"}), ("algo-absent", {"enc_algo": None})):
        yield ("enc-field", label, with_ct(ct, **enc), False, None)


def positive_control(ctx, deliver, kid, uri, label):
    """A harness-sealed payload under the right key and URI must be accepted exactly (shows that rejections of the
    forged negatives are not an artefact of forging)."""
    P = _P()
    tags = []
    v = gen_value(ctx.rng, ctx.tg, tags, 0, "s")
    inner = {"uri": uri, "args": [v], "kwargs": {"pc": label}}
    nonce = bytes(ctx.rng.getrandbits(8) for _ in range(24))
    parts = {"enc": {"enc_algo": "cryptobox", "enc_serializer": "json"}, "uri": uri, "opts": {},
             "tail": [P.seal(kid, inner, nonce)]}
    got = deliver(parts)
    ctx.R.count("positive_controls")
    return got, [v], {"pc": label}


def fault_count(ctx, path, fclass):
    ctx.R.count("evaluations")
    ctx.R.count("faults_" + path)
    ctx.R.count("fault_" + fclass.replace("-", "_"))
    ctx.R.seen("fault_classes", path + "/" + fclass)


def faults_event(ctx, topic, other, shape, stride, pattern=False):
    P = _P()
    R = ctx.R
    path = "event"
    kid = P.ref_has_box(ctx.side_a, True, topic)
    sub_of = (lambda t: "com.c20.") if pattern else (lambda t: t)
    match = "prefix" if pattern else None

    def setup():
        p = ctx.P()
        p.ensure_sub(sub_of(topic), match, handlers=nhandlers(sub_of(topic)))
        p.ensure_sub(sub_of(other), match, handlers=nhandlers(sub_of(other)))
        return p

    nh = nhandlers(sub_of(topic))

    p = setup()
    args, kwargs, tags, shape = gen_payload(ctx.rng, ctx.tg, shape, size=ctx.case.get("size", "small"))
    ctx.add_secrets(tags)
    m = p.publish(topic, args, kwargs)
    parts, enc = ctx.wire_check(m, topic, args, kwargs, kid, "publish")
    oargs, okwargs, _t, _ = gen_payload(ctx.rng, ctx.tg, "args", small=True)
    m2 = p.publish(other, oargs, okwargs)
    oparts, oenc = ctx.wire_check(m2, other, oargs, okwargs, P.ref_has_box(ctx.side_a, True, other), "publish")
    if not (enc and oenc):
        return

    def deliver(q, env=None):
        pp = setup()
        t = env or topic
        return pp.send_event(sub_of(t), q, {"topic": t} if pattern else None)

    def genuine_ok(when):
        evs = deliver(parts)
        R.count("positive_controls")
        if not events_exact(evs, nh, topic, args, kwargs):
            ctx.V("C20/event/not-recovered/genuine-between-faults", "the genuine EVENT was not delivered exactly to each of the "
                  "%d handlers of the subscription id (%s)" % (nh, when), got=short(evs, 400))
        elif nh > 1:
            R.count("multi_handler_events_compared")

    genuine_ok("before faults")
    got, pa, pk = positive_control(ctx, deliver, kid, topic, "event")
    if not events_exact(got, nh, topic, pa, pk):
        ctx.V("C20/event/not-recovered/harness-sealed", "a correctly sealed EVENT payload was not delivered exactly", got=short(got, 300))
    n = 0
    for fclass, label, q, strict, env in variants(ctx, parts, kid, topic, args, kwargs, other, oparts, stride):
        fault_count(ctx, path, fclass)
        evs = deliver(q, env)
        ctx.nontrivial("fault", "event-pattern" if pattern else "event", fclass, label)
        bad = False
        if evs:
            if strict:
                bad = True
            else:
                bad = not events_exact(evs, nh, topic, args, kwargs)
                R.seen("enc_field_outcomes", "event/%s/delivered-original" % label)
        else:
            if nh > 1:
                R.count("multi_handler_rejections")
            if not strict:
                R.seen("enc_field_outcomes", "event/%s/%s" % (label, "rejected" if ctx.pair.alive() else "protocol-error"))
        if bad:
            ctx.V("C20/event/%s/handler-invoked" % fclass,
                  "%d of the %d event handlers on the subscription id ran after %s (%s) of an encrypted EVENT"
                  % (len(evs), nh, fclass, label), label=label, got=short(evs, 500), original=short((topic, args, kwargs), 400))
        if not ctx.pair.alive():
            R.seen("session_aborts", "event/" + fclass)
        n += 1
        if n % 200 == 0:
            genuine_ok("between faults")
    genuine_ok("after faults")
    ctx.scan("after event faults")
    ctx.clear_secrets()
    R.sample({"config": ctx.cfg, "path": "event", "uri": topic, "ciphertext_hex": bytes(parts["tail"][0]).hex(),
              "alterations": n, "plain": short((args, kwargs), 200)}, kind="fault-enumeration")


def faults_invocation(ctx, proc, other, shape, stride, pattern=False):
    P = _P()
    R = ctx.R
    path = "invocation"
    kid = P.ref_has_box(ctx.side_a, True, proc)
    # pattern: ONE prefix registration serves both URIs; the concrete URI travels in INVOCATION.details.procedure
    reg_of = (lambda t: "com.c20.") if pattern else (lambda t: t)
    det = (lambda t: {"procedure": t}) if pattern else (lambda t: None)

    def setup():
        p = ctx.P()
        p.ensure_reg(reg_of(proc), "prefix" if pattern else None)
        p.ensure_reg(reg_of(other), "prefix" if pattern else None)
        return p

    p = setup()
    args, kwargs, tags, shape = gen_payload(ctx.rng, ctx.tg, shape, size=ctx.case.get("size", "small"))
    ctx.add_secrets(tags)
    _o0, c0 = p.call(proc, args, kwargs)
    parts, enc = ctx.wire_check(c0, proc, args, kwargs, kid, "call")
    oargs, okwargs, _t, _ = gen_payload(ctx.rng, ctx.tg, "args", small=True)
    _o1, c1 = p.call(other, oargs, okwargs)
    oparts, oenc = ctx.wire_check(c1, other, oargs, okwargs, P.ref_has_box(ctx.side_a, True, other), "call")
    if not (enc and oenc):
        return

    def exchange(q, env=None, script=None):
        """fresh pending call at A (its own ciphertext is discarded); INVOCATION with ``q``; reply forwarded."""
        pp = setup()
        pp.script[:] = [script or ("value", "c20-lenient")]
        o, c = pp.call(env or proc, ["pending-slot"], {})
        rid, invs, replies = pp.send_invocation(reg_of(env or proc), q, det(env or proc))
        pp.script[:] = []
        if len(replies) == 1:
            pp.forward_reply(c[1], replies[0])
        return o, invs, replies

    def genuine_ok(when):
        o, invs, replies = exchange(parts, script=("value", "c20-genuine"))
        R.count("positive_controls")
        oc = ctx.outcome(o)
        if (len(invs) != 1 or invs[0][1] != proc or not same(invs[0][2], args) or not same(invs[0][3], kwargs)
                or oc != ("ok", ("single", "c20-genuine"))):
            ctx.V("C20/invocation/not-recovered/genuine-between-faults", "the genuine INVOCATION was not served exactly (%s)" % when,
                  got=short((invs, replies, oc), 500))

    genuine_ok("before faults")
    got, pa, pk = positive_control(ctx, lambda q: exchange(q, script=("value", "c20-pc"))[1], kid, proc, "invocation")
    if len(got) != 1 or not same(got[0][2], pa) or not same(got[0][3], pk):
        ctx.V("C20/invocation/not-recovered/harness-sealed", "a correctly sealed INVOCATION payload was not delivered exactly",
              got=short(got, 300))
    n = 0
    for fclass, label, q, strict, env in variants(ctx, parts, kid, proc, args, kwargs, other, oparts, stride):
        fault_count(ctx, path, fclass)
        if pattern:
            R.count("faults_pattern_registration")
        o, invs, replies = exchange(q, env)
        ctx.nontrivial("fault", path + ("-pattern" if pattern else ""), fclass, label)
        alive = ctx.pair.alive()
        if invs:
            orig = len(invs) == 1 and invs[0][1] == proc and same(invs[0][2], args) and same(invs[0][3], kwargs)
            if strict or not orig:
                ctx.V("C20/invocation/%s/handler-invoked" % fclass,
                      "endpoint ran after %s (%s) of an encrypted INVOCATION" % (fclass, label), label=label, got=short(invs, 500),
                      original=short((proc, args, kwargs), 400))
            else:
                R.seen("enc_field_outcomes", "invocation/%s/delivered-original" % label)
        elif strict:
            if len(replies) != 1 or replies[0][0] != ERROR or not is_enc_uri(replies[0][4]):
                ctx.V("C20/invocation/%s/reply" % fclass, "callee did not answer the altered INVOCATION (%s) with exactly one "
                      "encryption ERROR" % label, replies=short(replies, 500), label=label, alive=alive)
            else:
                R.seen("enc_error_uris", replies[0][4])
                ctx.expect_enc_error(o, path, fclass, label)
        else:
            oc = ctx.outcome(o)
            R.seen("enc_field_outcomes", "invocation/%s/%s" % (label, "rejected:" + str(oc[1]) if oc[0] == "apperr" else
                                                            ("protocol-error" if not alive else oc[0])))
            if oc[0] == "ok" or (oc[0] == "apperr" and not is_enc_uri(oc[1])):
                ctx.V("C20/invocation/enc-field/call-outcome/%s" % ("resolved" if oc[0] == "ok" else "other-error"),
                      "endpoint did not run, yet the call completed with %s after %s" % (short(oc, 200), label), label=label)
        if not alive:
            R.seen("session_aborts", path + "/" + fclass)
        n += 1
        if n % 200 == 0:
            genuine_ok("between faults")
    genuine_ok("after faults")
    ctx.scan("after invocation faults")
    ctx.clear_secrets()
    R.sample({"config": ctx.cfg, "path": path, "uri": proc, "ciphertext_hex": bytes(parts["tail"][0]).hex(),
              "alterations": n, "plain": short((args, kwargs), 200)}, kind="fault-enumeration")


def faults_reply(ctx, proc, other, shape, stride, mode, pattern=False, defined=None):
    """mode: 'result' | 'progress' | 'error' - alterations of what travels back to the caller.  pattern: the genuine
    replies come from an endpoint registered under a PREFIX, invoked with the concrete URI in details.procedure."""
    P = _P()
    R = ctx.R
    path = mode
    reg_of = (lambda t: "com.c20.") if pattern else (lambda t: t)
    det = (lambda t: {"procedure": t}) if pattern else (lambda t: None)
    size = ctx.case.get("size", "small")
    # defined: None = the error URIs arrive as generic ApplicationError | "any" / "fixed" = the caller has define()d a
    # class for BOTH error URIs (constructible from anything / with the signature (item, qty=0))
    err_uri, err_other = {None: ("com.c20.p.err1", "com.c20.p.err9"), "any": ("com.c20.p.derr1", "com.c20.p.derr9"),
                          "fixed": ("com.c20.p.ferr1", "com.c20.p.ferr9")}[defined]
    err_kind = "mapped" if defined else "apperr"

    def setup():
        p = ctx.P()
        p.ensure_reg(reg_of(proc), "prefix" if pattern else None)
        p.ensure_reg(reg_of(other), "prefix" if pattern else None)
        return p

    def genuine_reply(pp, target, progressive, script):
        """a full genuine exchange up to the callee's replies -> (outcome, call id, replies)"""
        pp.script[:] = [script]
        o, c = pp.call(target, ["c20-req"], {}, progressive=progressive)
        rid, invs, replies = pp.send_invocation(reg_of(target), P.parts_of(c), det(target))
        pp.script[:] = []
        return o, c, replies

    p = setup()
    rargs, rkwargs, rtags, shape = gen_payload(ctx.rng, ctx.tg, shape, size=size)
    oargs, okwargs, _t, _ = gen_payload(ctx.rng, ctx.tg, "args", small=True)
    if defined == "fixed":
        # payloads that fit the fixed signature - also the OTHER error's, so that a swapped payload is constructible
        rtags = [("s", ctx.tg.new("s")), ("i", ctx.tg.new("i"))]
        rargs, rkwargs = [rtags[0][1]], {"qty": rtags[1][1]}
        oargs, okwargs = [ctx.tg.new("s")], {"qty": ctx.tg.new("i")}
    ctx.add_secrets(rtags)
    if mode == "error":
        uri, ouri = err_uri, err_other
        kid = P.ref_has_box(ctx.side_b, False, uri)
        o0, c0, rep = genuine_reply(p, proc, False, ("raise", uri, rargs, rkwargs))
        o1, c1, orep = genuine_reply(p, proc, False, ("raise", ouri, oargs, okwargs))
        what = "error"
    else:
        uri, ouri = proc, other
        kid = P.ref_has_box(ctx.side_b, False, uri)
        if mode == "progress":
            o0, c0, rep = genuine_reply(p, proc, True, ("progress", [(rargs, rkwargs)], ("value", "c20-final")))
            o1, c1, orep = genuine_reply(p, other, True, ("progress", [(oargs, okwargs)], ("value", "c20-final")))
        else:
            o0, c0, rep = genuine_reply(p, proc, False, ("callresult", rargs, rkwargs))
            o1, c1, orep = genuine_reply(p, other, False, ("callresult", oargs, okwargs))
        what = "yield"
    if not rep or not orep or kid is None:
        ctx.V("C20/%s/faults/no-genuine-reply" % path, "callee wrote no reply to build the fault enumeration from",
              replies=short((rep, orep), 400))
        return
    base, obase = rep[0], orep[0]
    if (base[0] == ERROR) != (mode == "error"):
        ctx.V("C20/reply/type", "callee wrote %r, script prescribes %s" % (base[:3], what), reply=short(base, 300))
        return
    parts, enc = ctx.wire_check(base, uri, rargs, rkwargs, kid, what)
    oparts, oenc = ctx.wire_check(obase, ouri, oargs, okwargs, P.ref_has_box(ctx.side_b, False, ouri), what)
    ctx.scan("genuine replies")
    if not (enc and oenc):
        return
    final_parts = P.parts_of(rep[1]) if mode == "progress" else None
    ofinal_parts = P.parts_of(orep[1]) if mode == "progress" else None

    def exchange(q, env=None):
        """fresh pending call at A; the (altered) reply ``q`` is delivered for it -> (outcome, progress calls seen)"""
        pp = setup()
        target = proc
        if env is not None and mode != "error":
            target = env
        o, c = pp.call(target, ["pending-slot"], {}, progressive=(mode == "progress"))
        n0 = len(pp.progress)
        if mode == "error":
            pp.send_error(c[1], q, uri=env or uri)
        else:
            pp.send_result(c[1], q, progress=(mode == "progress"))
        prog = pp.progress[n0:]
        if mode == "progress" and pp.alive():
            pp.send_result(c[1], final_parts if target == proc else ofinal_parts)
        return o, prog

    def is_original(oc, prog):
        if mode == "error":
            return oc[0] == err_kind and oc[1] == uri and same(oc[2], rargs) and same(oc[3], rkwargs)
        if mode == "progress":
            return len(prog) == 1 and same(prog[0][0], rargs) and same(prog[0][1], rkwargs) and oc == ("ok", ("single", "c20-final"))
        return oc[0] == "ok" and same(oc, ("ok", norm_result(rargs, rkwargs)))

    def genuine_ok(when):
        o, prog = exchange(parts)
        R.count("positive_controls")
        oc = ctx.outcome(o)
        if not is_original(oc, prog):
            ctx.V("C20/%s/not-recovered/genuine-between-faults" % path, "the genuine reply was not delivered exactly (%s)" % when,
                  got=short((oc, prog), 500), expected=short((uri, rargs, rkwargs), 400))
        elif defined:
            R.count("mapped_errors_compared")

    genuine_ok("before faults")
    n = 0
    for fclass, label, q, strict, env in variants(ctx, parts, kid, uri, rargs, rkwargs, ouri, oparts, stride):
        fault_count(ctx, path, fclass)
        if pattern:
            R.count("faults_pattern_registration")
        if defined:
            R.count("faults_error_defined_class")
        o, prog = exchange(q, env)
        oc = ctx.outcome(o)
        alive = ctx.pair.alive()
        ctx.nontrivial("fault", path + ("-pattern" if pattern else "") + ("-defined-" + defined if defined else ""), fclass, label)
        if mode == "progress":
            if prog:
                orig = len(prog) == 1 and same(prog[0][0], rargs) and same(prog[0][1], rkwargs)
                if strict or not orig:
                    ctx.V("C20/progress/%s/handler-invoked" % fclass, "on_progress ran after %s (%s) of an encrypted progressive "
                          "RESULT" % (fclass, label), label=label, got=short(prog, 500), original=short((rargs, rkwargs), 400))
                else:
                    R.seen("enc_field_outcomes", "progress/%s/delivered-original" % label)
            elif not strict:
                R.seen("enc_field_outcomes", "progress/%s/%s" % (label, "rejected" if alive else "protocol-error"))
            # the final (genuine) result still has to complete the call - unless the session was torn down
            if alive and oc != ("ok", ("single", "c20-final")) and not (env is not None):
                ctx.V("C20/progress/%s/final-result-lost" % fclass, "after a rejected progressive RESULT the genuine final RESULT "
                      "did not complete the call: %s" % short(oc, 300), label=label)
        elif strict:
            ctx.expect_enc_error(o, path, fclass, label)
        else:
            if is_original(oc, prog):
                R.seen("enc_field_outcomes", "%s/%s/delivered-original" % (path, label))
            elif oc[0] == "apperr" and is_enc_uri(oc[1]):
                R.seen("enc_field_outcomes", "%s/%s/rejected:%s" % (path, label, oc[1]))
            elif not alive:
                R.seen("enc_field_outcomes", "%s/%s/protocol-error" % (path, label))
            else:
                ctx.V("C20/%s/enc-field/call-outcome/%s" % (path, "resolved" if oc[0] == "ok" else oc[0]),
                      "after %s the call completed with something that is neither the original payload nor an encryption "
                      "error: %s" % (label, short(oc, 300)), label=label)
        if not alive:
            R.seen("session_aborts", path + "/" + fclass)
        n += 1
        if n % 200 == 0:
            genuine_ok("between faults")
    genuine_ok("after faults")
    ctx.scan("after %s faults" % path)
    ctx.clear_secrets()
    R.sample({"config": ctx.cfg, "path": path, "uri": uri, "ciphertext_hex": bytes(parts["tail"][0]).hex(),
              "alterations": n, "plain": short((rargs, rkwargs), 200)}, kind="fault-enumeration")


def family_faults(ctx):
    R = ctx.R
    R.seen("layouts", ctx.lname)
    stride = ctx.case.get("stride", 1)
    shape = ctx.case.get("shape")
    # two URIs under the SAME key (needed for the URI swaps)
    uri, other = ctx.case.get("uris", ["com.c20.p.a1", "com.c20.p.b7"])
    for path in ctx.case.get("paths", ["event", "event-pattern", "invocation", "result", "progress", "error",
                                       "invocation-pattern", "result-pattern", "progress-pattern", "error-pattern",
                                       "error-defined-any", "error-defined-fixed"]):
        if path == "event":
            faults_event(ctx, uri, other, shape, stride)
        elif path == "event-pattern":
            faults_event(ctx, uri, other, shape, max(stride, 3), pattern=True)
        elif path == "invocation":
            faults_invocation(ctx, uri, other, shape, stride)
        elif path == "invocation-pattern":
            faults_invocation(ctx, uri, other, shape, max(stride, 3), pattern=True)
        elif path == "error-defined-any":
            faults_reply(ctx, uri, other, shape, stride, "error", defined="any")
        elif path == "error-defined-fixed":
            faults_reply(ctx, uri, other, shape, max(stride, 3), "error", defined="fixed")
        elif path.endswith("-pattern"):
            faults_reply(ctx, uri, other, shape, max(stride, 5), path[:-8], pattern=True)
        else:
            faults_reply(ctx, uri, other, shape, stride, path)


# ------------------------------------------------------------------------------------------------
# family 3: values the inner codec cannot carry (the plaintext fall-back question)
# ------------------------------------------------------------------------------------------------

class _Opaque:
    def __repr__(self):
        return "<opaque>"


def unencodable(kind):
    if kind == "datetime":
        return datetime.datetime(2020, 1, 2, 3, 4, 5, tzinfo=datetime.timezone.utc)
    if kind == "set":
        return {1, 2, 3}
    if kind == "object":
        return _Opaque()
    raise ValueError(kind)


def family_unencodable(ctx):
    """Every direction with one value the inner JSON codec cannot dump next to a tagged sibling: whatever the library
    does with it, the sibling tag (payload of a message the rule says is encrypted) must not show up on the wire."""
    R = ctx.R
    proc, topic, err = "com.c20.p.a1", "com.c20.p.t1", "com.c20.p.err1"
    for vkind in ("datetime", "set", "object"):
        for direction in ("publish", "call", "result", "callresult", "progress", "error"):
            R.count("evaluations")
            R.count("unencodable_probes")
            p = ctx.P()
            p.ensure_reg(proc)
            p.ensure_sub(topic)
            ctx.input_class = "unencodable-" + ("result" if direction == "callresult" else direction)
            bad = unencodable(vkind)
            tag, tag2 = ctx.tg.new("s"), ctx.tg.new("s")
            ctx.add_secrets([("s", tag), ("s", tag2)])
            ctx.nontrivial("unencodable", vkind, direction)
            what = "?"
            try:
                if direction == "publish":
                    p.publish(topic, [bad, tag], {"k": tag2})
                    what = "sent"
                elif direction == "call":
                    p.call(proc, [bad, tag], {"k": tag2})
                    what = "sent"
                else:
                    script = {"result": ("value", [bad, tag, tag2]), "callresult": ("callresult", [bad, tag], {"k": tag2}),
                              "progress": ("progress", [([bad, tag], {"k": tag2})], ("value", "c20-final")),
                              "error": ("raise", err, [bad, tag], {"k": tag2})}[direction]
                    p.script[:] = [script]
                    o, c = p.call(proc, ["c20-req"], {}, progressive=(direction == "progress"))
                    rid, invs, replies = p.send_invocation(proc, _P().parts_of(c))
                    p.script[:] = []
                    what = "replies:" + ",".join("%s%s" % (MSGNAME.get(r[0]), ":" + r[4] if r[0] == ERROR else
                                                          (":enc" if r[2].get("enc_algo") else ":CLEAR")) for r in replies) or "none"
                    for r in replies:
                        try:
                            p.forward_reply(c[1], r)
                        except Exception:
                            pass
                    oc = ctx.outcome(o)
                    what += " -> caller:" + (oc[0] + (":" + str(oc[1]) if oc[0] == "apperr" else ""))
            except Exception as e:
                what = "raised:" + type(e).__name__
            R.seen("unencodable_outcomes", "%s/%s/%s" % (direction, vkind, what))
            ctx.scan("unencodable %s in %s" % (vkind, direction))
            ctx.clear_secrets()
            ctx.input_class = "regular"
            # exceptions out of callbacks (C10's subject) may have torn the pair down
            if not ctx.pair.alive() or ctx.pair.escaped():
                ctx.drop()


def family_rejoin(ctx):
    """Session life cycle: key ring set once before the first join (or, control, in every onJoin) -> traffic -> GOODBYE
    handshake with the transport kept open -> join() again on the same object -> the same traffic must again be
    encrypted by the key ring rule and recovered exactly (twice: both GOODBYE initiators)."""
    R = ctx.R
    who, first = ctx.case["who"], ctx.case["initiator"]
    uris = ["com.c20.p.a1", "com.c20.p.q.a2", "org.c20.a6"]

    def traffic():
        for uri in uris:
            rt_publish(ctx, uri)
            for kind in KINDS:
                rt_call(ctx, uri, kind)
        rt_publish(ctx, "com.c20.p.q.a2", sub_topic="com.c20.p.", match="prefix")
        rt_call(ctx, "com.c20.p.a1", "callresult", reg="com.c20.", match="prefix")

    ctx.P()
    traffic()
    for initiator in (first, "router" if first == "client" else "client"):
        p = ctx.pair
        if p is None or not p.alive():
            ctx.V("C20/rejoin/session-lost", "pair not alive before the GOODBYE handshake")
            return
        p.rejoin(who, initiator)
        if not p.alive():
            ctx.V("C20/rejoin/second-join-failed", "session objects did not join again on the kept transport")
            return
        ctx.session_no += 1
        ctx.input_class = "later-session"
        R.count("rejoins")
        R.seen("rejoin_variants", "%s/%s/%s" % (who, initiator, ctx.case.get("codec_mode", "ctor")))
        traffic()
    ctx.input_class = "regular"


# ------------------------------------------------------------------------------------------------
# family 5: the key ring changes WHILE the sessions are joined and after URIs were already used
# ------------------------------------------------------------------------------------------------

# (URI driven in every direction, error URI its endpoint raises): one pair per prefix class of PREFIX_POOL + "no prefix"
HIST_URIS = [("com.c20.p.a1", "com.c20.p.err1"), ("com.c20.p.q.a2", "com.c20.p.q.err2"), ("com.c20.zz.a4", "com.c20.zerr3"),
             ("org.c20.a6", "org.c20.err4")]
HIST_ALL = [u for pair in HIST_URIS for u in pair] + ["wamp.error.runtime_error"]
HIST_COUNTERS = {  # new counter <- counters of the shared verdict code whose increase it accumulates
    "post_change_wire_judged": ("wire_encrypted_opened", "wire_clear_by_rule"),
    "post_change_deliveries_compared": ("events_compared", "invocations_compared", "results_compared", "progress_compared",
                                        "errors_compared"),
    "post_change_rejections_checked": ("rejections_checked",),
}


def _both(**op):
    return [dict(op, who="A"), dict(op, who="B")]


def SK(who, prefix, key):
    """step: KeyRing.set_key(prefix, key) on the live key ring(s) of ``who`` (key None = remove; prefix "" = default key)"""
    ops = _both(op="set_key", prefix=prefix, key=key) if who == "both" else [{"who": who, "op": "set_key", "prefix": prefix, "key": key}]
    return {"label": "%s.set_key(%r,%s)" % (who, prefix, key), "ops": ops}


def SC(label, a="keep", b="keep"):
    """step: session.set_payload_codec(new key ring | None) on A and/or B"""
    ops = [{"who": w, "op": "codec", "side": s} for w, s in (("A", a), ("B", b)) if s != "keep"]
    return {"label": "set_payload_codec[%s]" % label, "ops": ops}


# scripted histories: (name, initial side A, initial side B, steps); the full traffic runs before the first and after
# every step, always over the SAME URIs
HISTORIES = [
    # keys arrive late: URIs first travel in clear under an active but empty key ring, then prefixes get covered
    ("keys-set-late", K("orig"), K("resp"),
     [SK("both", "com.c20.p.", 1), SK("both", "com.c20.p.q.", 2), SK("both", "", 0), SK("both", "com.c20.p.q.", None),
      SK("both", "com.", 3), SK("both", "", None), SK("both", "com.c20.p.", None), SK("both", "com.", None)]),
    # one side rolls a key, the other follows one step later (in between: wrong key -> must be rejected)
    ("keys-rolled", K("orig", 0, _PQ), K("resp", 0, _PQ),
     [SK("B", "com.c20.p.", 3), SK("A", "com.c20.p.", 3), SK("A", "", 5), SK("B", "", 5), SK("A", "com.c20.p.q.", None),
      SK("B", "com.c20.p.q.", None), SK("B", "wamp.error.", 6), SK("A", "wamp.error.", 6), SK("B", "org.", [0, 3]),
      SK("B", "org.", None)]),
    # keys removed on one side only / default key removed
    ("keys-removed", K("full", 0, {"com.c20.z": 3, "com.c20.p.": 1}), K("full", 0, {"com.c20.z": 3, "com.c20.p.": 1}),
     [SK("B", "", None), SK("B", "com.c20.p.", None), SK("A", "com.c20.p.", None), SK("A", "", None), SK("A", "com.c20.z", None),
      SK("B", "com.c20.z", None), SK("both", "", 0), SK("B", "com.c20.p.q.", 2)]),
    # a key for exactly the URI in use (URI == registered prefix) set / replaced / removed
    ("exact-uri-keys", K("orig", 0), K("resp", 0),
     [SK("both", "com.c20.p.a1", 2), SK("both", "com.c20.p.err1", 3), SK("B", "com.c20.p.a1", 1), SK("A", "com.c20.p.a1", 1),
      SK("both", "wamp.error.runtime_error", 6), SK("both", "com.c20.p.a1", None), SK("both", "com.c20.p.err1", None),
      SK("both", "wamp.error.runtime_error", None)]),
    # the payload codec object itself is replaced / removed / installed on joined sessions
    ("codec-replaced", K("orig", 0), K("resp", 0),
     [SC("A:prefix-only", a=K("orig", None, _PQ)), SC("B:prefix-only", b=K("resp", None, _PQ)), SC("A:none", a=None),
      SC("B:none", b=None), SC("both:default4+prefix", a=K("orig", 4, {"com.c20.p.": 1}), b=K("resp", 4, {"com.c20.p.": 1})),
      SK("both", "com.c20.p.", 2), SC("B:wrong-pair", b=K("resp", [8, 3], {"com.c20.p.": 2})), SC("both:full0", a=K("full", 0), b=K("full", 0))]),
]


def _norm_kid(k):
    return None if k is None else tuple(sorted(_P()._idx(k)))


def hist_status(ctx, uri):
    """(key A's rule names for originating ``uri``, key B's rule names for responding to ``uri``)"""
    P = _P()
    return (_norm_kid(P.ref_has_box(ctx.side_a, True, uri)), _norm_kid(P.ref_has_box(ctx.side_b, False, uri)))


def _transition(k0, k1):
    """'=' unchanged, 'n>k' no key -> key, 'k>n' key -> no key, 'rk' another key  (short: distinct-set members > 24
    characters are hashed by the recorder)"""
    if k0 == k1:
        return "="
    if k0 is None:
        return "n>k"
    if k1 is None:
        return "k>n"
    return "rk"


def hist_apply(ctx, step):
    """Apply one step to the REAL key rings / sessions of the live pair and to the reference layout."""
    R = ctx.R
    p = ctx.P()
    used = set(getattr(p, "c20_used", ()))
    before = {u: hist_status(ctx, u) for u in HIST_ALL}
    classes = []
    for op in step["ops"]:
        who = op["who"]
        side = ctx.side_a if who == "A" else ctx.side_b
        if op["op"] == "set_key":
            if side is None:
                R.count("keyring_ops_skipped_no_codec")
                continue
            prefix, key = op["prefix"], op["key"]
            if prefix == "":
                cls = "d" + ("-" if key is None else ("~" if side.get("default") is not None else "+"))
                side["default"] = key
            else:
                had = prefix in side["prefixes"]
                kind = "x" if prefix in HIST_ALL else "p"
                cls = kind + ("-" if key is None else ("~" if had else "+"))
                if key is None:
                    side["prefixes"].pop(prefix, None)
                else:
                    side["prefixes"][prefix] = key
            p.set_key(who, side["view"], prefix, key)
        else:
            new = copy.deepcopy(op["side"])
            cls = "c" + ("-" if new is None else ("+" if side is None else "~"))
            if who == "A":
                ctx.side_a = new
            else:
                ctx.side_b = new
            p.set_codec(who, new)
        classes.append("%s:%s" % (who, cls))
    # op classes: p = key of a proper prefix, x = key of exactly a URI in use, d = default key, c = payload codec object;
    # + added / ~ replaced / - removed; e.g. "A:p+,B:p+" = a prefix key added on both sides in one step
    opclass = ",".join(classes) or "nothing"
    after = {u: hist_status(ctx, u) for u in HIST_ALL}
    changed = set(u for u in HIST_ALL if before[u] != after[u])
    p.c20_hist_used = used              # URIs that had been driven on THIS pair (these sessions, these key ring objects)
    p.c20_hist_changed = changed & used
    ctx.history.append(step["label"])
    if used:
        R.count("keyring_changes_after_use")
        R.seen("keyring_change_ops", opclass)
    else:
        R.count("keyring_changes_without_history")
    for u in sorted(changed & used):
        R.seen("keyring_change_transitions", "%s/%s/%s" % (
            opclass, _transition(before[u][0], after[u][0]), _transition(before[u][1], after[u][1])))


def hist_exchange(ctx, uris, fn):
    """Run one exchange of the shared round-trip code; book what it judged when it ran on a pair whose key ring was
    changed AFTER these URIs had been used on it."""
    R = ctx.R
    p0 = ctx.P()
    with_hist = any(u in getattr(p0, "c20_hist_used", ()) for u in uris)
    status_changed = any(u in getattr(p0, "c20_hist_changed", ()) for u in uris)
    watched = set(n for names in HIST_COUNTERS.values() for n in names)
    snap = dict((n, R.counters.get(n, 0)) for n in watched)
    fn()
    if not hasattr(p0, "c20_used"):
        p0.c20_used = set()
    p0.c20_used.update(uris)
    if with_hist:
        R.count("post_change_exchanges")
        total = 0
        for new, names in HIST_COUNTERS.items():
            d = sum(R.counters.get(n, 0) - snap[n] for n in names)
            R.count(new, d)
            total += d
        if status_changed and total:
            R.count("post_change_exchanges_status_changed")
    if ctx.pair is not p0 or not p0.alive():
        R.count("history_pairs_lost")


def hist_traffic(ctx):
    for uri, err in HIST_URIS:
        hist_exchange(ctx, [uri], lambda: rt_publish(ctx, uri))
        for kind in KINDS:
            ctx.force_err = err
            extra = {"raise": [err], "raise_rt": ["wamp.error.runtime_error"]}.get(kind, [])
            try:
                hist_exchange(ctx, [uri] + extra, lambda: rt_call(ctx, uri, kind))
            finally:
                ctx.force_err = None
    hist_exchange(ctx, ["com.c20.p.q.a2"], lambda: rt_publish(ctx, "com.c20.p.q.a2", sub_topic="com.c20.p.", match="prefix"))
    hist_exchange(ctx, ["com.c20.p.a1"], lambda: rt_call(ctx, "com.c20.p.a1", "callresult", reg="com.c20.", match="prefix"))


def family_history(ctx):
    """Key ring HISTORY: traffic over a fixed URI set -> a change of the key ring (set_key on the live KeyRing object for
    a proper prefix / the exact URI / the default key: added, replaced, removed; or a new payload codec set on the joined
    session) on one or both sides -> the SAME URIs again, in every direction.  The oracle is the unchanged key ring rule
    applied to the layout as it stands after the change: whatever the sessions or the key ring remembered from earlier
    use of a URI must not show."""
    R = ctx.R
    ctx.history = ["initial:" + ctx.lname]
    R.seen("layouts", ctx.lname if not ctx.lname.startswith("rnd") else "rnd/" + _hash(ctx.case["layout"]))
    ctx.P()
    hist_traffic(ctx)
    for step in ctx.case["steps"]:
        hist_apply(ctx, step)
        ctx.input_class = "after-keyring-change"
        hist_traffic(ctx)
    ctx.input_class = "regular"


def random_history(rng, nsteps):
    """-> (layout, steps): a random initial layout and ``nsteps`` random changes (removals / replacements pick among what
    is set at that moment so that they take effect)."""
    lay = random_layout(rng)
    sim = {"A": copy.deepcopy(lay["a"]), "B": copy.deepcopy(lay["b"])}
    steps = []
    for _ in range(nsteps):
        c = rng.random()
        who = rng.choice(["both", "both", "A", "B", "B"])
        sides = ["A", "B"] if who == "both" else [who]
        if c < 0.15 or all(sim[w] is None for w in sides):
            other = random_layout(rng)
            new = {"A": other["a"], "B": other["b"]}
            if rng.random() < 0.15:
                new[rng.choice(sides)] = None
            steps.append(SC("%s:rnd" % who, a=new["A"] if "A" in sides else "keep", b=new["B"] if "B" in sides else "keep"))
            for w in sides:
                sim[w] = copy.deepcopy(new[w])
            continue
        have = sorted(set(pf for w in sides if sim[w] is not None for pf in sim[w]["prefixes"]))
        has_default = any(sim[w] is not None and sim[w].get("default") is not None for w in sides)
        if c < 0.45 and (have or has_default):
            prefix = rng.choice(have + ([""] if has_default else []))       # remove something that is set
            key = None
        elif c < 0.65 and (have or has_default):
            prefix = rng.choice(have + ([""] if has_default else []))       # replace something that is set
            key = rng.choice([1, 2, 3, 5, 6, [2, 3], [6, 1]])
        else:
            prefix = rng.choice(PREFIX_POOL + ["", "org.", "com.c20.p.a1", "com.c20.p.q.err2", "org.c20.a6"])
            key = rng.choice([0, 1, 2, 3, 5, 6, [2, 3]])
        steps.append(SK(who, prefix, key))
        for w in sides:
            if sim[w] is None:
                continue
            if prefix == "":
                sim[w]["default"] = key
            elif key is None:
                sim[w]["prefixes"].pop(prefix, None)
            else:
                sim[w]["prefixes"][prefix] = key
    return lay, steps


FAMILIES = {"history": family_history, "rejoin": family_rejoin, "roundtrip": family_roundtrip, "faults": family_faults, "unencodable": family_unencodable}


def run_case(case, R):
    ctx = Ctx(R, case)
    try:
        FAMILIES[case["family"]](ctx)
    finally:
        ctx.drop()


# ------------------------------------------------------------------------------------------------
# layouts, shards
# ------------------------------------------------------------------------------------------------

def random_layout(rng):
    def side():
        if rng.random() < 0.06:
            return None
        view = rng.choice(["full", "orig", "resp", "full", "orig"])
        default = rng.choice([None, 0, 0, 1, 5, [0, 3]])
        prefixes = {}
        for pfx in PREFIX_POOL:
            if rng.random() < 0.4:
                prefixes[pfx] = rng.choice([1, 2, 3, 6, [2, 3], [6, 1]])
        return K(view, default, prefixes)

    a = side()
    c = rng.random()
    if a is None or c < 0.2:
        b = side()
    else:
        # the counterpart of a, with a few divergences
        b = K({"full": "full", "orig": "resp", "resp": "orig"}[a["view"]] if rng.random() < 0.8 else rng.choice(["full", "orig", "resp"]),
              a["default"], a["prefixes"])
        if c < 0.45:
            pf = dict(b["prefixes"])
            r = rng.random()
            if pf and r < 0.4:
                del pf[rng.choice(sorted(pf))]
            elif r < 0.8:
                pf[rng.choice(PREFIX_POOL)] = rng.choice([1, 2, 3, 6, [2, 3]])
            else:
                b["default"] = rng.choice([None, 0, 1, 5])
            b["prefixes"] = pf
    return {"name": "rnd", "a": a, "b": b}


def shards(tier, seed):
    out = []
    for fw in ("tx", "aio"):
        for ci, (tr, ser) in enumerate(COMBOS):
            out.append({"name": "%s-%s-%s" % (fw, tr, ser), "fw": fw, "timeout": 900 if tier == "quick" else 3000,
                        "params": {"tier": tier, "seed": seed, "combo": ci, "fw": fw}})
    if tier == "thorough":
        for fw in ("tx", "aio"):
            for ci in (0, 2, 5, 7):
                tr, ser = COMBOS[ci]
                out.append({"name": "%s-%s-%s-purepy" % (fw, tr, ser), "fw": fw, "timeout": 3000,
                            "env": {"AUTOBAHN_USE_NVX": "0"},
                            "params": {"tier": "thorough-purepy", "seed": seed + 7919, "combo": ci, "fw": fw}})
    return out


def cases_for(params):
    tier, seed, ci, fw = params["tier"], params["seed"], params["combo"], params["fw"]
    transport, ser = COMBOS[ci]
    fwi = 0 if fw == "tx" else 1
    rng = random.Random(seed * 1000003 + ci * 7919 + fwi * 104729)
    base = {"transport": transport, "ser": ser}
    cases = []
    # --- round trips: all fixed layouts, then seeded random ones
    for name, a, b in LAYOUTS:
        cases.append(dict(base, family="roundtrip", layout={"name": name, "a": a, "b": b}, seed=rng.getrandbits(48),
                          reps=1 if tier == "quick" else 3))
    nrand = {"quick": 10, "thorough": 200, "thorough-purepy": 50}[tier]
    for _ in range(nrand):
        cases.append(dict(base, family="roundtrip", layout=random_layout(rng), seed=rng.getrandbits(48), reps=1))
    # --- fault enumeration on matched layouts
    nf = {"quick": 3, "thorough": 12, "thorough-purepy": 4}[tier]
    sizes = ["small", "medium", "medium"] if tier == "quick" else ["small", "medium", "large", "medium"]
    for k in range(nf):
        li = FAULT_LAYOUTS[(ci + 2 * fwi + seed + k) % len(FAULT_LAYOUTS)]
        name, a, b = LAYOUTS[li]
        shape = SHAPES[1 + (ci + fwi + seed + 3 * k) % (len(SHAPES) - 1)]
        cases.append(dict(base, family="faults", layout={"name": name, "a": a, "b": b}, seed=rng.getrandbits(48),
                          shape=shape, size=sizes[k % len(sizes)], stride=1))
    # --- session life cycle: GOODBYE with the transport kept open, join() again on the same session objects
    variants_rj = [(w, i, m) for m in ("ctor", "onjoin") for w in ("A", "B", "both") for i in ("client", "router")]
    nrj = len(variants_rj) if tier != "quick" else 6
    for k in range(nrj):
        who, ini, mode = variants_rj[(k * 5 + ci + 3 * fwi + seed) % len(variants_rj)] if tier == "quick" else variants_rj[k]
        name, a, b = LAYOUTS[[1, 0, 2, 3, 5, 9, 13][(k + ci + seed) % 7]]
        cases.append(dict(base, family="rejoin", layout={"name": name, "a": a, "b": b}, seed=rng.getrandbits(48),
                          who=who, initiator=ini, codec_mode=mode))
    # --- key ring history: the key ring changes while the sessions are joined, after the URIs were already used
    for name, a, b, steps in HISTORIES:
        cases.append(dict(base, family="history", layout={"name": "history/" + name, "a": a, "b": b}, seed=rng.getrandbits(48),
                          steps=steps))
    nh, hsteps = {"quick": (2, 5), "thorough": (24, 8), "thorough-purepy": (8, 8)}[tier]
    for _ in range(nh):
        lay, steps = random_history(rng, hsteps)
        cases.append(dict(base, family="history", layout=lay, seed=rng.getrandbits(48), steps=steps))
    # --- values the inner codec cannot carry
    name, a, b = LAYOUTS[[1, 0, 2][(ci + seed) % 3]]
    cases.append(dict(base, family="unencodable", layout={"name": name, "a": a, "b": b}, seed=rng.getrandbits(48)))
    return cases


def run_shard(params, R):
    transport, ser = COMBOS[params["combo"]]
    R.seen("configs", "%s/%s/%s%s" % (params["fw"], transport, ser, "/purepy" if params["tier"].endswith("purepy") else ""))
    for k in DECIDING:
        if k not in ("enc_error_uris", "layouts", "pattern_policies", "rejoin_variants", "keyring_change_ops",
                     "keyring_change_transitions"):
            R.count(k, 0)
    for case in cases_for(params):
        run_case(case, R)
    R.note("nonces_distinct_in_shard", len(NONCES))


def replay(case, R):
    run_case(case, R)


MANIFEST_ENTRY = {
    "text": ("An originator and a responder session (real ApplicationSessions with real cryptobox KeyRings behind the real "
             "client transports: WebSocket and RawSocket, Twisted and asyncio, json/msgpack/cbor/ubjson) are joined by a "
             "forwarding stub that plays the router with plain WAMP lists. Over 16 fixed and seeded random key-ring layouts "
             "(default key, nested per-prefix keys, prefix-only, originator-only / responder-only halves, wrong key pairs, "
             "diverging prefix tables, no codec) and all payload paths (publish/event incl. prefix subscriptions, "
             "call/invocation, yield/result incl. progressive results, errors) the monitor reads every message back from the "
             "transport octets: where the independently re-stated key-ring rule says 'encrypted' the payload must open with "
             "PyNaCl under the rule's key to exactly the application's uri/args/kwargs, none of the unique argument tags "
             "(raw and in each serializer's item encoding) may occur in any octets written, nonces must never repeat, and "
             "the receiving handler / call outcome must equal the originator's data for matching key rings and be a rejection "
             "(encryption error for calls) otherwise. Fault enumeration on matched layouts: every single octet of a genuine "
             "ciphertext XOR 01/80/FF, every truncation, extensions, harness-sealed payloads under wrong key pairs, swapped "
             "envelope URIs, altered enc_* fields, on all five paths, with positive controls in between. Key ring history: on "
             "joined sessions, after the URIs were used, keys are added / replaced / removed on the live KeyRing (proper "
             "prefix, exact URI, default key; one side or both) or the payload codec is replaced, and the same URIs are driven "
             "again under the same oracle applied to the layout after the change. Held = no deviation "
             "on the executions listed in the evidence; not a proof."),
    "note": ("known finding S-20: a result the inner JSON codec cannot encode is sent in clear (YIELD over CBOR) or echoed "
             "in a clear invalid_payload ERROR (other serializers). Not asserted: replay/reflection of genuine ciphertexts, "
             "swaps between results of the same procedure, session survival after a rejected message, the outcome of calls "
             "whose result cannot be encrypted, exact equality on the clear path; enc_* field alterations only must not "
             "deliver anything but the original payload; key ring changes while a call is in flight; rotate_key(). Trusts "
             "PyNaCl and the harness codecs."),
    "technique": "runtime monitoring: history + independent key-ring rule, unique payload tags searched in the transport "
                 "octets, PyNaCl opening of observed ciphertexts, exhaustive single-octet / truncation fault enumeration "
                 "with positive controls on virtual-clock worlds",
}
