"""Independent table of the WAMP message grammar (25 message classes) + generators.

Written from the WAMP specification (basic + advanced profile: message layouts, type codes, which
list position carries an id / URI / dict / args / kwargs, option and detail keys with their JSON
types and enumerated values) - NOT derived from ``autobahn.wamp.message``.  A few keys are
implementation specific to autobahn/crossbar and have no counterpart in the specification text
(``forward_for``, ``enc_*`` payload transparency, ``transaction_hash``, session resumption keys,
``x_acknowledged_delivery``, ``force_reregister``, ``callee*``/``caller*`` disclosure in
RESULT/ERROR/YIELD); for these the table follows the documented meaning of the public
constructor arguments (they are listed in ``IMPLEMENTATION_SPECIFIC``).

``crosscheck()`` compares the table with the code at start-up (type codes, the option keys the
code's ``parse()`` reads, public attributes, admissible lengths, role feature names).  A key
the *code* knows and the table does not is *drift*: the checks then report INCONCLUSIVE, never a
violation.  A key only the table knows is just noted (if the code really lost it, the round-trip
check C03 reports the lost attribute itself).

Used by checks/c03.py (valid messages + payloads, attribute lists, normalisation) and
checks/c08.py (skeletons, position/option kinds, must-reject oracle).
"""

import itertools
import re

MAXID = 2 ** 53

# ------------------------------------------------------------------------------------------------
# table
# ------------------------------------------------------------------------------------------------


class Pos:
    """A fixed position of the wire list.  kinds: id | uri | dict | str | extra | reqtype"""

    def __init__(self, name, kind, attr=None, **kw):
        self.name = name
        self.kind = kind
        self.attr = attr if attr is not None else (None if kind == "dict" else name)
        self.allow_none = kw.get("allow_none", False)
        self.empty = kw.get("empty", "none")      # none | any | by-match  (URI component emptiness)
        self.optional = kw.get("optional", False)  # trailing optional dict (autobahn extension / router revocation)


class Opt:
    """A key inside the options/details dict.

    typ: bool | str | text | uri | int | nat | posint | enum | list-int | list-str | dict |
         forward_for | roles | enc_algo | enc_key | enc_serializer
    default: the value the WAMP spec assigns to an absent key (absent == default)
    """

    def __init__(self, key, typ, attr=None, default=None, values=None, requires=None, roles=None):
        self.key = key
        self.typ = typ
        self.attr = attr or key.replace("-", "_")
        self.default = default
        self.values = values
        self.requires = requires      # attr that must also be present (admissibility constraint)
        self.roles = roles


class Spec:
    def __init__(self, name, code, layout, lengths, opts=(), payload=False, custom=False):
        self.name = name
        self.code = code
        self.layout = layout
        self.lengths = tuple(lengths)
        self.opts = list(opts)
        self.payload = payload          # trailing Arguments|list, ArgumentsKw|dict (or opaque payload)
        self.custom = custom            # details may carry implementation specific x_* keys (attr "custom")
        self.dictpos = None
        for i, p in enumerate(layout):
            if p.kind == "dict":
                self.dictpos = i + 1
                self.dictname = p.name
        if payload:
            self.opts += [Opt("enc_algo", "enc_algo"), Opt("enc_key", "enc_key"), Opt("enc_serializer", "enc_serializer")]
        self.opt_by_key = {o.key: o for o in self.opts}
        self.opt_by_attr = {o.attr: o for o in self.opts}
        self.attrs = [p.attr for p in layout if p.attr] + [o.attr for o in self.opts if o.typ not in ("enc_algo", "enc_key", "enc_serializer")]
        if payload:
            self.attrs += ["args", "kwargs", "payload", "enc_algo", "enc_key", "enc_serializer"]
        if custom:
            self.attrs += ["custom"]
        self.fixed_len = len(layout) + 1


def FF():
    return Opt("forward_for", "forward_for")


MATCH = ("exact", "prefix", "wildcard")
INVOKE = ("single", "first", "last", "roundrobin", "random")
ERROR_REQUEST_TYPES = (32, 34, 16, 64, 66, 48, 68)   # SUBSCRIBE UNSUBSCRIBE PUBLISH REGISTER UNREGISTER CALL INVOCATION
ENC_ALGOS = ("cryptobox", "mqtt", "xbr")
ENC_SERIALIZERS = ("json", "msgpack", "cbor", "ubjson", "flatbuffers")
CUSTOM_ATTR = re.compile(r"^x_([a-z][0-9a-z_]+)?\Z")

# role -> advanced profile feature names announced under roles.<role>.features
FEATURES = {
    "publisher": ["publisher_identification", "subscriber_blackwhite_listing", "publisher_exclusion",
                  "payload_transparency", "x_acknowledged_event_delivery", "payload_encryption_cryptobox"],
    "subscriber": ["publisher_identification", "publication_trustlevels", "pattern_based_subscription",
                   "subscription_revocation", "event_history", "payload_transparency", "payload_encryption_cryptobox"],
    "caller": ["caller_identification", "call_timeout", "call_canceling", "progressive_call_results",
               "payload_transparency", "payload_encryption_cryptobox"],
    "callee": ["caller_identification", "call_trustlevels", "pattern_based_registration", "shared_registration",
               "call_timeout", "call_canceling", "progressive_call_results", "registration_revocation",
               "payload_transparency", "payload_encryption_cryptobox"],
    "broker": ["publisher_identification", "publication_trustlevels", "pattern_based_subscription",
               "session_meta_api", "subscription_meta_api", "subscriber_blackwhite_listing", "publisher_exclusion",
               "subscription_revocation", "event_history", "payload_transparency", "x_acknowledged_event_delivery",
               "payload_encryption_cryptobox", "event_retention"],
    "dealer": ["caller_identification", "call_trustlevels", "pattern_based_registration", "session_meta_api",
               "registration_meta_api", "shared_registration", "call_timeout", "call_canceling",
               "progressive_call_results", "registration_revocation", "payload_transparency", "testament_meta_api",
               "payload_encryption_cryptobox"],
}

IMPLEMENTATION_SPECIFIC = ["forward_for", "enc_algo", "enc_key", "enc_serializer", "transaction_hash", "resumable",
                           "resume-session", "resume-token", "resumed", "resume_token", "x_acknowledged_delivery",
                           "force_reregister", "callee", "callee_authid", "callee_authrole", "authprovider",
                           "UNSUBSCRIBE/UNREGISTER trailing options dict", "EVENT_RECEIVED (337)"]

SPECS = [
    Spec("Hello", 1, [Pos("realm", "uri", allow_none=True), Pos("details", "dict")], (3,), [
        Opt("roles", "roles", roles=("subscriber", "publisher", "caller", "callee")),
        Opt("authmethods", "list-str"), Opt("authid", "str"), Opt("authrole", "str"), Opt("authextra", "dict"),
        Opt("resumable", "bool", default=False), Opt("resume-session", "int", requires="resume_token"),
        Opt("resume-token", "str")]),
    Spec("Welcome", 2, [Pos("session", "id"), Pos("details", "dict")], (3,), [
        Opt("roles", "roles", roles=("broker", "dealer")),
        Opt("realm", "str"), Opt("authid", "str"), Opt("authrole", "str"), Opt("authmethod", "str"),
        Opt("authprovider", "str"), Opt("authextra", "dict"), Opt("resumed", "bool", default=False),
        Opt("resumable", "bool", default=False, requires="resume_token"), Opt("resume_token", "str")], custom=True),
    Spec("Abort", 3, [Pos("details", "dict"), Pos("reason", "uri")], (3,), [Opt("message", "text")]),
    Spec("Challenge", 4, [Pos("method", "str"), Pos("extra", "extra")], (3,)),
    Spec("Authenticate", 5, [Pos("signature", "str"), Pos("extra", "extra")], (3,)),
    Spec("Goodbye", 6, [Pos("details", "dict"), Pos("reason", "uri")], (3,),
         [Opt("message", "text"), Opt("resumable", "bool", default=False)]),
    Spec("Error", 8, [Pos("request_type", "reqtype"), Pos("request", "id"), Pos("details", "dict"), Pos("error", "uri")],
         (5, 6, 7), [Opt("callee", "int"), Opt("callee_authid", "str"), Opt("callee_authrole", "str"), FF()], payload=True),
    Spec("Publish", 16, [Pos("request", "id"), Pos("options", "dict"), Pos("topic", "uri")], (4, 5, 6), [
        Opt("acknowledge", "bool", default=False), Opt("exclude_me", "bool", default=True), Opt("exclude", "list-int"),
        Opt("exclude_authid", "list-str"), Opt("exclude_authrole", "list-str"), Opt("eligible", "list-int"),
        Opt("eligible_authid", "list-str"), Opt("eligible_authrole", "list-str"), Opt("retain", "bool", default=False),
        Opt("transaction_hash", "str"), FF()], payload=True),
    Spec("Published", 17, [Pos("request", "id"), Pos("publication", "id")], (3,)),
    Spec("Subscribe", 32, [Pos("request", "id"), Pos("options", "dict"), Pos("topic", "uri", empty="any")], (4,), [
        Opt("match", "enum", values=MATCH, default="exact"), Opt("get_retained", "bool", default=False), FF()]),
    Spec("Subscribed", 33, [Pos("request", "id"), Pos("subscription", "id")], (3,)),
    Spec("Unsubscribe", 34, [Pos("request", "id"), Pos("subscription", "id"), Pos("options", "dict", optional=True)],
         (3, 4), [FF()]),
    Spec("Unsubscribed", 35, [Pos("request", "id"), Pos("details", "dict", optional=True)], (2, 3),
         [Opt("subscription", "int"), Opt("reason", "uri")]),
    Spec("Event", 36, [Pos("subscription", "id"), Pos("publication", "id"), Pos("details", "dict")], (4, 5, 6), [
        Opt("publisher", "int"), Opt("publisher_authid", "str"), Opt("publisher_authrole", "str"), Opt("topic", "str"),
        Opt("retained", "bool", default=False), Opt("transaction_hash", "str"),
        Opt("x_acknowledged_delivery", "bool", default=False), FF()], payload=True),
    Spec("EventReceived", 337, [Pos("publication", "id")], (2,)),
    Spec("Call", 48, [Pos("request", "id"), Pos("options", "dict"), Pos("procedure", "uri")], (4, 5, 6), [
        Opt("timeout", "nat"), Opt("receive_progress", "bool", default=False), Opt("transaction_hash", "str"),
        Opt("caller", "int"), Opt("caller_authid", "str"), Opt("caller_authrole", "str"), FF()], payload=True),
    Spec("Cancel", 49, [Pos("request", "id"), Pos("options", "dict")], (3,),
         [Opt("mode", "enum", values=("skip", "kill", "killnowait")), FF()]),
    Spec("Result", 50, [Pos("request", "id"), Pos("details", "dict")], (3, 4, 5), [
        Opt("progress", "bool", default=False), Opt("callee", "int"), Opt("callee_authid", "str"),
        Opt("callee_authrole", "str"), FF()], payload=True),
    Spec("Register", 64, [Pos("request", "id"), Pos("options", "dict"), Pos("procedure", "uri", empty="by-match")], (4,), [
        Opt("match", "enum", values=MATCH, default="exact"), Opt("invoke", "enum", values=INVOKE, default="single"),
        Opt("concurrency", "posint"), Opt("force_reregister", "bool", default=False), FF()]),
    Spec("Registered", 65, [Pos("request", "id"), Pos("registration", "id")], (3,)),
    Spec("Unregister", 66, [Pos("request", "id"), Pos("registration", "id"), Pos("options", "dict", optional=True)],
         (3, 4), [FF()]),
    Spec("Unregistered", 67, [Pos("request", "id"), Pos("details", "dict", optional=True)], (2, 3),
         [Opt("registration", "int"), Opt("reason", "uri")]),
    Spec("Invocation", 68, [Pos("request", "id"), Pos("registration", "id"), Pos("details", "dict")], (4, 5, 6), [
        Opt("timeout", "nat"), Opt("receive_progress", "bool", default=False), Opt("caller", "int"),
        Opt("caller_authid", "str"), Opt("caller_authrole", "str"), Opt("procedure", "str"),
        Opt("transaction_hash", "str"), FF()], payload=True),
    Spec("Interrupt", 69, [Pos("request", "id"), Pos("options", "dict")], (3,),
         [Opt("mode", "enum", values=("kill", "killnowait")), Opt("reason", "uri"), FF()]),
    Spec("Yield", 70, [Pos("request", "id"), Pos("options", "dict")], (3, 4, 5), [
        Opt("progress", "bool", default=False), Opt("callee", "int"), Opt("callee_authid", "str"),
        Opt("callee_authrole", "str"), FF()], payload=True),
]
BY_NAME = {s.name: s for s in SPECS}
BY_CODE = {s.code: s for s in SPECS}
assert len(SPECS) == 25 and len(BY_CODE) == 25


# ------------------------------------------------------------------------------------------------
# canonical, type-sensitive form of values (1 != True != 1.0, tuple == list)
# ------------------------------------------------------------------------------------------------

def canon(v):
    """Canonical, hashable, type-sensitive form.  Values nested deeper than the interpreter's recursion limit
    allows get an equivalent FLAT form (token stream) instead of nested tuples, so that neither building nor
    comparing the canonical form recurses."""
    try:
        return _canon(v)
    except RecursionError:
        return ("deep", tuple(_canon_flat(v)))


def _canon_flat(root):
    """Pre-order token stream of a (possibly very deep) value; structurally equal values <=> equal streams."""
    out = []
    stack = [root]
    close = object()
    while stack:
        if len(out) > 100000:
            out.append("...")       # huge or CYCLIC value (CBOR shared references can build a list containing itself)
            break
        v = stack.pop()
        if v is close:
            out.append(")")
            continue
        t = type(v)
        if t in (list, tuple):
            out.append(("l(", len(v)))
            stack.append(close)
            stack.extend(reversed(v))
        elif t is dict:
            out.append(("d(", len(v)))
            stack.append(close)
            items = sorted(((_canon(k), x) for k, x in v.items()), key=lambda kx: repr(kx[0]))
            for k, x in reversed(items):
                stack.append(x)
                stack.append(_Token(k))
        elif t is _Token:
            out.append(("k", v.value))
        else:
            out.append(_canon(v))
    return out


class _Token:
    def __init__(self, value):
        self.value = value


def _canon(v):
    if v is None:
        return ("n",)
    t = type(v)
    if t is bool:
        return ("b", v)
    if t is int:
        return ("i", v)
    if t is float:
        return ("f", "nan") if v != v else ("f", v)
    if t is str:
        return ("s", v)
    if t in (bytes, bytearray, memoryview):
        return ("y", bytes(v))
    if t in (list, tuple):
        return ("l", tuple(_canon(x) for x in v))
    if t is dict:
        return ("d", tuple(sorted(((_canon(k), _canon(x)) for k, x in v.items()), key=repr)))
    return ("o", t.__name__, _stable_repr(v))


_ADDR = re.compile(r" at 0x[0-9a-fA-F]+")


def _stable_repr(v):
    """repr() without memory addresses (objects such as the email.message.Message cbor2 builds for tag 36 have the
    default object repr; two decodings of the same octets must compare equal)."""
    try:
        r = _ADDR.sub("", repr(v))[:80]
        if hasattr(v, "as_string"):
            r += "|" + v.as_string()[:80]
        return r
    except Exception:
        return "<unrepresentable>"


def clone(v):
    """Structural copy (lists/dicts rebuilt, leaves shared): what a fresh deserialization would deliver.
    Values too deep (or cyclic) to copy recursively are returned as they are."""
    try:
        return _clone(v)
    except RecursionError:
        return v


def _clone(v):
    if type(v) is list:
        return [_clone(x) for x in v]
    if type(v) is dict:
        return {k: _clone(x) for k, x in v.items()}
    return v


def vclass(v):
    """Input class of a hostile value (used in violation keys)."""
    if v is ABSENT:
        return "absent"
    if v is None:
        return "null"
    t = type(v)
    if t is bool:
        return "bool"
    if t is int:
        return "int-negative" if v < 0 else ("int-over-2^53" if v > MAXID else "int")
    if t is float:
        return "float"
    if t is str:
        return "str"
    if t is bytes:
        return "bytes"
    if t is list:
        return "list"
    if t is dict:
        return "dict"
    return t.__name__.lower()


class _Absent:
    def __repr__(self):
        return "<ABSENT>"


ABSENT = _Absent()

# ------------------------------------------------------------------------------------------------
# URI oracle (component wise, no regular expression)
# ------------------------------------------------------------------------------------------------

ASCII_WS = " \t\n\r\x0b\x0c"


def uri_judge(s, strict=False, empty="none"):
    """-> (verdict, input_class); verdict ok | reject | grey.  empty: none | last | any"""
    if type(s) is not str:
        return "reject", vclass(s)
    comps = s.split(".")
    verdict, why = "ok", "uri"
    for i, c in enumerate(comps):
        if c == "":
            if not (empty == "any" or (empty == "last" and i == len(comps) - 1)):
                return "reject", "uri-empty-component"
        for ch in c:
            if ch in ASCII_WS:
                if ch == "\n" and s.endswith("\n") and s.count("\n") == 1:
                    return "reject", "uri-trailing-newline"
                return "reject", "uri-whitespace"
            if ch == "#":
                return "reject", "uri-hash"
            if strict:
                if not (ch in "0123456789_" or "a" <= ch <= "z"):
                    if ch.isdigit():
                        verdict, why = "grey", "uri-unicode-digit"
                    else:
                        return "reject", "uri-strict-char"
            elif ch.isspace():
                verdict, why = "grey", "uri-unicode-whitespace"
    return verdict, why


def match_to_empty(match):
    return {"exact": "none", "prefix": "last", "wildcard": "any"}.get(match, "any")


def valid_enc_ident(v, standard):
    return type(v) is str and (v in standard or CUSTOM_ATTR.match(v) is not None)


# ------------------------------------------------------------------------------------------------
# must-reject oracle for single values
# ------------------------------------------------------------------------------------------------

def _is_int(v):
    return type(v) is int


def judge_pos(spec, pos, v, wire=None):
    """Verdict for value ``v`` at fixed position ``pos``: (ok|reject|grey, input_class)."""
    k = pos.kind
    if k == "id":
        if type(v) is bool:
            return "grey", "bool"
        if _is_int(v):
            return ("ok", "int") if 0 <= v <= MAXID else ("reject", vclass(v))
        return "reject", vclass(v)
    if k == "uri":
        if v is None:
            return ("ok", "null") if pos.allow_none else ("reject", "null")
        empty = pos.empty
        if empty == "by-match":
            m = "exact"
            if wire is not None and spec.dictpos is not None and len(wire) > spec.dictpos and type(wire[spec.dictpos]) is dict:
                m = wire[spec.dictpos].get("match", "exact")
            empty = match_to_empty(m) if type(m) is str else "any"
        return uri_judge(v, False, empty)
    if k in ("dict", "extra"):
        if type(v) is not dict:
            return "reject", vclass(v)
        if any(type(x) is not str for x in v):
            return "grey", "dict-nonstr-key"
        return "ok", "dict"
    if k == "str":
        return ("ok", "str") if type(v) is str else ("reject", vclass(v))
    if k == "reqtype":
        if type(v) is bool:
            return "grey", "bool"
        if _is_int(v):
            return ("ok", "int") if v in ERROR_REQUEST_TYPES else ("grey", "int-other-type")
        return "reject", vclass(v)
    raise ValueError(k)


def judge_forward_for(v):
    if type(v) is not list:
        return "reject", vclass(v)
    verdict = "ok"
    for ff in v:
        if type(ff) is not dict:
            return "reject", "malformed-forward_for"
        for key in ("session", "authid", "authrole"):
            if key not in ff:
                return "reject", "malformed-forward_for"
        s = ff["session"]
        if type(s) is bool:
            verdict = "grey"
        elif not _is_int(s):
            return "reject", "malformed-forward_for"
        if ff["authid"] is None:
            verdict = "grey"
        elif type(ff["authid"]) is not str:
            return "reject", "malformed-forward_for"
        if type(ff["authrole"]) is not str:
            return "reject", "malformed-forward_for"
    return verdict, "forward_for"


def judge_roles(v, valid_roles):
    if type(v) is not dict:
        return "reject", vclass(v)
    if not v:
        return "grey", "roles-empty"
    verdict = "ok"
    for role, rd in v.items():
        if type(role) is not str:
            return "grey", "dict-nonstr-key"
        if role not in valid_roles:
            return "reject", "roles-unknown-role"
        if type(rd) is not dict:
            return "reject", "role-" + vclass(rd)
        if any(type(x) is not str for x in rd):
            return "grey", "dict-nonstr-key"
        if "features" in rd:
            f = rd["features"]
            if type(f) is not dict:
                return "reject", "features-" + vclass(f)
            for fk, fv in f.items():
                if type(fk) is not str:
                    return "grey", "dict-nonstr-key"
                if fk in FEATURES[role]:
                    if fv is None:
                        verdict = "grey"
                    elif type(fv) is not bool:
                        return "reject", "feature-" + vclass(fv)
                else:
                    verdict = "grey"     # unknown feature names are to be ignored
    return verdict, "roles"


def judge_opt(spec, opt, v, payload_mode=False):
    """Verdict for value ``v`` of known option ``opt``."""
    if v is ABSENT:
        return "grey", "absent"
    if v is None:
        return "grey", "null"          # JSON null for an option: tolerated as 'absent' by many peers
    t = opt.typ
    if t == "bool":
        return ("ok", "bool") if type(v) is bool else ("reject", vclass(v))
    if t in ("str", "text"):
        return ("ok", "str") if type(v) is str else ("reject", vclass(v))
    if t == "uri":
        return uri_judge(v, False, "none")
    if t in ("int", "nat", "posint"):
        if type(v) is bool:
            return "grey", "bool"
        if not _is_int(v):
            return "reject", vclass(v)
        if t == "int":
            return ("ok", "int") if 0 <= v <= MAXID else ("grey", vclass(v))
        if t == "nat":
            return ("ok", "int") if v >= 0 else ("grey", "int-negative")
        return ("ok", "int") if v >= 1 else ("grey", "int-below-1")
    if t == "enum":
        if type(v) is not str:
            return "reject", vclass(v)
        return ("ok", "str") if v in opt.values else ("reject", "str-not-in-enum")
    if t in ("list-int", "list-str"):
        if type(v) is not list:
            return "reject", vclass(v)
        verdict = "ok"
        for x in v:
            if t == "list-int":
                if type(x) is bool:
                    verdict = "grey"
                elif not _is_int(x):
                    return "reject", "list-of-" + vclass(x)
            elif type(x) is not str:
                return "reject", "list-of-" + vclass(x)
        return verdict, "list"
    if t == "dict":
        if type(v) is not dict:
            return "reject", vclass(v)
        return ("grey", "dict-nonstr-key") if any(type(x) is not str for x in v) else ("ok", "dict")
    if t == "forward_for":
        return judge_forward_for(v)
    if t == "roles":
        return judge_roles(v, opt.roles)
    if t in ("enc_algo", "enc_key", "enc_serializer"):
        if not payload_mode:
            return "grey", "enc-outside-payload-mode"
        if type(v) is not str:
            return "reject", vclass(v)
        if t == "enc_algo":
            return ("ok", "str") if valid_enc_ident(v, ENC_ALGOS) else ("grey", "str-unknown-ident")
        if t == "enc_serializer":
            return ("ok", "str") if valid_enc_ident(v, ENC_SERIALIZERS) else ("grey", "str-unknown-ident")
        return "ok", "str"
    raise ValueError(t)


def is_payload_mode(spec, wire):
    """Payload transparency mode: exactly one trailing element and it is a byte string."""
    return bool(spec.payload) and len(wire) == spec.fixed_len + 1 and type(wire[-1]) is bytes


def trailing_names(spec, wire_len):
    """Names of the positions of a wire list of this length (index -> name)."""
    names = ["type"] + [p.name for p in spec.layout]
    if spec.payload:
        names += ["args", "kwargs"]
    while len(names) < wire_len:
        names.append("extra%d" % (len(names)))
    return names


def first_offender(spec, wire):
    """Name of the first position / option of ``wire`` that the oracle does not judge 'ok' (or None)."""
    if type(wire) is not list or not wire:
        return "envelope"
    if len(wire) not in spec.lengths:
        return "length"
    for i, p in enumerate(spec.layout):
        idx = i + 1
        if idx >= len(wire):
            break
        v, _ = judge_pos(spec, p, wire[idx], wire)
        if v != "ok":
            return p.name
        if p.kind == "dict":
            pm = is_payload_mode(spec, wire)
            d = wire[idx]
            for o in spec.opts:
                if o.key in d:
                    v, _ = judge_opt(spec, o, d[o.key], pm)
                    if v != "ok":
                        return "%s.%s" % (p.name, o.key)
    if spec.payload:
        if len(wire) > spec.fixed_len and type(wire[spec.fixed_len]) is not list and not is_payload_mode(spec, wire):
            return "args"
        if len(wire) > spec.fixed_len + 1 and type(wire[spec.fixed_len + 1]) is not dict:
            return "kwargs"
    return None


# ------------------------------------------------------------------------------------------------
# wire builder (independent of marshal()) and object construction
# ------------------------------------------------------------------------------------------------

def roles_to_wire(roles):
    out = {}
    for role, feats in roles.items():
        f = {k: v for k, v in feats.items() if v is not None}
        out[role] = {"features": f} if f else {}
    return out


def to_wire(name, f):
    """Canonical WAMP wire list for message class ``name`` with field values ``f`` (attr -> value)."""
    spec = BY_NAME[name]
    d = {}
    have_payload = spec.payload and f.get("payload") is not None
    for o in spec.opts:
        v = f.get(o.attr)
        if v is None:
            continue
        if o.typ in ("enc_algo", "enc_key", "enc_serializer") and not have_payload:
            continue
        d[o.key] = roles_to_wire(v) if o.typ == "roles" else v
    if spec.custom and f.get("custom"):
        d.update(f["custom"])
    w = [spec.code]
    for p in spec.layout:
        if p.kind == "dict":
            if p.optional and not d:
                continue
            w.append(d)
        else:
            w.append(f.get(p.attr))
    if spec.payload:
        if have_payload:
            w.append(f["payload"])
        elif f.get("kwargs"):
            w.append(list(f.get("args") or []))
            w.append(f["kwargs"])
        elif f.get("args"):
            w.append(list(f["args"]))
    return w


def make(message_module, role_module, name, f):
    """Build the real message object from field values (roles given as plain dicts)."""
    kw = dict(f)
    if kw.get("roles") is not None:
        kw["roles"] = {r: role_module.ROLE_NAME_TO_CLASS[r](**feats) for r, feats in kw["roles"].items()}
    return getattr(message_module, name)(**kw)


# ------------------------------------------------------------------------------------------------
# normalisation (documented equivalences) for attribute views and wire lists
# ------------------------------------------------------------------------------------------------

def _delist(v):
    if type(v) in (list, tuple):
        return [_delist(x) for x in v]
    if type(v) is dict:
        return {k: _delist(x) for k, x in v.items()}
    if type(v) in (bytearray, memoryview):
        return bytes(v)
    return v


def norm_value(opt, v):
    """Equivalences: absent == None == spec default; forward_for [] == absent; free text '' == absent;
    free dict {} == absent."""
    if opt is None:
        return v
    if v is None:
        if opt.default is not None:
            return opt.default
        if opt.typ == "forward_for":
            return []
        if opt.typ == "text":
            return ""
        if opt.typ == "dict":
            return {}
        return None
    return _delist(v)


def roles_view(roles):
    """role objects / wire dict -> {role: {feature: value}} restricted to announced (non-None) features."""
    out = {}
    if roles is None:
        return None
    for name, r in roles.items():
        if isinstance(r, dict):
            feats = r.get("features") or {}
            known = FEATURES.get(name, [])
            out[name] = {k: v for k, v in feats.items() if v is not None and k in known}
        else:
            out[name] = {k: v for k, v in vars(r).items() if not k.startswith("_") and k != "ROLE" and v is not None}
    return out


def attr_view(spec, msg):
    """{attr: canonical value} of the public attributes the table lists for this class."""
    out = {}
    for a in spec.attrs:
        v = getattr(msg, a)
        out[a] = canon(norm_attr(spec, a, v))
    return out


def norm_attr(spec, a, v):
    if a == "roles":
        return roles_view(v)
    if a == "args":
        return _delist(v) if v else []
    if a == "kwargs":
        return _delist(v) if v else {}
    if a in ("custom", "extra"):
        return _delist(v) if v else {}
    o = spec.opt_by_attr.get(a)
    return norm_value(o, v)


def fields_view(spec, f):
    """Same view computed from the generator's field dict (the expectation)."""
    out = {}
    for a in spec.attrs:
        v = f.get(a)
        if a == "roles" and v is not None:
            v = roles_to_wire(v)
        out[a] = canon(norm_attr(spec, a, v))
    return out


def _opt_is_empty(o, v):
    if v is None:
        return True
    if o.default is not None and type(v) is type(o.default) and v == o.default:
        return True
    if o.typ == "forward_for" and v == []:
        return True
    if o.typ in ("text", "str") and v == "":
        return True
    if o.typ == "dict" and v == {}:
        return True
    return False


def norm_wire(spec, wire):
    """Canonical form of a wire list modulo: unknown option keys, null/default/empty option values,
    enc_* keys outside payload mode, unknown role features, empty trailing args/kwargs, trailing empty
    optional dict, tuple==list.  Returns None when ``wire`` does not have the class's shape."""
    if type(wire) not in (list, tuple) or not wire or wire[0] != spec.code or type(wire[0]) is not int:
        return None
    w = list(wire)
    pm = is_payload_mode(spec, w)
    if spec.payload:
        while len(w) > spec.fixed_len and not _truthy(w[-1]):
            w.pop()
    out = [("i", spec.code)]
    for i, p in enumerate(spec.layout):
        idx = i + 1
        if idx >= len(w):
            break
        v = w[idx]
        if p.kind == "dict" and type(v) is dict:
            d = {}
            for k, x in v.items():
                o = spec.opt_by_key.get(k)
                if o is None:
                    if spec.custom and type(k) is str and CUSTOM_ATTR.match(k):
                        d[k] = canon(x)
                    continue
                if o.typ in ("enc_algo", "enc_key", "enc_serializer") and not pm:
                    continue
                if _opt_is_empty(o, x):
                    continue
                if o.typ == "roles" and type(x) is dict and all(type(y) is dict for y in x.values()):
                    try:
                        x = roles_view(x)
                    except Exception:
                        pass
                d[k] = canon(x)
            if p.optional and not d:
                continue
            out.append(("d", tuple(sorted(d.items()))))
        else:
            out.append(canon(v))
    for v in w[spec.fixed_len:]:
        out.append(canon(v))
    return tuple(out)


def _truthy(v):
    try:
        return bool(v)
    except Exception:
        return True


def offenders(spec, wire):
    """All places of ``wire`` the oracle does not judge 'ok': [(where, verdict, input_class)] in wire order."""
    out = []
    if type(wire) is not list or not wire:
        return [("envelope", "reject", vclass(wire))]
    if len(wire) not in spec.lengths:
        out.append(("length", "reject", "length-%d" % len(wire)))
    pm = is_payload_mode(spec, wire)
    for i, p in enumerate(spec.layout):
        idx = i + 1
        if idx >= len(wire):
            break
        v, c = judge_pos(spec, p, wire[idx], wire)
        if v != "ok":
            out.append((p.name, v, c))
        if p.kind == "dict" and type(wire[idx]) is dict:
            d = wire[idx]
            for o in spec.opts:
                if o.key in d:
                    v, c = judge_opt(spec, o, d[o.key], pm)
                    if v != "ok":
                        out.append(("%s.%s" % (p.name, o.key), v, c))
    if spec.payload:
        if len(wire) > spec.fixed_len and type(wire[spec.fixed_len]) is not list and not pm:
            out.append(("args", "grey", vclass(wire[spec.fixed_len])))
        if len(wire) > spec.fixed_len + 1:
            kw = wire[spec.fixed_len + 1]
            if type(kw) is not dict or any(type(x) is not str for x in kw):
                out.append(("kwargs", "grey", vclass(kw)))
    return out


def wire_diff(spec, n1, n2):
    """Name of the first place where two norm_wire() results differ."""
    if n1 is None or n2 is None:
        return "shape"
    names = ["type"] + [p.name for p in spec.layout] + ["args", "kwargs", "extra"]
    # optional dict positions may be dropped by norm_wire: align by kind
    if len(n1) != len(n2):
        return "length"
    for i, (a, b) in enumerate(zip(n1, n2)):
        if a != b:
            nm = names[min(i, len(names) - 1)]
            if a[0] == "d" and b[0] == "d" and i <= len(spec.layout) and spec.dictpos is not None:
                da, db = dict(a[1]), dict(b[1])
                for k in sorted(set(da) | set(db), key=repr):
                    if da.get(k) != db.get(k):
                        return "%s.%s" % (spec.dictname, k)
            return nm
    return None


# ------------------------------------------------------------------------------------------------
# independent encoders / decoders for the four wire formats (plain third-party libraries)
# ------------------------------------------------------------------------------------------------

def _json_binconv_dec(v):
    """Independent reading of the WAMP JSON binary convention (string starting with \\0 = base64)."""
    import base64

    if type(v) is str and v[:1] == "\x00":
        return base64.b64decode(v[1:])
    if type(v) is list:
        return [_json_binconv_dec(x) for x in v]
    if type(v) is dict:
        # object KEYS are left alone: the WAMP binary convention is defined for string values; whether a key that
        # starts with \0 denotes binary is not specified, either reading is accepted (the key stays a string here)
        return {k: _json_binconv_dec(x) for k, x in v.items()}
    return v


def _json_binconv_enc(v):
    import base64

    if type(v) is bytes:
        return "\x00" + base64.b64encode(v).decode("ascii")
    if type(v) in (list, tuple):
        return [_json_binconv_enc(x) for x in v]
    if type(v) is dict:
        return {k: _json_binconv_enc(x) for k, x in v.items()}
    return v


def lib_encode(base, obj):
    """Encode one raw message with the plain library (no batching frame)."""
    if base == "json":
        import json
        return json.dumps(_json_binconv_enc(obj), separators=(",", ":"), ensure_ascii=False).encode("utf8")
    if base == "msgpack":
        import msgpack
        return msgpack.packb(obj, use_bin_type=True)
    if base == "cbor":
        import cbor2
        return cbor2.dumps(obj)
    import bjdata
    return bjdata.dumpb(obj)


def lib_frame(base, chunks, batched):
    if not batched:
        assert len(chunks) == 1
        return chunks[0]
    if base == "json":
        return b"".join(c + b"\x18" for c in chunks)
    return b"".join(len(c).to_bytes(4, "big") + c for c in chunks)


def independent_decode(sid, data, batched):
    """Decode produced bytes with the plain third-party library -> list of raw messages (or raises)."""
    import json

    base = sid.split(".")[0]
    if base == "json":
        text = data.decode("utf-8")          # text => must be valid UTF-8
        if batched:
            chunks = text.split("\x18")
            if chunks[-1] != "":
                raise ValueError("batched JSON does not end with the \\x18 delimiter")
            chunks = chunks[:-1]
        else:
            chunks = [text]
        return [_json_binconv_dec(json.loads(c)) for c in chunks]
    if base == "msgpack":
        import msgpack
        dec = lambda b: msgpack.unpackb(b, raw=False)   # noqa
    elif base == "cbor":
        import cbor2
        dec = cbor2.loads
    else:
        import bjdata
        dec = bjdata.loadb
    if not batched:
        return [dec(data)]
    out, i = [], 0
    while i < len(data):
        n = int.from_bytes(data[i:i + 4], "big")
        if i + 4 + n > len(data) or i + 4 > len(data):
            raise ValueError("length prefix runs past the end")
        out.append(dec(data[i + 4:i + 4 + n]))
        i += 4 + n
    return out


# ------------------------------------------------------------------------------------------------
# cross-check against the code
# ------------------------------------------------------------------------------------------------

_BASE_ATTRS = {"correlation_id", "correlation_uri", "correlation_is_anchor", "correlation_is_last"}


def mine_code(message_module):
    """Scan the source text of message.py: per class the option keys read by parse() and the lengths."""
    with open(message_module.__file__.replace(".pyc", ".py"), encoding="utf8") as fh:
        src = fh.read()
    out = {}
    parts = re.split(r"^class (\w+)\(", src, flags=re.M)
    for i in range(1, len(parts), 2):
        name, body = parts[i], parts[i + 1]
        m = re.search(r"^    def parse\(wmsg\):(.*?)(?=^    def |^    @|\Z)", body, flags=re.M | re.S)
        if not m:
            continue
        pb = m.group(1)
        keys = set()
        for rx in (r'"([^"\n]+)"\s+(?:not\s+)?in\s+(?:options|details)\b',
                   r'\b(?:options|details)\.get\(\s*"([^"\n]+)"',
                   r'\b(?:options|details)\[\s*"([^"\n]+)"\s*\]'):
            keys.update(re.findall(rx, pb))
        lens = None
        m1 = re.search(r"len\(wmsg\) != (\d+)", pb)
        m2 = re.search(r"len\(wmsg\) not in [\(\[]([\d, ]+)[\)\]]", pb)
        if m1:
            lens = (int(m1.group(1)),)
        elif m2:
            lens = tuple(int(x) for x in m2.group(1).replace(" ", "").split(",") if x)
        out[name] = {"keys": keys, "lengths": lens}
    return out


def crosscheck(message_module, serializer_module, role_module):
    """-> dict(drift=[...], notes=[...]).  ``drift`` non-empty => the table is stale => INCONCLUSIVE."""
    import inspect

    drift, notes = [], []
    code_classes = {}
    for n, c in vars(message_module).items():
        if inspect.isclass(c) and issubclass(c, message_module.Message) and getattr(c, "MESSAGE_TYPE", None) is not None:
            code_classes[n] = c
    for n, c in code_classes.items():
        s = BY_NAME.get(n)
        if s is None:
            drift.append("class %s (code %s) unknown to the table" % (n, c.MESSAGE_TYPE))
        elif s.code != c.MESSAGE_TYPE:
            drift.append("type code of %s: code %s, table %s" % (n, c.MESSAGE_TYPE, s.code))
    for s in SPECS:
        if s.name not in code_classes:
            drift.append("class %s of the table does not exist in the code" % s.name)
    tmap = serializer_module.Serializer.MESSAGE_TYPE_MAP
    for code, c in tmap.items():
        s = BY_CODE.get(code)
        if s is None or s.name != c.__name__:
            drift.append("dispatch map entry %s -> %s differs from the table" % (code, c.__name__))
    for s in SPECS:
        if s.code not in tmap:
            notes.append("type code %d (%s) is not in Serializer.MESSAGE_TYPE_MAP" % (s.code, s.name))
    mined = mine_code(message_module)
    for s in SPECS:
        mc = mined.get(s.name)
        if mc is None:
            drift.append("no parse() found in the source text for %s" % s.name)
            continue
        table_keys = set(s.opt_by_key)
        for k in sorted(mc["keys"] - table_keys):
            drift.append("%s: parse() reads key %r unknown to the table" % (s.name, k))
        for k in sorted(table_keys - mc["keys"]):
            notes.append("%s: table key %r is not read by parse()" % (s.name, k))
        if mc["lengths"] is not None and tuple(sorted(mc["lengths"])) != tuple(sorted(s.lengths)):
            # not drift: an element count the code admits beyond the specification's is exactly what C08 must be able
            # to report (accepted-length-N); the workloads decide, the table is not adapted to the code
            notes.append("%s: lengths code %s, table %s" % (s.name, mc["lengths"], s.lengths))
        c = code_classes.get(s.name)
        if c is not None:
            props = {n for n in dir(c) if not n.startswith("_") and isinstance(getattr(c, n, None), property)}
            props -= _BASE_ATTRS
            for a in sorted(props - set(s.attrs)):
                drift.append("%s: public attribute %r unknown to the table" % (s.name, a))
            for a in sorted(set(s.attrs) - props):
                notes.append("%s: table attribute %r is not a property of the class" % (s.name, a))
    for role, feats in FEATURES.items():
        c = role_module.ROLE_NAME_TO_CLASS.get(role)
        if c is None:
            drift.append("role %s unknown to the code" % role)
            continue
        params = [p for p in inspect.signature(c.__init__).parameters if p not in ("self", "kwargs")]
        for p in sorted(set(params) - set(feats)):
            drift.append("role %s: feature %r unknown to the table" % (role, p))
        for p in sorted(set(feats) - set(params)):
            notes.append("role %s: table feature %r unknown to the code" % (role, p))
    for r in role_module.ROLE_NAME_TO_CLASS:
        if r not in FEATURES:
            drift.append("role %s unknown to the table" % r)
    return {"drift": drift, "notes": notes,
            "mined_keys": sum(len(v["keys"]) for v in mined.values()), "mined_classes": len(mined)}


# ------------------------------------------------------------------------------------------------
# generators: application payload values
# ------------------------------------------------------------------------------------------------

INT_BOUNDARY = [0, 1, -1, 2, 127, 128, 255, 256, -128, -129, 32767, 32768, 65535, 65536, -32768, -32769,
                2 ** 31 - 1, 2 ** 31, -2 ** 31, -2 ** 31 - 1, 2 ** 32 - 1, 2 ** 32, 2 ** 53 - 1, 2 ** 53, -2 ** 53 + 1, -2 ** 53]
FLOATS = [0.0, 1.5, -2.25, 0.1, 1e10, -1e-5, 3.141592653589793, 1e22, 123456.789, 2.0 ** 60, 1e300, -1e-300]
STRINGS = ["", "a", "hello world", "\u00e9", "\u00fc\u00df", "\u65e5\u672c\u8a9e", "\U0001f600", "\U00010000", "\U0010ffff",
           "\uffff", "e\u0301", "a\u0308\u0323", "\u0627\u0644\u0639", "\ud55c\uae00", "\x7f", "\x01\x02", "a\x18b", "\x18",
           "tab\there\nnl", 'q"uote\\', "a\x00b", "0x1234", "null", "x" * 300, "\u20ac" * 70,
           "\U0001f468\u200d\U0001f469\u200d\U0001f467", "\u2028\u2029", "\ufeffbom"]
NUL_STRINGS = ["\x00", "\x00abc", "\x00QUJD"]
BYTES = [b"", b"\x00", b"a", b"\xff\xfe\x00", b"\x18", b"\x00\x00\x00\x05", bytes(range(256)), b"[1,2]", b"\xc3\x28", b"x" * 70]
KEYS = ["a", "b", "key", "", "\u00e9", "\U0001f600", "a.b", "with space", "k\x18", "K" * 40, "0", "e\u0301"]


class PayloadGen:
    """Recursive generator of application payload values in the property's claim: ints up to 2^53 both
    signs, floats (normal doubles), bool, None, unicode strings (BMP, astral, combining, controls), bytes,
    nested lists/dicts (str keys) to depth 4.  ``nul_prefix`` is set when a string starting with U+0000
    was produced (such values are not sent through JSON: reserved prefix of the binary convention)."""

    def __init__(self, rng, allow_nul_prefix=True, max_depth=4):
        self.rng = rng
        self.allow_nul_prefix = allow_nul_prefix
        self.max_depth = max_depth
        self.nul_prefix = False
        self.kinds = set()

    def scalar(self):
        r = self.rng
        k = r.randrange(8)
        if k == 0:
            self.kinds.add("int")
            return r.choice(INT_BOUNDARY) if r.random() < 0.6 else r.randint(-MAXID, MAXID)
        if k == 1:
            self.kinds.add("float")
            return r.choice(FLOATS) if r.random() < 0.5 else r.uniform(-1e6, 1e6)
        if k == 2:
            self.kinds.add("bool")
            return r.random() < 0.5
        if k == 3:
            self.kinds.add("none")
            return None
        if k in (4, 5):
            self.kinds.add("str")
            if self.allow_nul_prefix and r.random() < 0.04:
                self.nul_prefix = True
                return r.choice(NUL_STRINGS)
            if r.random() < 0.7:
                return r.choice(STRINGS)
            return "".join(chr(r.choice([r.randint(0x20, 0x7e), r.randint(0xa0, 0xd7ff), r.randint(0xe000, 0xfffd),
                                         r.randint(0x10000, 0x10ffff)])) for _ in range(r.randint(1, 12)))
        self.kinds.add("bytes")
        return r.choice(BYTES) if r.random() < 0.6 else bytes(r.getrandbits(8) for _ in range(r.randint(1, 40)))

    def key(self):
        r = self.rng
        if self.allow_nul_prefix and r.random() < 0.01:
            self.nul_prefix = True
            return "\x00k"
        return r.choice(KEYS) if r.random() < 0.8 else "k%d" % r.randrange(1000)

    def value(self, depth=0):
        r = self.rng
        if depth >= self.max_depth or r.random() < 0.45:
            return self.scalar()
        if r.random() < 0.5:
            self.kinds.add("list@%d" % (depth + 1))
            n = r.choice([0, 1, 2, 3, 5])
            v = [self.value(depth + 1) for _ in range(n)]
            return tuple(v) if r.random() < 0.1 else v
        self.kinds.add("dict@%d" % (depth + 1))
        return {self.key(): self.value(depth + 1) for _ in range(r.choice([0, 1, 2, 4]))}

    def args(self, nonempty=True):
        n = self.rng.choice([1, 1, 2, 3, 6]) if nonempty else 0
        return [self.value(1) for _ in range(n)]

    def kwargs(self, nonempty=True):
        if not nonempty:
            return {}
        out = {}
        while not out:
            out = {self.key(): self.value(1) for _ in range(self.rng.choice([1, 2, 4]))}
        return out

    def deep(self):
        """A value that certainly reaches depth 4 with a binary and an astral string at the bottom."""
        self.kinds.update(["list@1", "dict@2", "list@3", "dict@4", "bytes", "str", "int"])
        return [{"l1": [{"l3": b"\x00\xffbin", "u": "\U0001f600é", "i": -2 ** 53, "j": 2 ** 53}, [], {}]}]


# ------------------------------------------------------------------------------------------------
# generators: valid messages
# ------------------------------------------------------------------------------------------------

IDS = [0, 1, 2 ** 53, 2 ** 53 - 1, 2 ** 31, 7]
URIS = ["a", "com.example.topic1", "a.b", "x_y.z9", "é.ü", "A.B-c", "com.myapp." + "x" * 60, "wamp.error.not_authorized"]
URIS_PREFIX = ["a.b.", "", "com."]
URIS_WILDCARD = ["a..c", ".b", "a.", "..", "", "a.b"]
REALMS = [None, "realm1", "com.example.realm"]
TEXTS = ["x", "é\U0001f600", "", "m" * 200]
NAMES = ["joe", "éric", "user@example.com", "a" * 64]
FF_CHAINS = [
    [],
    [{"session": 1, "authid": "a", "authrole": "r"}],
    [{"session": 2 ** 53, "authid": None, "authrole": "anonymous"}, {"session": 0, "authid": "é", "authrole": "b"}],
    [{"session": 5, "authid": "x", "authrole": "r1"}, {"session": 6, "authid": "y", "authrole": "r2"},
     {"session": 7, "authid": "z", "authrole": "r3"}],
]


def pool(spec, o):
    """Boundary values for an option (all of them admissible)."""
    t = o.typ
    if t == "bool":
        return [True, False]
    if t == "str":
        return NAMES
    if t == "text":
        return TEXTS
    if t == "uri":
        return URIS
    if t == "int":
        return [1, 0, 2 ** 53, 12345] if o.key not in ("subscription", "registration") else [1, 2 ** 53, 12345]
    if t == "nat":
        return [0, 1, 2 ** 31, 2 ** 53]
    if t == "posint":
        return [1, 2, 2 ** 53]
    if t == "enum":
        return list(o.values)
    if t == "list-int":
        return [[], [1], [0, 2 ** 53, 7]]
    if t == "list-str":
        return [[], ["a"], ["é", "b", "user@x"]]
    if t == "dict":
        return [{}, {"k": 1}, {"nested": {"a": [1, "\U0001f600", b"\x01"]}, "n": None}]
    if t == "forward_for":
        return FF_CHAINS
    if t == "roles":
        out = []
        rl = list(o.roles)
        out.append({rl[0]: {}})
        out.append({r: {} for r in rl})
        out.append({r: {f: (i % 2 == 0) for i, f in enumerate(FEATURES[r])} for r in rl})
        out.append({rl[-1]: {FEATURES[rl[-1]][0]: True}})
        out.append({r: {f: True for f in FEATURES[r]} for r in rl[:2]})
        return out
    raise ValueError(t)


PAYLOAD_MODES = ["none", "args0", "args", "args-tuple", "kwargs-only", "args+kwargs", "args0+kwargs", "args+kwargs0",
                 "deep", "payload+algo", "payload+algo+key", "payload+algo+ser", "payload+algo+key+ser", "payload-empty"]
ENC_ALGO_POOL = ["cryptobox", "mqtt", "xbr", "x_custom_algo", "x_"]
ENC_KEY_POOL = ["k", "é" * 3, "a1b2c3d4" * 8]
ENC_SER_POOL = ["json", "msgpack", "cbor", "ubjson", "flatbuffers", "x_my_ser"]
PAYLOADS = [b"\x00", b"ciphertext\xff\x00\x18", bytes(range(256)), b"x"]


def apply_payload_mode(f, mode, rng, pg, k):
    if mode == "none":
        return
    if mode == "args0":
        f["args"] = []
    elif mode == "args":
        f["args"] = pg.args()
    elif mode == "args-tuple":
        f["args"] = tuple(pg.args())
    elif mode == "kwargs-only":
        f["kwargs"] = pg.kwargs()
    elif mode == "args+kwargs":
        f["args"] = pg.args()
        f["kwargs"] = pg.kwargs()
    elif mode == "args0+kwargs":
        f["args"] = []
        f["kwargs"] = pg.kwargs()
    elif mode == "args+kwargs0":
        f["args"] = pg.args()
        f["kwargs"] = {}
    elif mode == "deep":
        f["args"] = pg.deep()
        f["kwargs"] = {"d": pg.deep()}
    else:
        f["payload"] = b"" if mode == "payload-empty" else PAYLOADS[k % len(PAYLOADS)]
        f["enc_algo"] = ENC_ALGO_POOL[k % len(ENC_ALGO_POOL)]
        if "+key" in mode:
            f["enc_key"] = ENC_KEY_POOL[k % len(ENC_KEY_POOL)]
        if "+ser" in mode:
            f["enc_serializer"] = ENC_SER_POOL[k % len(ENC_SER_POOL)]


def required_fields(spec, k, opts_on):
    """Values for the fixed positions (k rotates through the boundary values)."""
    f = {}
    for j, p in enumerate(spec.layout):
        if p.kind == "dict":
            continue
        if p.kind == "id":
            f[p.attr] = IDS[(k + j) % len(IDS)]
        elif p.kind == "uri":
            if p.allow_none:
                f[p.attr] = REALMS[k % len(REALMS)]
            else:
                f[p.attr] = URIS[(k + j) % len(URIS)]
        elif p.kind == "str":
            f[p.attr] = ["ticket", "wampcra", "é\U0001f600", "", "s" * 100][k % 5]
        elif p.kind == "extra":
            f[p.attr] = [{}, {"challenge": "abc", "n": 1}, {"nested": {"a": [1, b"\x01"]}, "é": None}][k % 3]
        elif p.kind == "reqtype":
            f[p.attr] = ERROR_REQUEST_TYPES[k % len(ERROR_REQUEST_TYPES)]
    return f


def subsets_small(n):
    for r in range(n + 1):
        yield from itertools.combinations(range(n), r)


def option_subsets(spec, rng, tier):
    """Which optional fields are present.  Small classes: every subset.  Many options: every single option,
    all pairs, all-at-once, none, random subsets (thorough: every subset up to 11 options)."""
    opts = [o for o in spec.opts if o.typ not in ("enc_algo", "enc_key", "enc_serializer") and o.typ != "roles"]
    n = len(opts)
    seen = set()
    out = []

    def add(s):
        s = tuple(sorted(s))
        if s not in seen:
            seen.add(s)
            out.append(s)
    limit = 5 if tier == "quick" else 11
    if n <= limit:
        for s in subsets_small(n):
            add(s)
    else:
        add(())
        add(range(n))
        for i in range(n):
            add((i,))
        for s in itertools.combinations(range(n), 2):
            add(s)
        for i in range(n):
            add([j for j in range(n) if j != i])
        for _ in range(3 * n):
            add([j for j in range(n) if rng.random() < 0.5])
    return opts, out


def admissible(spec, f):
    """Constraints between fields (admissible combinations only)."""
    for o in spec.opts:
        if o.requires and f.get(o.attr) and f.get(o.requires) is None:
            return False
    if spec.name in ("Unsubscribed", "Unregistered"):
        sub = f.get("subscription", f.get("registration"))
        if sub is not None and (f.get("request") != 0 or sub == 0):
            return False
    return True


def gen_cases(spec, seed, tier, draws=1, part=0, parts=1):
    """Yield (k, label, mode, fields, PayloadGen) for the generated valid messages of this class that fall
    into shard ``part`` of ``parts``.  Case ``k`` depends only on (seed, class, k): shards agree on the
    enumeration without generating each other's payloads."""
    import random

    rng = random.Random("%s/%s/subsets" % (seed, spec.name))
    opts, subsets = option_subsets(spec, rng, tier)
    modes = PAYLOAD_MODES if spec.payload else ["none"]
    roles_opt = spec.opt_by_key.get("roles")
    k = 0
    if len(subsets) * len(modes) < 12:
        draws = draws * (12 // (len(subsets) * len(modes)) + 1)
    for si, sub in enumerate(subsets):
        if spec.payload:
            if tier == "thorough" or len(sub) in (0, len(opts)) or len(subsets) <= 40:
                mlist = modes
            else:
                mlist = [modes[(si + j * 5) % len(modes)] for j in range(2)]
        else:
            mlist = modes
        for mode in mlist:
            for d in range(draws):
                k += 1
                if k % parts != part:
                    continue
                crng = random.Random("%s/%s/%d" % (seed, spec.name, k))
                kk = k + crng.randrange(1000) * (1 if seed else 0)
                pg = PayloadGen(crng)
                f = required_fields(spec, kk, sub)
                for i in sub:
                    o = opts[i]
                    pl = pool(spec, o)
                    f[o.attr] = pl[(kk + i) % len(pl)]
                if roles_opt is not None:
                    pl = pool(spec, roles_opt)
                    f["roles"] = pl[kk % len(pl)]
                if spec.custom and kk % 3 == 0:
                    f["custom"] = [{"x_abc": 1}, {"x_": None, "x_a1": {"n": [1, 2]}}][kk % 2]
                # pattern URIs follow the match policy
                if spec.name in ("Subscribe", "Register"):
                    m = f.get("match")
                    if m == "prefix" and kk % 2:
                        f[spec.layout[-1].attr] = URIS_PREFIX[kk % len(URIS_PREFIX)]
                    elif m == "wildcard" and kk % 2:
                        f[spec.layout[-1].attr] = URIS_WILDCARD[kk % len(URIS_WILDCARD)]
                if spec.name in ("Unsubscribed", "Unregistered"):
                    key = "subscription" if spec.name == "Unsubscribed" else "registration"
                    if f.get(key) is not None:
                        f["request"] = 0
                for o in spec.opts:
                    if o.requires and f.get(o.attr) and f.get(o.requires) is None:
                        ro = spec.opt_by_attr[o.requires]
                        f[o.requires] = pool(spec, ro)[kk % len(pool(spec, ro))]
                apply_payload_mode(f, mode, crng, pg, kk)
                if not admissible(spec, f):
                    continue
                label = "%s/%s" % (spec.name, "+".join(opts[i].key for i in sub) or "-")
                yield k, label, mode, f, pg


# ------------------------------------------------------------------------------------------------
# JSON-safe encoding of cases for replay files
# ------------------------------------------------------------------------------------------------

EXOTIC = {}


def jenc(v):
    if v is ABSENT:
        return {"$absent": 1}
    if v is None or type(v) in (bool, int, str):
        return v
    if type(v) is float:
        return v if v == v and v not in (float("inf"), float("-inf")) else {"$f": repr(v)}
    if type(v) in (bytes, bytearray, memoryview):
        return {"$b": bytes(v).hex()}
    if type(v) is tuple:
        return {"$t": [jenc(x) for x in v]}
    if type(v) is list:
        return [jenc(x) for x in v]
    if type(v) is dict:
        return {"$d": [[jenc(k), jenc(x)] for k, x in v.items()]}
    for name, x in EXOTIC.items():
        if x is v:
            return {"$x": name}
    return {"$x": repr(v)[:60]}


def jdec(v):
    if type(v) is list:
        return [jdec(x) for x in v]
    if type(v) is dict:
        if "$absent" in v:
            return ABSENT
        if "$f" in v:
            return float(v["$f"])
        if "$b" in v:
            return bytes.fromhex(v["$b"])
        if "$t" in v:
            return tuple(jdec(x) for x in v["$t"])
        if "$d" in v:
            return {_hashable(jdec(k)): jdec(x) for k, x in v["$d"]}
        if "$x" in v:
            return EXOTIC.get(v["$x"], v["$x"])
    return v


def _hashable(k):
    return tuple(k) if type(k) is list else k
