"""C13 scenarios and oracle.

Every scenario takes a JSON-able ``case`` (sufficient to re-run it), drives REAL transports of the
process' framework with recording stub sessions, and judges what was observed at the boundary
(session callbacks, octets on the fake transports, transport close requests, exceptions that
reached the framework) against the references of vf.c13_engine.  ``run_case(run, case)`` dispatches.

Violation keys classify by mechanism:  C13/<transport>/<fw>/<role>/<phase>/<input class>/<clause>
"""

import random
import struct

from . import c13_engine as E
from . import rfc6455_ref as ref
from .ws import Link

MAXEXP = 24


class Run:
    """Per-shard context: recorder, framework, current environment."""

    def __init__(self, R, fw):
        self.R = R
        self.fw = fw
        self.env = None
        self._hs_cache = {}

    def fresh(self):
        if self.env is not None:
            self.env.close()
        self.env = E.Env()
        self.env.R = self.R
        return self.env

    def shared(self):
        if self.env is None:
            self.env = E.Env()
        return self.env

    def done(self):
        if self.env is not None:
            self.env.close()
            self.env = None
        if getattr(self, "_remote", None) is not None:
            self._remote.close()
            self._remote = None

    def remote(self, fw):
        if getattr(self, "_remote", None) is None:
            from .c13_remote import Remote
            self._remote = Remote(fw)
        return self._remote

    def violation(self, key, what, detail, case):
        self.R.violation(key, what, detail, case)


def _escapes(env, eps, esc0=0):
    out = []
    for ep in eps:
        out += [repr(e) for e in ep.escaped]
    for name, e in env.world.escaped[esc0:]:
        if name in ("timer", "loop"):
            out.append("%s:%r" % (name, e))
    return out


def _exc_names(env, eps, esc0=0):
    names = []
    for ep in eps:
        names += [type(e.exc).__name__ for e in ep.escaped]
    for name, e in env.world.escaped[esc0:]:
        if name in ("timer", "loop"):
            names.append(type(e.exc).__name__)
    return names


# =================================================================================================
# 1. RawSocket opening handshake (one real endpoint against raw octets)
# =================================================================================================

def hs_class(role, view, supported):
    if not view.magic_ok:
        return "bad-magic"
    if not supported:
        if role == "client" and view.ser == 0:
            return "error-reply"
        return "unsupported-serializer"
    if not view.reserved_zero:
        return "valid-reserved-nonzero"
    return "valid"


class HsDriver:
    """Evaluates RawSocket handshakes against one factory configuration (kept across cases: building the
    factory and its serializers costs more than a handshake)."""

    def __init__(self, run, role, sers, max_size=None):
        self.run = run
        self.role = role
        self.sers = list(sers)
        self.max_size = max_size
        self.env = run.shared()
        self.book = E.Book()
        if role == "server":
            self.factory = self.env.rs_server_factory(self.book, self.sers, max_size)
            self.ids = {E.RS_IDS[s.partition(".")[0]] for s in self.sers}
        else:
            self.factory = self.env.rs_client_factory(self.book, self.sers[0], max_size)
            self.ids = {E.RS_IDS[self.sers[0].partition(".")[0]]}
        self.counts = {}

    def case(self, octets, parts):
        return {"kind": "rs-hs", "role": self.role, "sers": self.sers, "max_size": self.max_size,
                "octets": bytes(octets).hex(), "parts": list(parts)}

    def _bad(self, cls, clause, what, octets, parts, detail=None):
        key = "C13/rs/%s/%s/handshake/%s/%s" % (self.run.fw, self.role, cls, clause)
        d = {"octets": bytes(octets).hex(), "parts": list(parts), "configured": self.sers}
        d.update(detail or {})
        self.run.violation(key, what, d, self.case(octets, parts))

    def evaluate(self, octets, parts):
        """-> (class, 'attached' | 'refused' | 'open')"""
        run, env, book, role = self.run, self.env, self.book, self.role
        w = env.world
        esc0 = len(w.escaped)
        del book.sessions[:]
        ep = E.fast_attach(w, self.factory, role)
        view = E.RsHandshakeView(octets)
        supported = view.ser in self.ids
        cls = hs_class(role, view, supported)
        c = self.counts
        if role == "client":
            hello = bytes(ep.all_out)
            c["client_hello_checked"] = c.get("client_hello_checked", 0) + 1
            if not (len(hello) == 4 and hello[0] == 0x7F and (hello[1] & 0x0F) in self.ids and hello[2] == 0 and hello[3] == 0):
                self._bad("own-request", "malformed", "client handshake request is not 0x7F | len<<4|serializer | 0 | 0",
                          octets, parts, {"hello": hello.hex()})
            if book.sessions:
                self._bad(cls, "attached-before-reply", "session created before any handshake reply was received", octets, parts)
        pre = len(ep.all_out)
        pos = 0
        for n in parts:
            ep.feed(octets[pos:pos + n])
            pos += n
            if pos < 4:
                c["partial_checked"] = c.get("partial_checked", 0) + 1
                if book.sessions:
                    self._bad("partial", "attached-early", "session attached after only %d handshake octets" % pos, octets, parts)
                if ep.escaped or len(w.escaped) > esc0:
                    break
        escaped = _exc_names(env, [ep], esc0)
        opens = sum(s.opens for s in book.sessions)
        closed = ep.close_requested is not None or ep.lost
        reply = bytes(ep.all_out)[pre:]
        outcome = "attached" if opens else ("refused" if closed else "open")
        if escaped:
            c["hs_escaped"] = c.get("hs_escaped", 0) + 1
            self._bad(cls, "escaped-" + escaped[0], "exception %s reached the framework during the opening handshake" % escaped,
                      octets, parts, {"escaped": _escapes(env, [ep], esc0), "reply": reply.hex()})
        if cls == "valid" or (cls == "valid-reserved-nonzero" and opens):
            if opens != 1 or len(book.sessions) != 1:
                if not escaped:
                    self._bad(cls, "not-attached", "valid handshake (magic 0x7F, supported serializer %d) but onOpen ran %d times (%s)"
                              % (view.ser, opens, outcome), octets, parts, {"reply": reply.hex()})
            else:
                if closed:
                    self._bad(cls, "attached-but-closed", "session attached but the transport was closed (%s)" % ep.close_requested,
                              octets, parts)
                if role == "server":
                    c["server_reply_checked"] = c.get("server_reply_checked", 0) + 1
                    if not (len(reply) == 4 and reply[0] == 0x7F and (reply[1] & 0x0F) == view.ser and reply[2] == 0 and reply[3] == 0):
                        self._bad(cls, "reply-malformed", "server reply %s is not 0x7F | len<<4|%d | 0 | 0" % (reply.hex(), view.ser),
                                  octets, parts)
                elif reply:
                    self._bad(cls, "client-wrote-after-reply", "client wrote %s after the handshake reply" % reply.hex(), octets, parts)
        elif cls == "valid-reserved-nonzero":
            # refusing is accepted as well - but then it must be a refusal
            if not closed and not escaped:
                self._bad(cls, "not-refused", "handshake neither attached nor refused (transport left open)", octets, parts)
        else:
            if opens or book.sessions:
                self._bad(cls, "attached", "session attached (onOpen x%d) on an invalid handshake" % opens, octets, parts,
                          {"reply": reply.hex()})
            if not closed and not escaped:
                self._bad(cls, "not-refused", "invalid handshake not refused: transport left open", octets, parts, {"reply": reply.hex()})
        # -- the session is told exactly once / never
        sessions = list(book.sessions)
        self.last_msgs = sum(len(x.msgs) for x in sessions)
        if ep.close_requested is not None and not ep.lost:
            ep.finish_close()
        elif not ep.lost:
            ep.peer_close(clean=bool(octets[1] & 1))
        c["onclose_checked"] = c.get("onclose_checked", 0) + 1
        for s in sessions:
            want = 1 if s.opens else 0
            if len(s.closes) != want:
                self._bad(cls, "onclose-x%d" % len(s.closes), "session with %d onOpen got %d onClose after the transport was lost"
                          % (s.opens, len(s.closes)), octets, parts)
        late = _exc_names(env, [ep], esc0)
        if len(late) > len(escaped):
            self._bad(cls, "connection-lost-escaped-" + late[-1], "exception reached the framework from connection-lost after the handshake",
                      octets, parts, {"escaped": _escapes(env, [ep], esc0)})
        if len(w.escaped) > 1000:
            del w.escaped[:]
        c[outcome] = c.get(outcome, 0) + 1
        c["cls_" + cls] = c.get("cls_" + cls, 0) + 1
        kind = "none" if not reply else ("error-reply" if len(reply) == 4 and reply[0] == 0x7F and reply[1] & 0x0F == 0 else
                                         ("ok-reply" if len(reply) == 4 else "other"))
        if role == "server":
            c["reply_%s_%s" % (outcome, kind)] = c.get("reply_%s_%s" % (outcome, kind), 0) + 1
        return cls, outcome

    def flush(self):
        R = self.run.R
        for k, v in self.counts.items():
            if k.startswith("cls_"):
                R.count("hs_" + k, v)
            elif k in ("attached", "refused", "open"):
                R.count("hs_" + k, v)
            else:
                R.count(k, v)
        self.counts = {}


def run_rs_hs(run, case):
    d = HsDriver(run, case["role"], case["sers"], case.get("max_size"))
    run.R.count("evaluations")
    cls, outcome = d.evaluate(bytes.fromhex(case["octets"]), case["parts"])
    run.R.count("hs_decided")
    d.flush()
    return cls, outcome


# =================================================================================================
# helpers for pairs of library endpoints
# =================================================================================================

def pump_burst(env, link, rng, R=None, rounds=200):
    """Everything in flight is handed to the peer in bursts: 2..6 data_received() calls per read event (asyncio)."""
    import random as _random
    rng = rng or _random.Random(0)
    for _ in range(rounds):
        link.collect()
        srcs = [ep for ep in (link.a, link.b) if link.inflight[id(ep)]]
        if not srcs:
            return
        src = rng.choice(srcs)
        dst = link.peer_of(src)
        buf = link.inflight[id(src)]
        n = len(buf) if rng.random() < 0.7 else rng.randint(1, len(buf))
        data = bytes(buf[:n])
        del buf[:n]
        if dst.lost or dst.close_requested is not None:
            continue
        k = min(len(data), rng.randint(2, 6))
        offs = [0] + sorted(rng.sample(range(1, len(data)), k - 1)) + [len(data)] if len(data) > 1 else [0, len(data)]
        chunks = [data[a:b] for a, b in zip(offs, offs[1:])]
        fed = E.feed_burst(dst, chunks)
        link.delivered[id(src)] += len(data)
        env.world.settle()
        if R is not None and fed >= 2 and env.world.fw == "aio":
            R.count("aio_bursts_fed")


def pump(env, link, rng=None, policy="whole", rounds=60):
    if policy == "burst":
        return pump_burst(env, link, rng, getattr(env, "R", None))
    seg = E.link_seg(policy)
    for _ in range(rounds):
        moved = link.pump_all(seg, rng)
        env.world.settle()
        if not moved:
            link.collect()
            if not link.inflight[id(link.a)] and not link.inflight[id(link.b)]:
                return


def drain_pair(env, link, rng=None, policy="whole", rounds=40):
    """Deliver everything, propagate transport closes, fire timers until both ends are down (bounded)."""
    for _ in range(rounds):
        pump(env, link, rng, policy)
        changed = link.propagate_closes()
        # an end torn down by its framework (escaped exception): the peer sees the connection drop
        for x, y in ((link.a, link.b), (link.b, link.a)):
            if x.lost and not y.lost and y.close_requested is None:
                y.peer_close(clean=False)
                changed = True
        env.world.settle()
        if link.a.lost and link.b.lost:
            return True
        if not changed:
            link.collect()
            if link.inflight[id(link.a)] or link.inflight[id(link.b)]:
                continue
            if not env.world.fire_next_timer():
                return link.a.lost and link.b.lost
    return link.a.lost and link.b.lost


def check_delivery(run, key_prefix, case, sent, session, direction, prefix_only=None):
    """Messages the peer session received == specs sent (intact, in order).  With ``prefix_only=k`` only the
    first k must be there; anything further must still be an intact later member, in order."""
    R = run.R
    got = list(session.msgs) if session is not None else []
    want = list(sent)
    if prefix_only is None:
        need = len(want)
    else:
        need = prefix_only
    j = 0
    for i, m in enumerate(got):
        # find m among want[j:]
        matched = None
        for k in range(j, len(want)):
            ok, _ = E.same_message(want[k], m)
            if ok:
                matched = k
                break
        R.count("stream_msgs_compared")
        if matched is None:
            # altered, duplicated or out of order
            clause = "altered"
            for k in range(0, j):
                if E.same_message(want[k], m)[0]:
                    clause = "duplicated-or-reordered"
            ok, diff = E.same_message(want[min(j, len(want) - 1)], m) if want else (False, None)
            run.violation("%s/%s/%s" % (key_prefix, direction, clause),
                          "message #%d delivered to the peer session is not the next message sent" % i,
                          {"got": E.describe_received(m).get("cls"), "diff": diff, "index": i}, case)
            return False
        if matched != j and (prefix_only is None or j < need):
            run.violation("%s/%s/lost" % (key_prefix, direction), "message #%d sent was skipped (next delivered is #%d)" % (j, matched),
                          {"delivered": len(got), "sent": len(want)}, case)
            return False
        j = matched + 1
    if j < need:
        run.violation("%s/%s/lost" % (key_prefix, direction), "only %d of %d messages were delivered to the peer session" % (len(got), need),
                      {"delivered": len(got), "sent": len(want)}, case)
        return False
    return True


def check_onclose_once(run, key_prefix, case, books, label=""):
    ok = True
    for side, book in books:
        for s in book.sessions:
            run.R.count("onclose_checked")
            n = len(s.closes)
            # a session is attached once it was handed the transport (onOpen(transport) was invoked) - whether or not its
            # onOpen then raised: "in every case the session is told exactly once that the transport is gone"
            opened_ok = s.opens >= 1
            open_raised = bool(getattr(s, "script", None) and s.script.raise_in_open)
            if opened_ok and open_raised:
                run.R.count("open_raise_onclose_checked")
            kp = key_prefix if side is None else "%s/%s" % (key_prefix, side)
            if opened_ok and n != 1:
                run.violation("%s/onclose-x%d" % (kp, n),
                              "attached session%s was told %d times that the transport is gone%s"
                              % (" (its onOpen raised after it was handed the transport)" if open_raised else "", n, label),
                              {"events": [list(e) for e in s.events][-8:], "onOpen_raised": open_raised}, case)
                ok = False
            elif not opened_ok and n > 1:
                run.violation("%s/onclose-x%d" % (kp, n), "session got onClose %d times" % n,
                              {"events": [list(e) for e in s.events][-8:]}, case)
                ok = False
            if s.opens > 1:
                run.violation("%s/onopen-x%d" % (kp, s.opens), "onOpen ran %d times on one session" % s.opens, {}, case)
                ok = False
    return ok


# =================================================================================================
# 2. WebSocket subprotocol negotiation (two library endpoints, real handshake)
# =================================================================================================

def ws_rec_protocol(factory):
    """Recording subclass of the factory's real protocol class: status codes passed to _fail_connection
    and WebSocket-level onClose arguments (hook only, never the verdict on its own)."""
    base = factory.protocol

    class Rec(base):
        def _fail_connection(self, *a, **kw):
            code = a[0] if a else kw.get("code", 1001)
            self.__dict__.setdefault("vf_fail", []).append(code)
            return base._fail_connection(self, *a, **kw)

        def onClose(self, wasClean, code, reason):
            self.__dict__.setdefault("vf_ws_close", []).append((wasClean, code))
            return base.onClose(self, wasClean, code, reason)

    Rec.__name__ = "Rec" + base.__name__
    factory.protocol = Rec
    return factory


def run_ws_nego(run, case):
    R = run.R
    R.count("evaluations")
    env = run.fresh()
    fw = run.fw
    cl, sl = case["client"], case["server"]
    rng = random.Random(case.get("seed", 0))
    policy = case.get("policy", "whole")
    sb, cb = E.Book(), E.Book()
    sf = ws_rec_protocol(env.ws_server_factory(sb, sl))
    cf = ws_rec_protocol(env.ws_client_factory(cb, cl))
    s = E.fast_attach(env.world, sf, "server")
    c = E.fast_attach(env.world, cf, "client")
    link = Link(env.world, c, s)
    pump(env, link, rng, policy)
    expected = next((x for x in cl if x in sl), None)
    key = "C13/ws/%s/nego" % fw
    esc = _exc_names(env, [s, c])
    R.count("ws_nego_pairs")
    if esc:
        run.violation("%s/escaped-%s" % (key, esc[0]), "exception reached the framework during the WebSocket opening handshake",
                      {"escaped": _escapes(env, [s, c]), "client": cl, "server": sl}, case)
    # client offers its list in its order of preference
    creq = ref.parse_http_head(bytes(c.all_out))
    offered = []
    if creq:
        for v in creq[1].get("sec-websocket-protocol", []):
            offered += [x.strip() for x in v.split(",")]
    if offered != ["wamp.2." + x for x in cl]:
        run.violation(key + "/client-offer-order", "client offered %r for configured serializers %r" % (offered, cl), {}, case)
    shead = ref.parse_http_head(bytes(s.all_out))
    status = shead[0] if shead else ""
    chosen_hdr = (shead[1].get("sec-websocket-protocol") or [None])[0] if shead else None
    if expected is None:
        R.count("ws_nego_nocommon")
        if sb.opens or cb.opens or sb.sessions or cb.sessions:
            run.violation(key + "/attached-no-common", "session attached although client %r and server %r share no serializer" % (cl, sl),
                          {"server_opens": sb.opens, "client_opens": cb.opens, "status": status}, case)
        if " 101" in status:
            run.violation(key + "/accepted-no-common", "server answered 101 although no common wamp.2.* subprotocol exists",
                          {"status": status, "chosen": chosen_hdr}, case)
        down = drain_pair(env, link, rng, policy)
        if not down:
            run.violation(key + "/refused-not-closed", "handshake without a common serializer did not end with both transports closed",
                          {"server": [s.close_requested, s.lost], "client": [c.close_requested, c.lost]}, case)
        if sb.closes or cb.closes or sb.opens or cb.opens:
            run.violation(key + "/attached-no-common", "session callbacks ran on a refused handshake", {}, case)
        esc2 = _exc_names(env, [s, c])
        if len(esc2) > len(esc):
            run.violation("%s/escaped-%s" % (key, esc2[-1]), "exception reached the framework while refusing the handshake",
                          {"escaped": _escapes(env, [s, c])}, case)
        R.seen("nontrivial", "ws-nego/%s/%s>%s" % (fw, ",".join(cl), ",".join(sl)))
        R.seen("nego_outcomes", "refused")
        return
    R.count("ws_nego_common")
    if chosen_hdr != "wamp.2." + expected:
        run.violation(key + "/wrong-choice", "server chose %r, the first of the client's list %r that the server %r supports is %r"
                      % (chosen_hdr, cl, sl, expected), {"status": status}, case)
        return
    if sb.opens != 1 or cb.opens != 1:
        run.violation(key + "/not-attached", "common serializer %s but onOpen ran %d (server) / %d (client) times" % (expected, sb.opens, cb.opens),
                      {"status": status}, case)
        return
    R.seen("nego_outcomes", "chosen-" + expected)
    base = expected.partition(".")[0]
    if base != "flatbuffers":
        specs = [{"k": "publish", "id": 101, "tag": "c2s-é-%d" % case.get("seed", 0), "fill": "abc"},
                 {"k": "event", "id": 202, "tag": "s2c-%d" % case.get("seed", 0), "fill": "xyz"}]
        errs = []
        for book, spec in ((cb, specs[0]), (sb, specs[1])):
            try:
                book.last.transport.send(E.build_message(spec))
            except Exception as e:
                errs.append(repr(e))
        if errs:
            run.violation(key + "/send-failed", "send() on a freshly negotiated transport raised", {"errors": errs, "chosen": expected}, case)
        pump(env, link, rng, policy)
        for ep, spec, side in ((c, specs[0], "client"), (s, specs[1], "server")):
            msgs = E.ws_data_messages(ep)
            R.count("ws_frames_checked")
            if len(msgs) != 1:
                run.violation(key + "/wire-count", "%s wrote %d data messages for one send()" % (side, len(msgs)), {"chosen": expected}, case)
                continue
            op, payload = msgs[0]
            want_op = ref.OP_TEXT if base == "json" else ref.OP_BIN
            if op != want_op:
                run.violation(key + "/wrong-frame-type", "%s used opcode %d for serializer %s (expected %d)" % (side, op, expected, want_op), {}, case)
            try:
                decoded = E.decode_payload(expected, payload)
            except Exception as e:
                run.violation(key + "/serializer-mismatch", "%s's payload does not decode with the negotiated serializer %s: %r"
                              % (side, expected, e), {"payload": payload[:80].hex()}, case)
                continue
            if decoded != [E.plain_message(spec)]:
                run.violation(key + "/wire-altered", "%s's payload decodes to something else than the message sent" % side,
                              {"decoded": repr(decoded)[:300], "want": repr(E.plain_message(spec))[:300]}, case)
        ok1 = check_delivery(run, key, case, [specs[0]], sb.last, "c2s")
        ok2 = check_delivery(run, key, case, [specs[1]], cb.last, "s2c")
    else:
        R.count("ws_nego_flatbuffers")
    # clean shutdown: who closes alternates
    closer = cb if case.get("seed", 0) % 2 == 0 else sb
    try:
        closer.last.transport.close()
    except Exception as e:
        run.violation(key + "/close-raised", "transport.close() raised %r on an open transport" % e, {}, case)
    down = drain_pair(env, link, rng, policy)
    if not down:
        run.violation(key + "/close-not-completed", "transport.close() did not bring both transports down", {}, case)
    check_onclose_once(run, key, case, (("server", sb), ("client", cb)))
    esc3 = _exc_names(env, [s, c])
    if len(esc3) > len(esc):
        R.count("escaped_after_attach")
        R.count("escape:ws/nego-close/%s" % esc3[-1])
    R.seen("nontrivial", "ws-nego/%s/%s>%s" % (fw, ",".join(cl), ",".join(sl)))


# -- negotiation against a raw peer: junk / foreign subprotocol names ----------------------------

JUNK_PROTOCOLS = ["wamp", "wamp.2", "wamp.3.json", "wamp.1.json", "wamp.json", "json", "wamp.2.jsonx", "WAMP.2.JSON",
                  "wamp.2.json.batched.x", "wamp.2.xml", "mqtt", "wamp.2.msgpack.zipped", "wamp.two.json", "wamp.2.JSON"]


def run_ws_nego_raw(run, case):
    """role=server: harness client offers ``offer`` (strings); role=client: harness server answers with ``answer``."""
    R = run.R
    R.count("evaluations")
    env = run.fresh()
    fw = run.fw
    role, sers = case["role"], case["sers"]
    book = E.Book()
    key = "C13/ws/%s/nego-raw/%s" % (fw, role)
    if role == "server":
        f = ws_rec_protocol(env.ws_server_factory(book, sers))
        ep = E.fast_attach(env.world, f, "server")
        req, _ = ref.client_request(resource="/ws", protocols=case["offer"], key=ref.new_key(random.Random(case.get("seed", 0))))
        for ch in E.cut(random.Random(case.get("seed", 0)), req, case.get("policy", "whole")):
            ep.feed(ch)
        env.world.settle()
        head = ref.parse_http_head(bytes(ep.all_out))
        status = head[0] if head else ""
        chosen = (head[1].get("sec-websocket-protocol") or [None])[0] if head else None
        supported = ["wamp.2." + x for x in sers]
        expected = next((p for p in case["offer"] if p in supported), None)
        R.count("ws_nego_raw_server")
        if expected is None:
            R.count("ws_nego_nocommon")
            if book.opens or book.sessions or " 101" in status:
                run.violation(key + "/attached-no-common", "server attached a session / answered 101 for offer %r (supports %r)"
                              % (case["offer"], supported), {"status": status, "chosen": chosen}, case)
            if not (ep.close_requested or ep.lost):
                env.world.advance(30)
                if not (ep.close_requested or ep.lost):
                    run.violation(key + "/refused-not-closed", "refused handshake left the transport open", {"status": status}, case)
        else:
            if chosen != expected or book.opens != 1:
                run.violation(key + "/wrong-choice", "offer %r, server supports %r: chose %r (onOpen x%d), expected %r"
                              % (case["offer"], supported, chosen, book.opens, expected), {"status": status}, case)
    else:
        f = ws_rec_protocol(env.ws_client_factory(book, sers))
        ep = E.fast_attach(env.world, f, "client")
        env.world.settle()
        head = ref.parse_http_head(bytes(ep.all_out))
        k = head[1]["sec-websocket-key"][0]
        resp = ref.server_response(k, protocol=case["answer"])
        for ch in E.cut(random.Random(case.get("seed", 0)), resp, case.get("policy", "whole")):
            ep.feed(ch)
        env.world.settle()
        requested = ["wamp.2." + x for x in sers]
        R.count("ws_nego_raw_client")
        if case["answer"] in requested:
            if book.opens != 1:
                run.violation(key + "/not-attached", "server answered %r (requested %r) but onOpen ran %d times" % (case["answer"], requested, book.opens), {}, case)
            else:
                # the client must now speak exactly that serializer
                chosen = case["answer"][len("wamp.2."):]
                if chosen.partition(".")[0] != "flatbuffers":
                    spec = {"k": "call", "id": 7, "tag": "raw-nego", "fill": "q"}
                    book.last.transport.send(E.build_message(spec))
                    env.world.settle()
                    msgs = E.ws_data_messages(ep)
                    R.count("ws_frames_checked")
                    try:
                        ok = len(msgs) == 1 and E.decode_payload(chosen, msgs[0][1]) == [E.plain_message(spec)] and \
                            msgs[0][0] == (ref.OP_TEXT if chosen.startswith("json") else ref.OP_BIN)
                    except Exception:
                        ok = False
                    if not ok:
                        run.violation(key + "/serializer-mismatch", "client does not use the serializer %s the server selected" % chosen,
                                      {"wire": [(o, p[:60].hex()) for o, p in msgs]}, case)
        else:
            R.count("ws_nego_nocommon")
            if book.opens or book.sessions:
                run.violation(key + "/attached-no-common", "client attached a session although the server answered %r (requested %r)"
                              % (case["answer"], requested), {}, case)
            if not (ep.close_requested or ep.lost):
                env.world.advance(30)
                if not (ep.close_requested or ep.lost):
                    run.violation(key + "/refused-not-closed", "refused handshake left the transport open", {}, case)
    esc = _exc_names(env, [ep])
    if esc:
        run.violation("%s/escaped-%s" % (key, esc[0]), "exception reached the framework during the WebSocket opening handshake",
                      {"escaped": _escapes(env, [ep])}, case)
    if ep.close_requested is None and not ep.lost:
        ep.peer_close(clean=False)
    finish_one_sided(env, ep, "ws", role, True)
    check_onclose_once(run, key, case, ((None, book),))
    R.seen("nontrivial", "ws-nego-raw/%s/%s/%s/%s" % (fw, role, ",".join(sers), case.get("offer") or case.get("answer")))


# =================================================================================================
# 3a. message sequences between two library endpoints under segmentation
# =================================================================================================

def open_pair(run, env, tr, cser, ssers, sscript=None, cscript=None, smax=None, cmax=None, options=None, rng=None,
              policy="whole", rec=True):
    sb, cb = E.Book(sscript), E.Book(cscript)
    if tr == "rs":
        sf = env.rs_server_factory(sb, ssers, smax)
        cf = env.rs_client_factory(cb, cser[0], cmax)
    else:
        sf = env.ws_server_factory(sb, ssers, options)
        cf = env.ws_client_factory(cb, cser, options)
        if rec:
            ws_rec_protocol(sf)
            ws_rec_protocol(cf)
    s = E.fast_attach(env.world, sf, "server")
    c = E.fast_attach(env.world, cf, "client")
    link = Link(env.world, c, s)
    pump(env, link, rng, policy)
    return sb, cb, s, c, link


def gen_specs(rng, n, prefix, big=0):
    out = []
    for i in range(n):
        k = rng.choice(E.MSG_KINDS)
        fill = "f" * rng.choice([0, 1, 7, 60, 130, 300]) if not big else "F" * rng.choice([0, 70000, 200, big])
        tag = "%s%d-%s" % (prefix, i, rng.choice(["", "ä€", "\U0001f600", "q"]))
        out.append({"k": k, "id": rng.randint(1, 2 ** 53 - 2), "tag": tag, "fill": fill, "fill2": ""})
    return out


def run_pair_stream(run, case):
    R = run.R
    R.count("evaluations")
    env = run.fresh()
    fw, tr = run.fw, case["tr"]
    rng = random.Random(case["seed"])
    policy = case["policy"]
    key = "C13/%s/%s/stream" % (tr, fw)
    open_send = case.get("open_send", 0)
    c2s, s2c = case["c2s"], case["s2c"]
    cscript = E.SessionScript(send_on_open=[E.build_message(sp) for sp in c2s[:open_send]]) if open_send else None
    sb, cb, s, c, link = open_pair(run, env, tr, case["cser"], case["ssers"], cscript=cscript, smax=case.get("smax"),
                                   cmax=case.get("cmax"), rng=rng, policy=policy)
    if sb.opens != 1 or cb.opens != 1:
        run.violation(key + "/not-attached", "pair with a common serializer did not attach (server %d, client %d)" % (sb.opens, cb.opens),
                      {"escaped": _escapes(env, [s, c])}, case)
        return
    order = ["c"] * (len(c2s) - open_send) + ["s"] * len(s2c)
    rng.shuffle(order)
    ci, si = open_send, 0
    seg = E.link_seg(policy)
    for who in order:
        try:
            if who == "c":
                cb.last.transport.send(E.build_message(c2s[ci]))
                ci += 1
            else:
                sb.last.transport.send(E.build_message(s2c[si]))
                si += 1
        except Exception as e:
            run.violation(key + "/send-raised", "send() raised %s on an open transport for a message within the limits" % type(e).__name__,
                          {"error": repr(e)[:300]}, case)
            return
        env.world.settle()
        if policy == "burst":
            if rng.random() < 0.35:
                pump_burst(env, link, rng, R, rounds=rng.randint(1, 2))
        elif rng.random() < 0.5:
            for _ in range(rng.randint(1, 4)):
                src = rng.choice([c, s])
                avail = link.pending(src)
                if avail:
                    link.deliver(src, seg(rng, avail))
    pump(env, link, rng, policy)
    # judged right after the last read event - no further traffic that could flush something still queued
    ok = check_delivery(run, key, case, c2s, sb.last, "c2s") and check_delivery(run, key, case, s2c, cb.last, "s2c")
    if ok and policy == "burst" and fw == "aio":
        R.count("aio_bursts_delivered")
    if s.close_requested or c.close_requested or s.lost or c.lost:
        run.violation(key + "/closed-unexpectedly", "transport closed during a well-formed conversation",
                      {"server": [s.close_requested, s.lost], "client": [c.close_requested, c.lost], "escaped": _escapes(env, [s, c])}, case)
    # wire format of what each side wrote
    if tr == "rs":
        for ep, sent, side in ((c, c2s, "client"), (s, s2c, "server")):
            frames, rest = E.rs_parse_stream(bytes(ep.all_out)[4:])
            ser = case["cser"][0]
            R.count("rs_frames_checked", len(frames))
            bad = rest or len(frames) != len(sent) or any(t != 0 for t, _ in frames)
            if not bad:
                try:
                    bad = [E.decode_payload(ser, p)[0] for _, p in frames] != [E.plain_message(sp) for sp in sent]
                except Exception:
                    bad = True
            if bad:
                run.violation(key + "/wire-format", "%s's octets are not the length-prefixed frames of the negotiated serializer %s" % (side, ser),
                              {"frames": len(frames), "sent": len(sent), "rest": len(rest)}, case)
    closer = rng.choice([cb, sb])
    try:
        closer.last.transport.close()
    except Exception as e:
        run.violation(key + "/close-raised", "transport.close() raised %r" % e, {}, case)
    down = drain_pair(env, link, rng, policy)
    if not down:
        run.violation(key + "/close-not-completed", "transport.close() did not bring both transports down", {}, case)
    check_onclose_once(run, key, case, (("server", sb), ("client", cb)))
    esc = _exc_names(env, [s, c])
    if esc:
        R.count("escaped_after_attach")
        run.violation("%s/escaped-%s" % (key, esc[0]), "exception reached the framework during a well-formed conversation",
                      {"escaped": _escapes(env, [s, c])}, case)
    if ok:
        R.seen("nontrivial", "stream/%s/%s/%s/%s/%d" % (fw, tr, case["cser"][0], policy, case["seed"]))
        R.seen("seg_policies", "%s/%s" % (tr, policy))


# =================================================================================================
# one real endpoint against a raw peer
# =================================================================================================

class RawPeer:
    """A library endpoint whose peer is the harness (raw octets built from the references)."""

    def __init__(self, run, env, tr, role, ser, script=None, max_size=None, peer_exp=MAXEXP, options=None, real_session=False,
                 offer=None):
        self.run, self.env, self.tr, self.role, self.ser = run, env, tr, role, ser
        self.base = ser.partition(".")[0]
        self.book = E.real_session_book() if real_session else E.Book(script)
        fac = self.book.make if real_session else self.book
        self.peer_exp = peer_exp
        self.hs_out = b""
        if tr == "rs":
            if role == "server":
                f = env.rs_server_factory(fac, [ser], max_size)
            else:
                f = env.rs_client_factory(fac, ser, max_size)
        else:
            if role == "server":
                f = ws_rec_protocol(env.ws_server_factory(fac, [ser], options))
            else:
                f = ws_rec_protocol(env.ws_client_factory(fac, [ser], options))
        self.factory = f
        self.ep = E.fast_attach(env.world, f, role)
        self.rng = random.Random(0)

    def handshake_octets(self):
        """What the peer sends to complete the transport handshake."""
        if self.tr == "rs":
            return E.rs_handshake(E.RS_IDS[self.base], self.peer_exp)
        if self.role == "server":
            req, self.key = ref.client_request(resource="/ws", protocols=["wamp.2." + self.ser], key=ref.new_key(self.rng))
            return req
        head = ref.parse_http_head(bytes(self.ep.all_out))
        self.key = head[1]["sec-websocket-key"][0]
        return ref.server_response(self.key, protocol="wamp.2." + self.ser)

    def handshake(self):
        self.env.world.settle()
        self.ep.feed(self.handshake_octets())
        self.env.world.settle()
        self.mark()
        return self.book.opens == 1

    def mark(self):
        """Remember where the library's handshake octets end."""
        if self.tr == "rs":
            self.hs_len = 4
        else:
            data = bytes(self.ep.all_out)
            self.hs_len = data.find(b"\r\n\r\n") + 4

    @property
    def announced(self):
        """RawSocket: the maximum the library endpoint announced (read from its handshake octets)."""
        o = bytes(self.ep.all_out)[:4]
        return 2 ** (9 + (o[1] >> 4))

    def frame(self, payload, ftype=0, opcode=None, fin=True, length=None):
        if self.tr == "rs":
            return E.rs_frame(payload, ftype, length)
        if opcode is None:
            opcode = ref.OP_TEXT if self.base == "json" else ref.OP_BIN
        mask = bytes(self.rng.getrandbits(8) for _ in range(4)) if self.role == "server" else None
        return ref.encode_frame(opcode, payload, fin=fin, mask=mask)

    def encode(self, spec):
        dumps = E.plain_codec(self.base)[0]
        return E.batch(self.ser, [dumps(E.plain_message(spec))])

    def wire_messages(self):
        """Payloads of the data frames the library endpoint wrote after the handshake: [(type/opcode, payload)], rest."""
        if self.tr == "rs":
            return E.rs_parse_stream(bytes(self.ep.all_out)[4:])
        return E.ws_data_messages(self.ep), b""

    def feed_chunks(self, chunks):
        """Feed until the endpoint stops reading (closed / lost) - as a real reactor would."""
        fed = 0
        for ch in chunks:
            if self.ep.lost or self.ep.close_requested is not None:
                break
            self.ep.feed(ch)
            fed += len(ch)
        self.env.world.settle()
        return fed


def feed_bursts(rp, bursts, R=None):
    n = 0
    for chunks in bursts:
        if rp.ep.lost or rp.ep.close_requested is not None:
            break
        fed = E.feed_burst(rp.ep, chunks)
        if fed >= 2 and rp.env.world.fw == "aio":
            n += 1
    rp.env.world.settle()
    if R is not None and n:
        R.count("aio_bursts_fed", n)
    return n


def finish_one_sided(env, ep, tr, role, peer_replies, rounds=8):
    """Bring a one-sided connection down the way a peer / the framework would; returns True when the
    endpoint got its connection-lost."""
    replied = False
    for _ in range(rounds):
        env.world.settle()
        if ep.lost:
            return True
        if ep.close_requested is not None:
            ep.finish_close()
            continue
        if tr == "ws" and peer_replies and not replied and E.ws_close_codes(ep):
            replied = True
            code = E.ws_close_codes(ep)[0]
            mask = b"\x01\x02\x03\x04" if role == "server" else None
            ep.feed(ref.encode_frame(ref.OP_CLOSE, ref.close_payload(code), mask=mask))
            env.world.settle()
            if role == "client" and not ep.lost and ep.close_requested is None:
                ep.peer_close(clean=True)     # the server drops TCP after the closing handshake
            continue
        env.world.advance(15)
    return ep.lost


def run_raw_stream(run, case):
    """Library endpoint <- raw peer: handshake + N framed messages as ONE octet stream cut by a policy; the
    library endpoint also sends its own sequence, read back from the wire with the plain codecs."""
    R = run.R
    R.count("evaluations")
    env = run.fresh()
    fw, tr, role, ser = run.fw, case["tr"], case["role"], case["ser"]
    rng = random.Random(case["seed"])
    key = "C13/%s/%s/%s/raw-stream" % (tr, fw, role)
    inbound, outbound = case["inbound"], case["outbound"]
    script = E.SessionScript(send_on_open=[E.build_message(sp) for sp in outbound])
    rp = RawPeer(run, env, tr, role, ser, script=script, max_size=case.get("max_size"))
    rp.rng = random.Random(case["seed"] + 1)
    hs = rp.handshake_octets()
    body = b""
    bounds = []            # offsets in ``body`` where a frame ends
    for sp in inbound:
        payload = rp.encode(sp)
        if tr == "ws" and case.get("fragment") and len(payload) > 2:
            cutp = rng.randint(1, len(payload) - 1)
            op = ref.OP_TEXT if rp.base == "json" else ref.OP_BIN
            body += rp.frame(payload[:cutp], opcode=op, fin=False)
            bounds.append(len(body))
            body += rp.frame(payload[cutp:], opcode=ref.OP_CONT)
        else:
            body += rp.frame(payload)
        bounds.append(len(body))
    glue = tr == "rs" or role == "client"    # a WebSocket client must wait for the 101 before sending frames
    nbursts = 0
    if case["policy"] == "burst":
        # 2..6 data_received() calls per read event, cut between frames / inside headers and payloads / both
        if glue and case.get("burst_glue_handshake", True):
            nbursts += feed_bursts(rp, E.burst_cut(rng, hs + body, [len(hs)] + [len(hs) + b for b in bounds], case.get("burst_mode")), R)
        else:
            nbursts += feed_bursts(rp, E.burst_cut(rng, hs, [], "inside"), R)
            nbursts += feed_bursts(rp, E.burst_cut(rng, body, bounds, case.get("burst_mode")), R)
    elif glue:
        rp.feed_chunks(E.cut(rng, hs + body, case["policy"]))
    else:
        rp.feed_chunks(E.cut(rng, hs, case["policy"]))
        rp.feed_chunks(E.cut(rng, body, case["policy"]))
    rp.mark()
    book = rp.book
    if book.opens != 1:
        run.violation(key + "/not-attached", "valid handshake (+%d octets of frames) did not attach a session" % len(body),
                      {"escaped": _escapes(env, [rp.ep])}, case)
        return
    if rp.ep.close_requested or rp.ep.lost:
        # the library gave up a well-formed conversation: one violation for the cause, not one per consequence
        codes = list(rp.ep.proto.__dict__.get("vf_fail", []))
        sess = book.last
        clause = "closed-unexpectedly"
        if 1011 in codes and inbound and not sess.msgs and not [e for e in sess.events if e[0] == "msg"]:
            clause = "frame-dispatched-before-onOpen"       # internal failure before the attached session saw any message
        run.violation("%s/%s" % (key, clause), "transport closed during a well-formed conversation (fail codes %r, %d of %d messages delivered)"
                      % (codes, len(sess.msgs), len(inbound)),
                      {"escaped": _escapes(env, [rp.ep]), "fail_codes": codes, "reason": str(getattr(rp.ep.proto, "wasNotCleanReason", None))[:200],
                       "session_events": [list(e) for e in sess.events][:6]}, case)
        finish_one_sided(env, rp.ep, tr, role, True)
        return
    # judged right after the last read event: nothing further is sent that could flush chunks still queued in the adapter
    ok = check_delivery(run, key, case, inbound, book.last, "in")
    if ok and nbursts:
        R.count("aio_bursts_delivered", nbursts)
    frames, rest = rp.wire_messages()
    R.count("wire_frames_checked", len(frames))
    want_t = 0 if tr == "rs" else (ref.OP_TEXT if rp.base == "json" else ref.OP_BIN)
    bad = bool(rest) or len(frames) != len(outbound)
    why = "count/rest"
    if not bad:
        for (t, p), sp in zip(frames, outbound):
            if t != want_t:
                bad, why = True, "frame type %r for serializer %s" % (t, ser)
                break
            try:
                if E.decode_payload(ser, p) != [E.plain_message(sp)]:
                    bad, why = True, "payload decodes to a different message"
                    break
            except Exception as e:
                bad, why = True, "payload does not decode with %s: %r" % (ser, e)
                break
    if bad:
        run.violation(key + "/wire-format", "octets written by the %s are not the framing of the negotiated serializer (%s)" % (role, why),
                      {"frames": len(frames), "sent": len(outbound)}, case)
    down = finish_one_sided(env, rp.ep, tr, role, True) if (rp.ep.close_requested or rp.ep.lost) else (rp.ep.peer_close(clean=False) or True)
    env.world.settle()
    check_onclose_once(run, key, case, ((None, book),))
    if ok:
        # after the connection is gone: still exactly the messages sent (nothing dropped with the connection, nothing late)
        check_delivery(run, key + "/after-close", case, inbound, book.last, "in")
        if book.last is not None and len(book.last.msgs) != len(inbound):
            run.violation(key + "/after-close/in/count", "%d messages delivered by the time the connection was gone, %d were sent"
                          % (len(book.last.msgs), len(inbound)), {}, case)
    esc = _exc_names(env, [rp.ep])
    if esc:
        run.violation("%s/escaped-%s" % (key, esc[0]), "exception reached the framework during a well-formed conversation",
                      {"escaped": _escapes(env, [rp.ep])}, case)
    if ok and not bad:
        R.seen("nontrivial", "raw-stream/%s/%s/%s/%s/%s/%d" % (fw, tr, role, ser, case["policy"], case["seed"]))
        R.seen("seg_policies", "%s/%s" % (tr, case["policy"]))


# =================================================================================================
# 3b. RawSocket length limits
# =================================================================================================

def _lib_measure(ser_id):
    ser = E.make_serializer(ser_id)
    return lambda spec: len(ser.serialize(E.build_message(spec))[0])


def _plain_measure(ser_id):
    dumps = E.plain_codec(ser_id.partition(".")[0])[0]
    return lambda spec: len(E.batch(ser_id, [dumps(E.plain_message(spec))]))


SEND_SITES = {"after": "limit-send", "open": "limit-send-in-onOpen", "message": "limit-send-in-onMessage"}


def run_rs_limit_send(run, case):
    """The library sends; the raw peer announced 2**exp.  Lengths exp-limit + delta.

    ``site`` = WHEN the session issues the send: 'after' (from outside, once the handshake has been processed), 'open' (from
    inside ISession.onOpen(transport), like ApplicationSession's HELLO) or 'message' (from inside the first onMessage(), the
    triggering frame glued to the peer's handshake octets or in a read of its own).  Inside a callback the session sends a small
    message, the sized one and a small one again, each guarded by try/except."""
    R = run.R
    R.count("evaluations")
    env = run.fresh()
    fw, role, ser, exp, delta = run.fw, case["role"], case["ser"], case["exp"], case["delta"]
    site = case.get("site", "after")
    key = "C13/rs/%s/%s/%s" % (fw, role, SEND_SITES[site])
    sfx = {"after": "", "open": "_onopen", "message": "_onmessage"}[site]
    L = 2 ** exp
    target = L + delta
    spec = E.sized_spec(_lib_measure(ser), case.get("mkind", "publish"), 4242, "lim%+d" % delta, target)
    if spec is None:
        R.count("limit_size_unreachable")
        return
    spec0 = {"k": "call", "id": 8, "tag": "before", "fill": ""}
    spec2 = {"k": "event", "id": 9, "tag": "after", "fill": ""}
    grey = target == L and exp == MAXEXP       # 2**24 cannot be expressed in the 24-bit length field: not asserted
    script = None
    if site == "open":
        script = E.SessionScript(try_on_open=[E.build_message(x) for x in (spec0, spec, spec2)])
    elif site == "message":
        script = E.SessionScript(try_on_message=(0, [E.build_message(x) for x in (spec0, spec, spec2)]))
    rp = RawPeer(run, env, "rs", role, ser, script=script, peer_exp=exp, max_size=case.get("max_size"))
    if site == "after":
        attached = rp.handshake()
    else:
        rng = random.Random(case.get("seed", 0))
        hs = rp.handshake_octets()
        trigger = {"k": "subscribed", "id": 31, "tag": "trigger"}
        body = rp.frame(rp.encode(trigger)) if site == "message" else b""
        env.world.settle()
        if case.get("glue", True):
            rp.feed_chunks(E.cut(rng, hs + body, case.get("policy", "whole")))
        else:
            rp.feed_chunks(E.cut(rng, hs, case.get("policy", "whole")))
            rp.feed_chunks(E.cut(rng, body, case.get("policy", "whole")))
        rp.mark()
        attached = rp.book.opens == 1
    if not attached:
        run.violation(key + "/not-attached", "valid handshake announcing 2**%d did not attach" % exp, {"escaped": _escapes(env, [rp.ep])}, case)
        return
    sess = rp.book.last
    if site == "after":
        plan = [spec]
        errs = []
        try:
            sess.transport.send(E.build_message(spec))
            errs.append(None)
        except Exception as e:
            errs.append(e)
        env.world.settle()
    else:
        plan = [spec0, spec, spec2]
        errs = [e for s_, i, e in sess.site_results if s_ == site]
        if site == "message" and (len(sess.msgs) != 1 or not E.same_message(trigger, sess.msgs[0])[0]):
            run.violation(key + "/trigger-not-delivered", "the frame following the handshake was delivered %d times" % len(sess.msgs),
                          {"escaped": _escapes(env, [rp.ep]), "closed": [rp.ep.close_requested, rp.ep.lost]}, case)
            return
        if len(errs) != len(plan):
            run.violation(key + "/callback-cut-short", "only %d of the %d guarded sends inside the callback ran" % (len(errs), len(plan)),
                          {"escaped": _escapes(env, [rp.ep]), "closed": [rp.ep.close_requested, rp.ep.lost]}, case)
            return
    err = errs[plan.index(spec)]
    frames, rest = E.rs_parse_stream(bytes(rp.ep.all_out)[4:])
    R.count("limit_send_cases" + sfx)
    R.seen("limit_send_exps" + sfx, "%s/%d" % (fw, exp))
    detail = {"announced": L, "serialized": target, "error": repr(err)[:200], "frames": [(t, len(p)) for t, p in frames], "rest": len(rest),
              "site": site, "errors": [repr(e)[:80] if e is not None else None for e in errs]}
    over = [n for t, p in frames for n in [len(p)] if n > L] or (len(rest) > 4 and ((rest[1] << 16) | (rest[2] << 8) | rest[3]) > L)
    if over:
        run.violation(key + "/sent-over-announced", "a frame longer than the peer's announced maximum 2**%d was written" % exp, detail, case)
    # what must be on the wire so far, in order (the small messages around the sized one included)
    want = []
    for sp, e in zip(plan, errs):
        if sp is spec:
            if target <= L and not grey and e is None:
                want.append(sp)
        elif e is None:
            want.append(sp)
    if target > L:
        R.count("limit_send_over" + sfx)
        if err is None:
            run.violation(key + "/no-error-over-limit", "send() of %d octets (peer maximum %d) returned normally" % (target, L), detail, case)
        else:
            R.seen("limit_send_errors", type(err).__name__)
        if (len(frames) != len(want) or rest) and not over:
            run.violation(key + "/partial-write-over-limit", "send() over the limit left octets on the wire", detail, case)
    elif grey:
        R.count("limit_send_grey_2pow24")
    else:
        R.count("limit_send_within" + sfx)
        if err is not None:
            run.violation(key + "/error-within-limit", "send() of %d octets (peer maximum %d) raised %s" % (target, L, type(err).__name__), detail, case)
    closed_now = bool(rp.ep.close_requested or rp.ep.lost)
    if closed_now and target > L:
        R.count("limit_send_over_then_closed")      # the statement does not say the transport survives a refused send: not asserted
    for sp, e in zip(plan, errs):
        if sp is not spec and e is not None and not ((grey or (closed_now and target > L)) and sp is spec2):
            run.violation(key + "/small-send-raised", "send() of a small message inside the callback raised %s" % type(e).__name__, detail, case)
    if not grey and not over and not (target > L and err is None):
        okw = len(frames) == len(want) and not rest and all(t == 0 for t, _ in frames)
        if okw:
            try:
                okw = [E.decode_payload(ser, p) for _, p in frames] == [[E.plain_message(sp)] for sp in want]
            except Exception:
                okw = False
        if not okw and not (target > L and (len(frames) != len(want) or rest)):
            run.violation(key + "/wire-format", "the messages sent without an error (%d, sized one %d octets, peer maximum %d) are not on the wire as "
                          "intact frames in order" % (len(want), target, L), detail, case)
    # the stream stays well-formed: a small follow-up message is a whole frame
    if site == "after" and not (rp.ep.close_requested or rp.ep.lost) and not grey:
        n0 = len(frames)
        try:
            sess.transport.send(E.build_message(spec2))
        except Exception as e:
            run.violation(key + "/follow-up-raised", "send() of a small message after the limit case raised %s" % type(e).__name__, detail, case)
        frames, rest = E.rs_parse_stream(bytes(rp.ep.all_out)[4:])
        good = len(frames) == n0 + 1 and not rest
        if good:
            try:
                good = E.decode_payload(ser, frames[-1][1]) == [E.plain_message(spec2)]
            except Exception:
                good = False
        if not good:
            run.violation(key + "/stream-corrupted", "octet stream is not well-formed after the limit case", detail, case)
    if site != "after" and closed_now and target <= L and not grey:
        run.violation(key + "/closed-unexpectedly", "transport closed although every message sent inside the callback was within the peer's maximum",
                      dict(detail, closed=[rp.ep.close_requested, rp.ep.lost], escaped=_escapes(env, [rp.ep])), case)
    if not (rp.ep.close_requested or rp.ep.lost):
        rp.ep.peer_close(clean=True)
    else:
        finish_one_sided(env, rp.ep, "rs", role, True)
    env.world.settle()
    check_onclose_once(run, key, case, ((None, rp.book),))
    esc = _exc_names(env, [rp.ep])
    if esc and site != "after":
        R.count("escaped_after_attach")
        R.count("escape:rs/%s/%s/%s" % (role, SEND_SITES[site], esc[0]))
    R.seen("nontrivial", "limit-send/%s/%s/%s/%d/%+d/%s/%s/%s" % (fw, role, ser, exp, delta, site, case.get("policy", "-"), case.get("glue", "-")))
    R.seen("limit_send_sites", "%s/%s/%s" % (fw, role, site))


def run_rs_limit_recv(run, case):
    """The raw peer sends a frame of announced+delta octets to the library endpoint."""
    R = run.R
    R.count("evaluations")
    env = run.fresh()
    fw, role, ser, delta = run.fw, case["role"], case["ser"], case["delta"]
    rng = random.Random(case.get("seed", 0))
    key = "C13/rs/%s/%s/limit-recv" % (fw, role)
    rp = RawPeer(run, env, "rs", role, ser, max_size=case.get("max_size"))
    if not rp.handshake():
        run.violation(key + "/not-attached", "valid handshake did not attach", {"escaped": _escapes(env, [rp.ep])}, case)
        return
    L = rp.announced
    target = L + delta
    R.seen("limit_recv_announced", "%s/%d" % (fw, L))
    if target >= 2 ** 24:
        R.count("limit_recv_unrepresentable")
        return
    spec = E.sized_spec(_plain_measure(ser), case.get("mkind", "publish"), 777, "rcv%+d" % delta, target)
    if spec is None:
        R.count("limit_size_unreachable")
        return
    payload = rp.encode(spec)
    assert len(payload) == target
    data = E.rs_frame(payload)
    sess = rp.book.last
    detail = {"announced": L, "frame_length": target}
    R.count("limit_recv_cases")
    if delta <= 0:
        rp.feed_chunks(E.cut(rng, data, case.get("policy", "edges")))
        if len(sess.msgs) != 1 or not E.same_message(spec, sess.msgs[0])[0]:
            run.violation(key + "/within-limit-not-delivered", "frame of %d octets (announced maximum %d) was not delivered intact" % (target, L),
                          dict(detail, delivered=len(sess.msgs), closed=[rp.ep.close_requested, rp.ep.lost], escaped=_escapes(env, [rp.ep])), case)
        R.count("limit_recv_within")
    else:
        R.count("limit_recv_over")
        rp.feed_chunks([data[:2], data[2:4]])
        closed_at_header = bool(rp.ep.close_requested or rp.ep.lost)
        if not closed_at_header:
            rp.feed_chunks(E.cut(rng, data[4:], "random"))
        if sess.msgs:
            run.violation(key + "/over-limit-delivered", "frame of %d octets (announced maximum %d) was delivered to the session" % (target, L), detail, case)
        elif not closed_at_header:
            closed = bool(rp.ep.close_requested or rp.ep.lost)
            run.violation(key + "/over-limit-buffered", "frame header announcing %d octets (announced maximum %d) was not rejected when the header "
                          "arrived (%s after the whole payload)" % (target, L, "closed" if closed else "still open"), detail, case)
        else:
            R.count("limit_recv_over_rejected")
        esc = _exc_names(env, [rp.ep])
        if esc:
            R.count("escaped_after_attach")
            R.count("escape:rs/%s/over-limit/%s" % (role, esc[0]))
    finish_one_sided(env, rp.ep, "rs", role, True) if (rp.ep.close_requested or rp.ep.lost) else rp.ep.peer_close(clean=True)
    env.world.settle()
    check_onclose_once(run, key, case, ((None, rp.book),))
    R.seen("nontrivial", "limit-recv/%s/%s/%s/%d/%+d" % (fw, role, ser, L, delta))


def run_rs_limit_pair(run, case):
    """Two library endpoints with their own maxima; each sends announced(peer)-1 / = / +1."""
    R = run.R
    R.count("evaluations")
    env = run.fresh()
    fw, ser = run.fw, case["ser"]
    rng = random.Random(case["seed"])
    policy = case["policy"]
    key = "C13/rs/%s/pair/limit" % fw
    sb, cb, s, c, link = open_pair(run, env, "rs", [ser], [ser], smax=case.get("smax"), cmax=case.get("cmax"), rng=rng, policy=policy)
    if sb.opens != 1 or cb.opens != 1:
        run.violation(key + "/not-attached", "pair did not attach", {"escaped": _escapes(env, [s, c])}, case)
        return
    ann = {"server": 2 ** (9 + (bytes(s.all_out)[1] >> 4)), "client": 2 ** (9 + (bytes(c.all_out)[1] >> 4))}
    measure = _lib_measure(ser)
    for side, book, peer_book, ep, peer in (("client", cb, sb, c, "server"), ("server", sb, cb, s, "client")):
        L = ann[peer]
        sent_ok = []
        for delta in case["deltas"]:
            target = L + delta
            if target >= 2 ** 24:
                R.count("limit_pair_skipped_2pow24")
                continue
            spec = E.sized_spec(measure, "publish", 1000 + delta, "%s%+d" % (side, delta), target)
            if spec is None:
                R.count("limit_size_unreachable")
                continue
            err = None
            try:
                book.last.transport.send(E.build_message(spec))
            except Exception as e:
                err = e
            R.count("limit_send_cases")
            detail = {"sender": side, "peer_announced": L, "serialized": target, "error": repr(err)[:200]}
            if target > L:
                R.count("limit_send_over")
                if err is None:
                    run.violation("C13/rs/%s/%s/limit-send/no-error-over-limit" % (fw, side),
                                  "send() of %d octets (peer maximum %d) returned normally" % (target, L), detail, case)
                else:
                    R.seen("limit_send_errors", type(err).__name__)
            else:
                R.count("limit_send_within")
                if err is not None:
                    run.violation("C13/rs/%s/%s/limit-send/error-within-limit" % (fw, side),
                                  "send() of %d octets (peer maximum %d) raised %s" % (target, L, type(err).__name__), detail, case)
                else:
                    sent_ok.append(spec)
            pump(env, link, rng, policy)
        frames, rest = E.rs_parse_stream(bytes(ep.all_out)[4:])
        if any(len(p) > L for _, p in frames) or (len(rest) >= 4 and ((rest[1] << 16) | (rest[2] << 8) | rest[3]) > L):
            run.violation("C13/rs/%s/%s/limit-send/sent-over-announced" % (fw, side), "a frame longer than the peer's announced maximum %d was written" % L,
                          {"frames": [len(p) for _, p in frames]}, case)
        if peer_book.last is not None and not (s.lost or c.lost or s.close_requested or c.close_requested):
            check_delivery(run, key, case, sent_ok, peer_book.last, side + "-to-" + peer)
        R.seen("limit_send_exps", "%s/%d" % (fw, L.bit_length() - 1))
    if s.close_requested or c.close_requested or s.lost or c.lost:
        run.violation(key + "/closed-unexpectedly", "transport closed although nothing over a limit reached the wire",
                      {"escaped": _escapes(env, [s, c]), "announced": ann}, case)
    cb.last.transport.close() if cb.last.transport.isOpen() else None
    drain_pair(env, link, rng, policy)
    check_onclose_once(run, key, case, (("server", sb), ("client", cb)))
    R.seen("nontrivial", "limit-pair/%s/%s/%s/%s" % (fw, ser, case.get("smax"), case.get("cmax")))


def run_rs_limit_pair_open(run, case):
    """Two library endpoints with their own maxima; each SESSION sends, from inside its onOpen(), a small message, messages of
    announced(peer)-1 / = / +1 octets and a small one again (each send guarded).  Judged against the maximum each end really
    announced (read from its handshake octets)."""
    R = run.R
    R.count("evaluations")
    env = run.fresh()
    fw, ser = run.fw, case["ser"]
    rng = random.Random(case["seed"])
    policy = case["policy"]
    key = "C13/rs/%s/pair/limit-open" % fw
    measure = _lib_measure(ser)
    plans = {}
    for side, peer_max in (("client", case.get("smax")), ("server", case.get("cmax"))):
        plan = [{"k": "call", "id": 8, "tag": side + "-before", "fill": ""}]
        if peer_max:
            guess = 2 ** max(9, (peer_max - 1).bit_length())
            for delta in case["deltas"]:
                if guess + delta < 2 ** 24:
                    sp = E.sized_spec(measure, "publish", 1000 + delta, "%s%+d" % (side, delta), guess + delta)
                    if sp is not None:
                        plan.append(sp)
        plan.append({"k": "event", "id": 9, "tag": side + "-after", "fill": ""})
        plans[side] = plan
    sscript = E.SessionScript(try_on_open=[E.build_message(x) for x in plans["server"]])
    cscript = E.SessionScript(try_on_open=[E.build_message(x) for x in plans["client"]])
    sb, cb, s, c, link = open_pair(run, env, "rs", [ser], [ser], sscript=sscript, cscript=cscript, smax=case.get("smax"), cmax=case.get("cmax"),
                                   rng=rng, policy=policy)
    if sb.opens != 1 or cb.opens != 1:
        run.violation(key + "/not-attached", "pair did not attach", {"escaped": _escapes(env, [s, c])}, case)
        return
    ann = {"server": 2 ** (9 + (bytes(s.all_out)[1] >> 4)), "client": 2 ** (9 + (bytes(c.all_out)[1] >> 4))}
    any_over = wrote_over = False
    for side, book, peer_book, ep, peer in (("client", cb, sb, c, "server"), ("server", sb, cb, s, "client")):
        L = ann[peer]
        k2 = "C13/rs/%s/%s/%s" % (fw, side, SEND_SITES["open"])
        plan = plans[side]
        errs = [e for s_, i, e in book.last.site_results if s_ == "open"]
        if len(errs) != len(plan):
            run.violation(k2 + "/callback-cut-short", "only %d of the %d guarded sends inside onOpen ran" % (len(errs), len(plan)),
                          {"escaped": _escapes(env, [s, c])}, case)
            continue
        sent_ok = []
        for sp, err in zip(plan, errs):
            n = measure(sp)
            detail = {"sender": side, "peer_announced": L, "serialized": n, "error": repr(err)[:200], "site": "open"}
            if n > L:
                any_over = True
                R.count("limit_send_over_onopen")
                R.count("limit_pair_open_over")
                if err is None:
                    run.violation(k2 + "/no-error-over-limit", "send() of %d octets (peer maximum %d) inside onOpen returned normally" % (n, L), detail, case)
                else:
                    R.seen("limit_send_errors", type(err).__name__)
            else:
                R.count("limit_send_within_onopen")
                if n == L:
                    R.count("limit_pair_open_at_limit")
                if err is not None:
                    run.violation(k2 + "/error-within-limit", "send() of %d octets (peer maximum %d) inside onOpen raised %s" % (n, L, type(err).__name__), detail, case)
                else:
                    sent_ok.append(sp)
        frames, rest = E.rs_parse_stream(bytes(ep.all_out)[4:])
        if any(len(p) > L for _, p in frames) or (len(rest) >= 4 and ((rest[1] << 16) | (rest[2] << 8) | rest[3]) > L):
            run.violation(k2 + "/sent-over-announced", "a frame longer than the peer's announced maximum %d was written from inside onOpen" % L,
                          {"frames": [len(p) for _, p in frames], "site": "open"}, case)
            wrote_over = True
        elif not (s.lost or c.lost or s.close_requested or c.close_requested):
            check_delivery(run, key, case, sent_ok, peer_book.last, side + "-to-" + peer)
        R.seen("limit_send_exps_onopen", "%s/%d" % (fw, L.bit_length() - 1))
        R.seen("limit_send_sites", "%s/%s/pair-open" % (fw, side))
    if (s.close_requested or c.close_requested or s.lost or c.lost) and not wrote_over:
        run.violation(key + "/closed-unexpectedly", "transport closed although nothing over a limit reached the wire",
                      {"escaped": _escapes(env, [s, c]), "announced": ann}, case)
    cb.last.transport.close() if cb.last.transport.isOpen() else None
    drain_pair(env, link, rng, policy)
    check_onclose_once(run, key, case, (("server", sb), ("client", cb)))
    R.seen("nontrivial", "limit-pair-open/%s/%s/%s/%s/%s" % (fw, ser, case.get("smax"), case.get("cmax"), policy))


# =================================================================================================
# 4. corruption at every position
# =================================================================================================

RS_CORRUPTIONS = ["ftype-1", "ftype-2", "ftype-3", "ftype-7", "ftype-rsv", "ftype-rsv0", "garbage", "truncated", "nonlist", "badtype", "empty",
                  "sess-runtime", "sess-protocol", "open-raises", "open-raises-early", "open-raises-sent", "ctor-raises", "out-of-phase"]
WS_CORRUPTIONS = ["flip-opcode", "garbage", "truncated", "nonlist", "badtype", "empty",
                  "sess-runtime", "sess-protocol", "open-raises", "open-raises-early", "open-raises-sent", "ctor-raises", "out-of-phase"]
OPEN_RAISES = {"open-raises": True, "open-raises-early": "early", "open-raises-sent": "sent"}
INTERNAL = ("sess-runtime", "open-raises", "open-raises-early", "open-raises-sent", "ctor-raises")


def corruption_class(ckind):
    """Few mechanism classes for violation keys (the exact kind is in the witness)."""
    if ckind.startswith("ftype-") or ckind == "flip-opcode":
        return "frame-type"
    if ckind in ("garbage", "truncated", "nonlist", "badtype", "empty"):
        return "payload"
    if ckind == "out-of-phase":
        return "out-of-phase"
    return "session-code"


def corrupt_payload(rp, ckind, spec, rng):
    """-> payload octets that are NOT a valid WAMP message for the negotiated serializer (text-safe for JSON)."""
    good = rp.encode(spec)
    dumps = E.plain_codec(rp.base)[0]
    if ckind == "garbage":
        if rp.base == "json":
            junk = "".join(rng.choice("{}[]:,\"x1 ") for _ in range(rng.randint(1, 40))) + "]"
            return junk.encode("ascii")
        return bytes([0xC1 if rp.base == "msgpack" else 0xFF]) + bytes(rng.getrandbits(8) for _ in range(rng.randint(0, 40)))
    if ckind == "truncated":
        cutn = rng.randint(1, max(1, min(len(good) - 1, 12)))
        rec = E.unbatch(rp.ser, good)[0]
        if rp.base == "json":
            # cut on a character boundary: a text frame that is not UTF-8 is the WebSocket layer's business (1007)
            rec = rec.decode("utf8")[:-cutn].encode("utf8")
        else:
            rec = rec[:-cutn]
        # batched mode: the batch envelope stays consistent, the record itself is cut short
        return E.batch(rp.ser, [rec]) if rp.ser.endswith(".batched") else rec
    if ckind == "nonlist":
        return E.batch(rp.ser, [dumps({"not": "a list"})])
    if ckind == "badtype":
        return E.batch(rp.ser, [dumps([9999, 1, {}])])
    if ckind == "empty":
        return b""
    raise ValueError(ckind)


def run_corrupt(run, case):
    R = run.R
    R.count("evaluations")
    env = run.fresh()
    fw, tr, role, ser, ckind, pos, n = run.fw, case["tr"], case["role"], case["ser"], case["ckind"], case["pos"], case["n"]
    rng = random.Random(case["seed"])
    policy = case["policy"]
    fbd = case.get("fail_by_drop", True)
    key = "C13/%s/%s/%s/corrupt/%s" % (tr, fw, role, corruption_class(ckind))
    script = None
    real = False
    if ckind == "sess-runtime":
        script = E.SessionScript(raise_on_message=pos, raise_exc="runtime")
    elif ckind == "sess-protocol":
        script = E.SessionScript(raise_on_message=pos, raise_exc="protocol")
    elif ckind in OPEN_RAISES:
        script = E.SessionScript(raise_in_open=OPEN_RAISES[ckind])
    elif ckind == "ctor-raises":
        script = E.SessionScript(raise_in_ctor=True)
    elif ckind == "out-of-phase":
        real = True
    options = {"failByDrop": fbd} if tr == "ws" else None
    rp = RawPeer(run, env, tr, role, ser, script=script, max_size=case.get("max_size"), options=options, real_session=real)
    rp.rng = random.Random(case["seed"] + 7)
    attached = rp.handshake()
    book = rp.book
    if ckind in OPEN_RAISES or ckind == "ctor-raises":
        good = []
        specs = gen_specs(rng, 2, "g")
        stream = b"".join(rp.frame(rp.encode(sp)) for sp in specs)
        need_prefix = 0
    elif real:
        # REAL ApplicationSession (client role): pos 0 = RESULT before WELCOME, pos 1 = WELCOME, then RESULT for an unknown request
        dumps = E.plain_codec(rp.base)[0]
        welcome = [2, 7001, {"roles": {"broker": {}, "dealer": {}}, "realm": "realm1", "authid": "a", "authrole": "anonymous"}]
        seq = ([welcome] if pos >= 1 else []) + [[50, 987654, {}, ["out-of-phase"]]]
        stream = b"".join(rp.frame(E.batch(rp.ser, [dumps(m)])) for m in seq)
        good, specs, need_prefix = [], [], 0
        if not attached:
            run.violation(key + "/not-attached", "valid handshake did not attach the session", {"escaped": _escapes(env, [rp.ep])}, case)
            return
    else:
        if not attached:
            run.violation(key + "/not-attached", "valid handshake did not attach the session", {"escaped": _escapes(env, [rp.ep])}, case)
            return
        specs = gen_specs(rng, n, "g")
        units = [rp.frame(rp.encode(sp)) for sp in specs]
        need_prefix = pos
        utf8_ok = True
        if ckind.startswith("sess-"):
            pass
        elif ckind.startswith("ftype-"):
            t = {"ftype-1": 1, "ftype-2": 2, "ftype-3": 3, "ftype-7": 7}.get(ckind)
            if ckind == "ftype-rsv":          # reserved bits set AND a type other than 'regular'
                t = rng.choice([0x09, 0x0A, 0x13, 0x47, 0x81, 0xFA, 0xFF, 0x0F])
            elif ckind == "ftype-rsv0":       # only reserved bits set (type bits 000): rejecting or ignoring the bits are both accepted
                t = rng.choice([0x08, 0x10, 0x40, 0x80, 0xF8])
            victim = gen_specs(rng, 1, "bad")[0]
            victim_payload = rp.encode(victim)
            units.insert(pos, rp.frame(victim_payload, ftype=t))
            if ckind == "ftype-rsv0":
                specs = specs[:pos] + [victim] + specs[pos:]
        elif ckind == "flip-opcode":
            victim = gen_specs(rng, 1, "bad")[0]
            payload = rp.encode(victim)
            flipped = ref.OP_BIN if rp.base == "json" else ref.OP_TEXT
            utf8_ok = ref.is_valid_utf8(payload)
            units.insert(pos, rp.frame(payload, opcode=flipped))
        else:
            units.insert(pos, rp.frame(corrupt_payload(rp, ckind, gen_specs(rng, 1, "bad")[0], rng)))
        stream = b"".join(units)
        good = specs
    esc0 = _exc_names(env, [rp.ep])
    rp.feed_chunks(E.cut(rng, stream, policy))
    ep = rp.ep
    R.count("corrupt_cases")
    R.seen("corrupt_kinds", "%s/%s/%s" % (tr, role, ckind))
    # -- what was delivered: the good prefix intact; later units only if intact members in order; never the corrupted unit
    sess = book.last
    if not real and ckind not in OPEN_RAISES and ckind != "ctor-raises":
        check_delivery(run, key, case, good, sess, "in", prefix_only=need_prefix + (1 if ckind.startswith("sess-") else 0))
    # -- the transport ends closed
    esc = _exc_names(env, [ep])
    closed_by_lib = ep.close_requested is not None
    torn_down = ep.lost and not closed_by_lib
    detail = {"close_requested": ep.close_requested, "lost": ep.lost, "escaped": _escapes(env, [ep]),
              "fail_codes": list(ep.proto.__dict__.get("vf_fail", [])), "wire_close": E.ws_close_codes(ep) if tr == "ws" else None}
    if esc:
        R.count("escaped_after_attach")
        R.count("escape:%s/%s/%s/%s" % (tr, role, ckind, esc[0]))
    if tr == "ws":
        want = 1011 if ckind in INTERNAL else 1002
        codes = list(ep.proto.__dict__.get("vf_fail", []))
        wire = E.ws_close_codes(ep)
        accept = {want}
        if ckind == "flip-opcode" and not utf8_ok:
            accept = {1002, 1007}
        R.count("ws_status_checked")
        if not codes and not wire and not torn_down:
            run.violation(key + "/not-closed", "connection not failed after %s at position %d" % (ckind, pos), detail, case)
        else:
            seen = wire[0] if wire else (codes[0] if codes else None)
            R.seen("ws_statuses", "%s/%s" % (ckind, seen))
            if seen is not None and seen not in accept:
                run.violation(key + "/wrong-status-%s" % seen, "connection failed with status %s, expected %s" % (seen, sorted(accept)), detail, case)
            if not fbd and codes and not wire and not torn_down and ckind != "ctor-raises" and ckind not in OPEN_RAISES:
                run.violation(key + "/no-close-frame", "failByDrop=False but no close frame was written", detail, case)
    elif ckind == "ftype-rsv0" and not (closed_by_lib or ep.lost):
        # grey zone (reserved bits ignored): then the frame must have been treated as a regular message, intact and in order
        R.count("rs_reserved_bits_ignored")
        check_delivery(run, key, case, good, sess, "in")
    elif ckind in ("ftype-1", "ftype-2") and not (closed_by_lib or ep.lost):
        # a transport that implements RawSocket PING/PONG (WAMP spec) keeps the connection: PING answered by a PONG with the
        # same payload, unsolicited PONG ignored, the frame never delivered as a message, every regular message still delivered
        frames, _rest = rp.wire_messages()
        if ckind == "ftype-1" and not any(t == 2 and p == victim_payload for t, p in frames):
            run.violation(key + "/not-closed", "PING frame at position %d neither closed the transport nor was answered by a PONG" % pos, detail, case)
        R.count("rs_ping_pong_handled")
        check_delivery(run, key, case, good, sess, "in")
    else:
        R.count("rs_close_checked")
        if not (closed_by_lib or ep.lost):
            run.violation(key + "/not-closed", "transport still open after %s at position %d" % (ckind, pos), detail, case)
        else:
            R.count("rs_closed:%s/%s" % (ckind, ep.close_requested or ("framework-teardown-after-" + (esc[0] if esc else "?"))))
    if ckind in ("ftype-rsv0", "ftype-1", "ftype-2") and not (closed_by_lib or ep.lost):
        ep.peer_close(clean=False)
    down = finish_one_sided(env, ep, tr, role, case.get("peer_replies", True))
    if not down:
        run.violation(key + "/not-closed", "transport did not end closed (%s at position %d)" % (ckind, pos), detail, case)
    env.world.advance(30)
    if check_onclose_once(run, key, case, ((None, book),), " (%s)" % ckind):
        R.count("corrupt_cases_closed_once")
    late = _exc_names(env, [ep])
    if len(late) > len(esc):
        R.count("escape:%s/%s/%s/teardown-%s" % (tr, role, ckind, late[-1]))
    R.seen("nontrivial", "corrupt/%s/%s/%s/%s/%s/%d/%d/%s/%s" % (fw, tr, role, ser, ckind, pos, fbd, policy, case.get("peer_replies", True)))


def run_pair_boom(run, case):
    """Two library endpoints; one session raises at its k-th onMessage (or in onOpen): BOTH ends must end closed and
    each attached session is told exactly once."""
    R = run.R
    R.count("evaluations")
    env = run.fresh()
    fw, tr, ser, ckind, pos = run.fw, case["tr"], case["ser"], case["ckind"], case["pos"]
    rng = random.Random(case["seed"])
    policy = case["policy"]
    victim = case["victim"]
    key = "C13/%s/%s/%s/corrupt/%s" % (tr, fw, victim, corruption_class(ckind))
    if ckind in OPEN_RAISES:
        script = E.SessionScript(raise_in_open=OPEN_RAISES[ckind])
    else:
        script = E.SessionScript(raise_on_message=pos, raise_exc="protocol" if ckind == "sess-protocol" else "runtime")
    options = {"failByDrop": case.get("fail_by_drop", True)} if tr == "ws" else None
    sb, cb, s, c, link = open_pair(run, env, tr, [ser], [ser], sscript=script if victim == "server" else None,
                                   cscript=script if victim == "client" else None, options=options, rng=rng, policy=policy)
    vb, ob = (sb, cb) if victim == "server" else (cb, sb)
    specs = gen_specs(rng, case["n"], "p")
    if ckind not in OPEN_RAISES:
        if sb.opens != 1 or cb.opens != 1:
            run.violation(key + "/not-attached", "pair did not attach", {"escaped": _escapes(env, [s, c])}, case)
            return
        for sp in specs:
            try:
                ob.last.transport.send(E.build_message(sp))
            except Exception:
                break
            if rng.random() < 0.5:
                pump(env, link, rng, policy)
        pump(env, link, rng, policy)
        check_delivery(run, key, case, specs, vb.last, "in", prefix_only=pos + 1)
    R.count("corrupt_cases")
    R.seen("corrupt_kinds", "%s/pair-%s/%s" % (tr, victim, ckind))
    vep, oep = (s, c) if victim == "server" else (c, s)
    detail = {"victim": [vep.close_requested, vep.lost], "other": [oep.close_requested, oep.lost], "escaped": _escapes(env, [s, c]),
              "fail_codes": list(vep.proto.__dict__.get("vf_fail", [])), "victim_wire_close": E.ws_close_codes(vep) if tr == "ws" else None}
    if not (vep.close_requested or vep.lost or (tr == "ws" and vep.proto.__dict__.get("vf_fail"))):
        run.violation(key + "/not-closed", "transport of the failing session not closed", detail, case)
    if tr == "ws":
        want = 1002 if ckind == "sess-protocol" else 1011
        codes = list(vep.proto.__dict__.get("vf_fail", []))
        wire = E.ws_close_codes(vep)
        seen = wire[0] if wire else (codes[0] if codes else None)
        R.count("ws_status_checked")
        R.seen("ws_statuses", "pair-%s/%s" % (ckind, seen))
        if seen is not None and seen != want:
            run.violation(key + "/wrong-status-%s" % seen, "connection failed with status %s, expected %d" % (seen, want), detail, case)
    down = drain_pair(env, link, rng, policy)
    if not down:
        env.world.advance(60)
        down = drain_pair(env, link, rng, policy)
    if not down:
        run.violation(key + "/not-closed", "both transports did not end closed after the session failure", detail, case)
    if check_onclose_once(run, key, case, (("server", sb), ("client", cb)), " (pair, %s)" % ckind):
        R.count("corrupt_cases_closed_once")
    esc = _exc_names(env, [s, c])
    if esc:
        R.count("escaped_after_attach")
        R.count("escape:%s/pair/%s/%s" % (tr, ckind, esc[0]))
    R.seen("nontrivial", "pair-boom/%s/%s/%s/%s/%s/%d/%s" % (fw, tr, victim, ser, ckind, pos, policy))


# =================================================================================================
# 5. mixed-framework pairs (this process' framework <-> the other framework in a child process, lockstep relay)
# =================================================================================================

def run_mixed(run, case):
    R = run.R
    R.count("evaluations")
    env = run.fresh()
    fw = run.fw
    other = "aio" if fw == "tx" else "tx"
    tr, local_role = case["tr"], case["local_role"]
    remote_role = "server" if local_role == "client" else "client"
    cser, ssers = case["cser"], case["ssers"]
    cfw, sfw = (fw, other) if local_role == "client" else (other, fw)
    key = "C13/%s/mixed/%s-client-%s-server" % (tr, cfw, sfw)
    rem = run.remote(other)
    rng = random.Random(case["seed"])
    seg = E.link_seg(case["policy"])
    book = E.Book()
    if tr == "rs":
        f = env.rs_server_factory(book, ssers) if local_role == "server" else env.rs_client_factory(book, cser[0])
    else:
        f = env.ws_server_factory(book, ssers) if local_role == "server" else env.ws_client_factory(book, cser)
        ws_rec_protocol(f)
    rstate = {"close": None, "lost": False, "opens": [], "closes": [], "escaped": [], "sessions": 0}
    rmsgs = []
    pend = {"l2r": bytearray(), "r2l": bytearray()}

    def absorb(res):
        pend["r2l"] += bytes.fromhex(res["out"])
        rmsgs.extend(res["msgs"])
        for k in ("close", "lost", "opens", "closes", "escaped", "sessions"):
            rstate[k] = res[k]
        return res

    absorb(rem.call(op="open", tr=tr, role=remote_role, sers=(ssers if remote_role == "server" else cser)))
    ep = E.fast_attach(env.world, f, local_role)

    def relay():
        moved = 0
        for _ in range(400000):
            pend["l2r"] += ep.take_output()
            dirs = []
            if pend["l2r"] and not (rstate["lost"] or rstate["close"]):
                dirs.append("l2r")
            if pend["r2l"] and not (ep.lost or ep.close_requested):
                dirs.append("r2l")
            if not dirs:
                break
            d = rng.choice(dirs)
            buf = pend[d]
            n = max(1, min(len(buf), seg(rng, len(buf))))
            chunk = bytes(buf[:n])
            del buf[:n]
            moved += n
            if case["policy"] == "burst" and len(chunk) > 1:
                k = min(len(chunk), rng.randint(2, 6))
                offs = [0] + sorted(rng.sample(range(1, len(chunk)), k - 1)) + [len(chunk)]
                pieces = [chunk[a:b] for a, b in zip(offs, offs[1:])]
                if d == "l2r":
                    absorb(rem.call(op="feed_burst", data=[x.hex() for x in pieces]))
                    if other == "aio":
                        R.count("aio_bursts_fed")
                else:
                    E.feed_burst(ep, pieces)
                    env.world.settle()
                    if fw == "aio":
                        R.count("aio_bursts_fed")
            elif d == "l2r":
                absorb(rem.call(op="feed", data=chunk.hex()))
            else:
                ep.feed(chunk)
                env.world.settle()
        pend["l2r"] += ep.take_output()
        return moved

    def propagate():
        changed = False
        if ep.close_requested and not ep.lost:
            how = ep.close_requested
            if how == "lose":
                relay()
            ep.finish_close()
            env.world.settle()
            if not rstate["lost"]:
                absorb(rem.call(op="peer_close", clean=(how == "lose")))
            changed = True
        if rstate["close"] and not rstate["lost"]:
            how = rstate["close"]
            if how == "lose":
                relay()
            absorb(rem.call(op="finish"))
            if not ep.lost:
                ep.peer_close(clean=(how == "lose"))
                env.world.settle()
            changed = True
        # an end torn down by its framework (escaped exception): the peer sees the connection drop
        if ep.lost and not rstate["lost"] and not rstate["close"]:
            absorb(rem.call(op="peer_close", clean=False))
            changed = True
        if rstate["lost"] and not ep.lost and not ep.close_requested:
            ep.peer_close(clean=False)
            env.world.settle()
            changed = True
        return changed

    def drain():
        for _ in range(40):
            relay()
            if propagate():
                continue
            if ep.lost and rstate["lost"]:
                return True
            fired = env.world.fire_next_timer()
            res = absorb(rem.call(op="timer"))
            if not fired and not res.get("fired"):
                break
        return ep.lost and rstate["lost"]

    relay()
    R.count("mixed_cases")
    if tr == "rs":
        common = cser[0] if cser[0].partition(".")[0] in [x.partition(".")[0] for x in ssers] else None
    else:
        common = next((x for x in cser if x in ssers), None)
    lesc = _exc_names(env, [ep])
    if common is None:
        R.count("mixed_refused")
        if book.sessions or rstate["sessions"]:
            run.violation(key + "/attached-no-common", "session attached although the two ends share no serializer", {"client": cser, "server": ssers}, case)
        down = drain()
        # escapes during the handshake: keyed like the single-framework monitor (same mechanism)
        for side_fw, side_role, names in ((fw, local_role, _exc_names(env, [ep])), (other, remote_role, rstate["escaped"])):
            if names:
                if tr == "rs":
                    run.violation("C13/rs/%s/%s/handshake/%s/escaped-%s" % (side_fw, side_role, "unsupported-serializer" if side_role == "server" else "error-reply", names[0]),
                                  "exception %s reached the framework during the opening handshake (mixed pair)" % names, {"client": cser, "server": ssers}, case)
                else:
                    run.violation("C13/ws/%s/nego/escaped-%s" % (side_fw, names[0]), "exception reached the framework during the WebSocket opening handshake (mixed pair)",
                                  {"client": cser, "server": ssers}, case)
        if not down:
            run.violation(key + "/refused-not-closed", "refused handshake did not end with both transports closed",
                          {"local": [ep.close_requested, ep.lost], "remote": [rstate["close"], rstate["lost"]]}, case)
        if book.closes or sum(rstate["closes"]) or book.opens or sum(rstate["opens"]):
            run.violation(key + "/attached-no-common", "session callbacks ran on a refused handshake", {}, case)
        R.seen("nontrivial", "mixed/%s/%s/%s/%s>%s/%s" % (tr, cfw, sfw, ",".join(cser), ",".join(ssers), case["policy"]))
        return
    if book.opens != 1 or rstate["opens"] != [1]:
        run.violation(key + "/not-attached", "pair with common serializer %s did not attach (local onOpen x%d, remote %r)" % (common, book.opens, rstate["opens"]),
                      {"local_escaped": lesc, "remote_escaped": rstate["escaped"]}, case)
        return
    lsend, rsend = case["local_send"], case["remote_send"]
    order = ["l"] * len(lsend) + ["r"] * len(rsend)
    rng.shuffle(order)
    li = ri = 0
    for who in order:
        if who == "l":
            try:
                book.last.transport.send(E.build_message(lsend[li]))
            except Exception as e:
                run.violation(key + "/send-raised", "send() raised %s on an open transport" % type(e).__name__, {"error": repr(e)[:200]}, case)
                return
            li += 1
            env.world.settle()
        else:
            res = absorb(rem.call(op="send", spec=rsend[ri]))
            ri += 1
            if res.get("error"):
                run.violation(key + "/send-raised", "send() raised on an open transport (remote end)", {"error": res["error"]}, case)
                return
        if rng.random() < 0.5:
            relay()
    relay()
    ok = check_delivery(run, key, case, rsend, book.last, "%s-to-%s" % (remote_role, local_role))
    # remote deliveries arrive as descriptions
    for i, sp in enumerate(lsend):
        R.count("stream_msgs_compared")
        want = E.expected_description(sp)
        got = rmsgs[i] if i < len(rmsgs) else None
        if got is None or any(got.get(k) != v for k, v in want.items()):
            clause = "lost" if got is None else "altered"
            run.violation("%s/%s-to-%s/%s" % (key, local_role, remote_role, clause), "message #%d sent to the other framework's endpoint was not delivered intact in order" % i,
                          {"got": repr(got)[:200], "want": repr(want)[:200], "delivered": len(rmsgs)}, case)
            ok = False
            break
    if len(rmsgs) > len(lsend):
        run.violation("%s/%s-to-%s/duplicated-or-reordered" % (key, local_role, remote_role), "more messages delivered than sent", {"delivered": len(rmsgs)}, case)
        ok = False
    if ep.close_requested or ep.lost or rstate["close"] or rstate["lost"]:
        run.violation(key + "/closed-unexpectedly", "transport closed during a well-formed conversation",
                      {"local": [ep.close_requested, ep.lost], "remote": [rstate["close"], rstate["lost"]], "escaped": _escapes(env, [ep]) + rstate["escaped"]}, case)
    if rng.random() < 0.5:
        book.last.transport.close()
        env.world.settle()
    else:
        absorb(rem.call(op="close"))
    down = drain()
    if not down:
        run.violation(key + "/close-not-completed", "transport.close() did not bring both transports down",
                      {"local": [ep.close_requested, ep.lost], "remote": [rstate["close"], rstate["lost"]]}, case)
    check_onclose_once(run, key, case, ((local_role, book),))
    R.count("onclose_checked")
    if rstate["closes"] != [1]:
        run.violation("%s/%s/onclose-x%s" % (key, remote_role, sum(rstate["closes"])), "attached session (other framework) was told %r times that the transport is gone"
                      % rstate["closes"], {}, case)
    esc = _exc_names(env, [ep]) + list(rstate["escaped"])
    if esc:
        run.violation("%s/escaped-%s" % (key, esc[0]), "exception reached the framework during a well-formed conversation", {"escaped": esc}, case)
    if ok:
        R.count("mixed_delivered_ok")
        R.seen("nontrivial", "mixed/%s/%s/%s/%s/%s/%d" % (tr, cfw, sfw, common, case["policy"], case["seed"]))
        R.seen("mixed_pairings", "%s/%s-client/%s-server" % (tr, cfw, sfw))


# =================================================================================================

DISPATCH = {
    "rs-hs": run_rs_hs,
    "ws-nego": run_ws_nego,
    "ws-nego-raw": run_ws_nego_raw,
    "pair-stream": run_pair_stream,
    "raw-stream": run_raw_stream,
    "rs-limit-send": run_rs_limit_send,
    "rs-limit-recv": run_rs_limit_recv,
    "rs-limit-pair": run_rs_limit_pair,
    "rs-limit-pair-open": run_rs_limit_pair_open,
    "corrupt": run_corrupt,
    "pair-boom": run_pair_boom,
    "mixed": run_mixed,
}


def run_case(run, case):
    return DISPATCH[case["kind"]](run, case)
