"""Coordinator / worker protocol shared by all checks.

A check module (``checks/cNN.py``) defines::

    PROPERTY = "C09"; LEVEL = "exploration"; RULE = "..."; ASSUMPTIONS = [...]
    DECIDING = {"counter": minimum, ...}      # monitors that must have observed something
    def shards(tier, seed) -> [ {name, params, env?, timeout?, fw?} ]
    def run_shard(params, R)                  # executed in a worker process
    def replay(case, R)                       # optional: re-execute one recorded case

The coordinator runs every shard in its own ``subprocess.run(timeout=...)`` (never a
multiprocessing pool: a child dying on a signal must be seen, not hang), aggregates the
recorders, applies the known-findings file, writes the evidence file and prints the verdict
lines.  Exit codes: 0 held on everything explored, 1 violation (``VIOLATION property=..
replay=..``), 3 inconclusive (a shard timed out / a deciding monitor observed nothing),
2 cannot run (build failure, repository not importable).
"""

import hashlib
import importlib
import json
import os
import subprocess
import sys
import time
import traceback
from concurrent.futures import ThreadPoolExecutor

from . import bootstrap

VERIF_ROOT = bootstrap.VERIF_ROOT
PY = os.environ.get("VERIF_PYTHON", "/venv/bin/python")
MAX_SAMPLES = 12
MAX_DISTINCT_PER_SHARD = 3_000_000


def h(obj, n=12):
    if not isinstance(obj, (bytes, bytearray)):
        obj = json.dumps(obj, sort_keys=True, default=repr).encode()
    return hashlib.blake2b(obj, digest_size=8).hexdigest()[:n]


class Recorder:
    """Per-shard collection of what the monitors observed."""

    def __init__(self):
        self.counters = {}
        self.distinct = {}
        self.samples = []
        self.violations = {}   # key -> {key, what, count, detail, replay}
        self.notes = {}
        self._sample_every = {}

    # -- counting -------------------------------------------------------------------
    def count(self, name, n=1):
        self.counters[name] = self.counters.get(name, 0) + n

    def seen(self, name, key):
        """Record a member of a distinct-set (hashed when long)."""
        s = self.distinct.setdefault(name, set())
        if len(s) < MAX_DISTINCT_PER_SHARD:
            if not isinstance(key, str) or len(key) > 24:
                key = h(key)
            s.add(key)

    def note(self, name, value):
        self.notes[name] = value

    def sample(self, obj, kind="case", every=1):
        """Keep a few real cases so a reader can see what they look like."""
        k = self._sample_every.get(kind, 0)
        self._sample_every[kind] = k + 1
        if k % every == 0 and sum(1 for s in self.samples if s.get("kind") == kind) < 3:
            self.samples.append({"kind": kind, "case": obj})

    # -- verdicts -------------------------------------------------------------------
    def violation(self, key, what, detail=None, replay=None):
        """``key`` classifies the violation by MECHANISM (call site / clause / input class) -
        never by seed, hash or random value; it is what known findings are matched on."""
        v = self.violations.get(key)
        if v is None:
            self.violations[key] = {"key": key, "what": what, "count": 1,
                                    "detail": detail or {}, "replay": replay or {}}
        else:
            v["count"] += 1

    def dump(self):
        return {
            "counters": self.counters,
            "distinct": {k: sorted(v) for k, v in self.distinct.items()},
            "samples": self.samples,
            "violations": list(self.violations.values()),
            "notes": self.notes,
        }


# ------------------------------------------------------------------------------------
# worker side
# ------------------------------------------------------------------------------------

def worker_main(argv):
    modname, shard_file, out_file = argv
    with open(shard_file) as f:
        shard = json.load(f)
    bootstrap.assert_repo()
    fw = shard.get("fw")
    if fw:
        bootstrap.use_framework(fw)
    R = Recorder()
    t0 = time.time()
    status = "ok"
    err = None
    try:
        mod = importlib.import_module(modname)
        if shard.get("replay_case") is not None:
            mod.replay(shard["replay_case"], R)
        else:
            mod.run_shard(shard["params"], R)
    except SystemExit:
        raise
    except BaseException:
        status = "harness-error"
        err = traceback.format_exc()
    out = R.dump()
    out.update(status=status, error=err, wall_s=time.time() - t0, shard=shard.get("name"))
    tmp = out_file + ".tmp"
    with open(tmp, "w") as f:
        json.dump(out, f, default=repr)
    os.replace(tmp, out_file)


# ------------------------------------------------------------------------------------
# coordinator side
# ------------------------------------------------------------------------------------

def _run_one(modname, shard, workdir, idx):
    shard_file = os.path.join(workdir, "shard-%d.json" % idx)
    out_file = os.path.join(workdir, "out-%d.json" % idx)
    with open(shard_file, "w") as f:
        json.dump(shard, f)
    env = dict(os.environ)
    env.setdefault("PYTHONHASHSEED", "0")
    env["PYTHONPATH"] = bootstrap.REPO_SRC + os.pathsep + VERIF_ROOT
    env["PYTHONDONTWRITEBYTECODE"] = "1"
    env.pop("USE_TWISTED", None)
    env.pop("USE_ASYNCIO", None)
    for k, v in (shard.get("env") or {}).items():
        if v is None:
            env.pop(k, None)
        else:
            env[k] = str(v)
    timeout = shard.get("timeout", 600)
    t0 = time.time()
    res = {"shard": shard.get("name"), "status": "ok"}
    try:
        p = subprocess.run([PY, "-X", "faulthandler", "-m", "vf.worker", modname, shard_file, out_file],
                           cwd=VERIF_ROOT, env=env, timeout=timeout,
                           stdout=subprocess.PIPE, stderr=subprocess.PIPE)
        res["returncode"] = p.returncode
        res["stderr_tail"] = p.stderr.decode("utf8", "replace")[-3000:]
        if os.path.exists(out_file):
            with open(out_file) as f:
                res.update(json.load(f))
            if p.returncode != 0 and res.get("status") == "ok":
                res["status"] = "crashed"
        else:
            res["status"] = "cannot-run" if p.returncode == 2 else "crashed"
    except subprocess.TimeoutExpired as e:
        res["status"] = "timeout"
        res["stderr_tail"] = (e.stderr or b"").decode("utf8", "replace")[-3000:]
    res["coord_wall_s"] = time.time() - t0
    res["shard_params"] = shard.get("params")
    res["shard_env"] = shard.get("env")
    res["shard_fw"] = shard.get("fw")
    return res


def load_known(prop):
    path = os.path.join(VERIF_ROOT, "known_findings", prop + ".json")
    if not os.path.exists(path):
        return []
    with open(path) as f:
        return json.load(f).get("findings", [])


def match_known(known, key):
    import fnmatch

    for k in known:
        if k.get("status") != "known":
            continue   # 'fixed' entries suppress nothing
        for pat in k.get("match", []):
            if fnmatch.fnmatchcase(key, pat):
                return k
    return None


def run_check(modname, tier, seed, replay_path=None, jobs=None, only=None):
    mod = importlib.import_module(modname)
    prop = mod.PROPERTY
    t0 = time.time()
    workdir = os.path.join(VERIF_ROOT, ".build", "run-%s-%d" % (prop, os.getpid()))
    os.makedirs(workdir, exist_ok=True)
    # self-test runs against a scratch copy must not overwrite the evidence of /repo
    selftest = os.path.abspath(os.environ.get("VERIF_REPO_SRC", "/repo/src")) != "/repo/src"
    ev_dir = os.path.join(VERIF_ROOT, ".build", "selftest-evidence") if selftest else os.path.join(VERIF_ROOT, "evidence")
    if replay_path:
        with open(replay_path) as f:
            rp = json.load(f)
        shards = [{"name": "replay", "fw": rp.get("fw"), "env": rp.get("env"),
                   "replay_case": rp["case"], "timeout": 900}]
    else:
        prep = getattr(mod, "prepare", None)
        if prep:
            ok = prep(tier)
            if ok is False:
                print("CANNOT-RUN property=%s (prepare failed)" % prop)
                return 2
        shards = mod.shards(tier, seed)
        if only:
            # development aid: run a subset of the shards; never writes the real evidence file
            shards = [s for s in shards if only in s.get("name", "")]
            ev_dir = os.path.join(VERIF_ROOT, ".build", "selftest-evidence")
            print("DEV-RUN: only %d shard(s) matching %r; evidence not written" % (len(shards), only))
    jobs = jobs or int(os.environ.get("VERIF_JOBS", "16"))
    results = []
    with ThreadPoolExecutor(max_workers=jobs) as ex:
        futs = [ex.submit(_run_one, modname, s, workdir, i) for i, s in enumerate(shards)]
        for f in futs:
            results.append(f.result())
    # ---- aggregate
    counters, distinct, samples, notes = {}, {}, [], {}
    violations = {}
    bad_shards = []
    for r in results:
        if r["status"] != "ok":
            bad_shards.append({"shard": r["shard"], "status": r["status"],
                               "returncode": r.get("returncode"),
                               "error": r.get("error"), "stderr_tail": r.get("stderr_tail")})
        for k, v in (r.get("counters") or {}).items():
            counters[k] = counters.get(k, 0) + v
        for k, v in (r.get("distinct") or {}).items():
            distinct.setdefault(k, set()).update(v)
        for s in r.get("samples") or []:
            if sum(1 for x in samples if x.get("kind") == s.get("kind")) < 3 and len(samples) < MAX_SAMPLES:
                samples.append(s)
        for k, v in (r.get("notes") or {}).items():
            notes.setdefault(k, v)
        for v in r.get("violations") or []:
            cur = violations.get(v["key"])
            if cur is None:
                v = dict(v)
                v["fw"] = r.get("shard_fw")
                v["env"] = r.get("shard_env")
                v["shard"] = r.get("shard")
                violations[v["key"]] = v
            else:
                cur["count"] += v["count"]
    # a native-code worker dying on a signal is a finding for checks that say so
    crash_is_violation = getattr(mod, "CRASH_IS_VIOLATION", False)
    for b in list(bad_shards):
        if b["status"] == "crashed" and crash_is_violation:
            key = "%s/worker-crash/%s" % (prop, b["shard"])
            violations[key] = {"key": key, "what": "worker process died (rc=%s): %s" % (
                b.get("returncode"), (b.get("stderr_tail") or "")[-400:]), "count": 1, "detail": b,
                "replay": {}, "shard": b["shard"]}
            bad_shards.remove(b)
    known = load_known(prop)
    lines = []
    n_viol = 0
    n_known = 0
    known_printed = set()
    os.makedirs(os.path.join(ev_dir, "replay"), exist_ok=True)
    viol_summ = []
    for key in sorted(violations):
        v = violations[key]
        k = match_known(known, key)
        if k is not None:
            n_known += 1
            if k["id"] not in known_printed:
                known_printed.add(k["id"])
                lines.append("KNOWN-FINDING: property=%s %s [%s]" % (prop, k["what_fails"], k["id"]))
            viol_summ.append({"key": key, "count": v["count"], "known": k["id"]})
            continue
        n_viol += 1
        rp = os.path.join(ev_dir, "replay", "%s-%s.json" % (prop, h(key)))
        with open(rp, "w") as f:
            json.dump({"property": prop, "key": key, "what": v["what"], "detail": v["detail"],
                       "module": modname, "fw": v.get("fw"), "env": v.get("env"),
                       "case": v.get("replay")}, f, indent=1, default=repr)
        lines.append("VIOLATION property=%s replay=%s" % (prop, rp))
        lines.append("  key=%s count=%d what=%s" % (key, v["count"], str(v["what"])[:600]))
        viol_summ.append({"key": key, "count": v["count"], "what": str(v["what"])[:300]})
    # ---- inconclusive?
    inconclusive = []
    for b in bad_shards:
        inconclusive.append("shard %s: %s" % (b["shard"], b["status"]))
    if not replay_path:
        for name, minimum in (getattr(mod, "DECIDING", {}) or {}).items():
            if callable(minimum):
                minimum = minimum(tier)
            got = counters.get(name, len(distinct.get(name, ())))
            if got < minimum:
                inconclusive.append("deciding monitor %r observed %d < %d" % (name, got, minimum))
    wall = time.time() - t0
    # ---- evidence
    if not replay_path:
        nontrivial_name = getattr(mod, "NONTRIVIAL", "nontrivial")
        cov = {
            "evaluations": int(counters.get("evaluations", 0)),
            "distinct_nontrivial": len(distinct.get(nontrivial_name, ())),
            "rule": mod.RULE,
            "samples": samples or [{"kind": "none", "case": "no sample recorded"}],
            "exhaustive": bool(getattr(mod, "EXHAUSTIVE", {}).get(tier, False)) if isinstance(
                getattr(mod, "EXHAUSTIVE", None), dict) else bool(getattr(mod, "EXHAUSTIVE", False)),
            "observed_counters": counters,
            "observed_distinct": {k: len(v) for k, v in distinct.items()},
            "notes": notes,
            "shards": len(shards),
            "shards_not_ok": bad_shards,
            "violation_keys": viol_summ,
            "verdict": "violated" if n_viol else ("inconclusive" if inconclusive else "held-on-observed"),
            "inconclusive_reasons": inconclusive,
        }
        ev = {"property_id": prop, "tier": tier, "seed": seed, "level": mod.LEVEL,
              "coverage": cov, "assumptions": list(getattr(mod, "ASSUMPTIONS", [])),
              "wall_s": round(wall, 2), "violations": n_viol, "known_findings_matched": n_known}
        with open(os.path.join(ev_dir, prop + ".json"), "w") as f:
            json.dump(ev, f, indent=1, default=repr)
    # ---- cleanup scratch
    try:
        import shutil
        shutil.rmtree(workdir)
    except Exception:
        pass
    for ln in lines:
        print(ln)
    summary = "%s tier=%s seed=%d evaluations=%d distinct_nontrivial=%d shards=%d wall=%.1fs" % (
        prop, tier, seed, counters.get("evaluations", 0),
        len(distinct.get(getattr(mod, "NONTRIVIAL", "nontrivial"), ())), len(shards), wall)
    if n_viol:
        print("RESULT violated: " + summary)
        return 1
    if inconclusive:
        for i in inconclusive:
            print("INCONCLUSIVE property=%s %s" % (prop, i))
        for b in bad_shards[:3]:
            sys.stderr.write("--- shard %s (%s)\n%s\n%s\n" % (b["shard"], b["status"], b.get("error") or "",
                                                          b.get("stderr_tail") or ""))
        print("RESULT inconclusive: " + summary)
        return 3
    print("RESULT held-on-observed: " + summary)
    return 0
