"""C18: payload-transparency codecs for the sessions under test and the ORACLE-side opener/sealer of the stub.

Two kinds of codec are installed with ``session.set_payload_codec()``:

* ``"x"`` - a harness codec (enc_algo ``x_c18box``): ``[uri, args, kwargs]`` serialized with one of the plain
  json/msgpack/cbor2 codecs of vf.wamp_harness, sealed with a keyed stream + CRC (vf-only code, nothing of the
  library), optionally labelled with a key id (``enc_key``) that ``decode`` insists on, and - like the library's own
  key ring - with keys only for some URI prefixes (``encode`` returns None elsewhere: the payload travels plain);
* ``"cryptobox"`` - the library's own ``autobahn.wamp.cryptobox.KeyRing`` (NaCl box, JSON inside).

The stub (router + oracle) never goes through a codec object: ``open_payload`` / ``seal_payload`` below re-implement
both formats from the key material of the scenario (NaCl directly + plain json for the key ring), so what the monitor
compares is what a peer holding the same keys reads from the wire.
"""

import base64
import hashlib
import json
import zlib

from .wamp_harness import _codec, _json_unbin

X_ALGO = "x_c18box"
ENC_SERS = ["json", "msgpack", "cbor"]


# ---------------------------------------------------------------------------------------------
# spec (JSON-able, part of the scenario cfg)
# ---------------------------------------------------------------------------------------------

def make_spec(rng, kind, sides, uris_in_play):
    """kind: "x" | "cryptobox"; sides: "both" | "caller".  Keys: a default key (or none) plus keys for up to two
    URI prefixes taken from the URIs in play - with no default key the rest travels plain."""
    prefixes = []
    default = True
    if rng.random() < 0.45 and uris_in_play:
        default = rng.random() < 0.4
        cands = set()
        for u in uris_in_play:
            parts = u.split(".")
            cands.add(u)
            cands.add(parts[0])
            if len(parts) > 2:
                cands.add(".".join(parts[:2]))
            if len(u) > 3:
                cands.add(u[:len(u) // 2 + 1])      # string prefixes count (the key ring is a string trie)
        cands = sorted(c for c in cands if c)
        rng.shuffle(cands)
        prefixes = cands[:rng.randint(1, 2)]
        if rng.random() < 0.5:
            prefixes.append("com.c18")          # the procedures: CALLs encoded or not
    keys = {"": _rand_key(rng)} if default else {}
    for p in prefixes:
        keys[p] = _rand_key(rng)
    return {"kind": kind, "sides": sides, "enc_ser": "json" if kind == "cryptobox" else rng.choice(ENC_SERS),
            "keyid": rng.choice([None, None, "k1", "key-2024"]) if kind == "x" else None, "keys": keys}


def _rand_key(rng):
    return base64.b64encode(bytes(rng.getrandbits(8) for _ in range(32))).decode("ascii")


def key_for(spec, uri):
    """longest string prefix with a key, else the default key, else None (= travels plain)"""
    best = None
    for p in spec["keys"]:
        if p and uri.startswith(p) and (best is None or len(p) > len(best)):
            best = p
    if best is None and "" in spec["keys"]:
        best = ""
    return None if best is None else spec["keys"][best]


# ---------------------------------------------------------------------------------------------
# the "x" format
# ---------------------------------------------------------------------------------------------

def _stream(key, nonce, n):
    out = bytearray()
    c = 0
    while len(out) < n:
        out += hashlib.sha256(key.encode("ascii") + nonce + c.to_bytes(4, "big")).digest()
        c += 1
    return bytes(out[:n])


def _x_seal(key, nonce, plain):
    body = plain + zlib.crc32(plain).to_bytes(4, "big")
    return nonce + bytes(a ^ b for a, b in zip(body, _stream(key, nonce, len(body))))


def _x_open(key, data):
    if len(data) < 12:
        raise ValueError("sealed payload too short")
    nonce, body = data[:8], data[8:]
    body = bytes(a ^ b for a, b in zip(body, _stream(key, nonce, len(body))))
    plain, crc = body[:-4], body[-4:]
    if zlib.crc32(plain).to_bytes(4, "big") != crc:
        raise ValueError("sealed payload does not authenticate")
    return plain


class XCodec:
    """IPayloadCodec of the harness (registered as a virtual subclass on first use)."""

    def __init__(self, spec, who):
        self.spec = spec
        self.who = who
        self.n = 0
        self.calls = []                 # ("encode"|"decode", is_originating, uri, encoded?)

    def encode(self, is_originating, uri, args=None, kwargs=None):
        from autobahn.wamp.types import EncodedPayload
        key = key_for(self.spec, uri)
        self.calls.append(("encode", is_originating, uri, key is not None))
        if key is None:
            return None
        self.n += 1
        nonce = hashlib.sha256(("%s-%d" % (self.who, self.n)).encode()).digest()[:8]
        plain = _codec(self.spec["enc_ser"])[0]([uri, args, kwargs])
        return EncodedPayload(_x_seal(key, nonce, plain), X_ALGO, self.spec["enc_ser"], enc_key=self.spec["keyid"])

    def decode(self, is_originating, uri, encoded_payload):
        self.calls.append(("decode", is_originating, uri, True))
        if encoded_payload.enc_algo != X_ALGO:
            raise Exception("unknown enc_algo %r" % (encoded_payload.enc_algo,))
        if encoded_payload.enc_serializer != self.spec["enc_ser"]:
            raise Exception("unexpected enc_serializer %r" % (encoded_payload.enc_serializer,))
        if encoded_payload.enc_key != self.spec["keyid"]:
            raise Exception("unexpected enc_key %r" % (encoded_payload.enc_key,))
        key = key_for(self.spec, uri)
        if key is None:
            raise Exception("no key for %r" % (uri,))
        u, args, kwargs = _codec(self.spec["enc_ser"])[1](_x_open(key, encoded_payload.payload))
        return u, args, kwargs


_registered = []


def install(session, spec, who):
    """set_payload_codec() on a session under test; -> the codec object"""
    from autobahn.wamp.interfaces import IPayloadCodec
    if spec["kind"] == "x":
        if not _registered:
            IPayloadCodec.register(XCodec)
            _registered.append(True)
        codec = XCodec(spec, who)
    else:
        from autobahn.wamp.cryptobox import Key, KeyRing
        codec = KeyRing()
        for p, k in spec["keys"].items():
            codec.set_key(p, Key(originator_priv=k, responder_priv=k))
    session.set_payload_codec(codec)
    return codec


# ---------------------------------------------------------------------------------------------
# oracle side: what a peer holding the keys reads / writes
# ---------------------------------------------------------------------------------------------

def _box(key):
    from nacl.encoding import Base64Encoder
    from nacl.public import Box, PrivateKey
    k = PrivateKey(key, encoder=Base64Encoder)
    return Box(k, k.public_key)


def is_encoded(msg, at):
    """payload-transparency form of a WAMP list: exactly one element after the URI position and that is binary"""
    return len(msg) == at + 1 and isinstance(msg[at], (bytes, bytearray))


def open_payload(spec, details, envelope_uri, data):
    """-> (inner uri, args, kwargs) or raises ValueError(reason class)"""
    data = bytes(data)
    algo = details.get("enc_algo") if isinstance(details, dict) else None
    want_algo = X_ALGO if spec["kind"] == "x" else "cryptobox"
    if algo != want_algo:
        raise ValueError("enc_algo-%s" % ("missing" if algo is None else "other"))
    if details.get("enc_serializer") != spec["enc_ser"]:
        raise ValueError("enc_serializer-%s" % ("missing" if details.get("enc_serializer") is None else "other"))
    if details.get("enc_key") != spec["keyid"]:
        raise ValueError("enc_key-%s" % ("missing" if details.get("enc_key") is None else "other"))
    key = key_for(spec, envelope_uri)
    if key is None:
        raise ValueError("no-key-for-uri")
    try:
        if spec["kind"] == "x":
            u, args, kwargs = _codec(spec["enc_ser"])[1](_x_open(key, data))
        else:
            from nacl.encoding import RawEncoder
            obj = _json_unbin(json.loads(_box(key).decrypt(data, encoder=RawEncoder).decode("utf8")))
            u, args, kwargs = obj.get("uri"), obj.get("args"), obj.get("kwargs")
    except Exception as e:
        raise ValueError("undecodable-%s" % type(e).__name__)
    return u, args, kwargs


def seal_payload(spec, uri, args, kwargs, n):
    """-> (details additions, payload bytes) as a foreign peer with the same keys would send them; None when it has
    no key for the URI"""
    key = key_for(spec, uri)
    if key is None:
        return None
    if spec["kind"] == "x":
        nonce = hashlib.sha256(b"foreign-%d" % n).digest()[:8]
        data = _x_seal(key, nonce, _codec(spec["enc_ser"])[0]([uri, args, kwargs]))
        d = {"enc_algo": X_ALGO, "enc_serializer": spec["enc_ser"]}
        if spec["keyid"] is not None:
            d["enc_key"] = spec["keyid"]
        return d, data
    from nacl.encoding import RawEncoder
    nonce = hashlib.sha256(b"foreign-%d" % n).digest()[:24]
    plain = _codec("json")[0]({"uri": uri, "args": args, "kwargs": kwargs})
    return {"enc_algo": "cryptobox", "enc_serializer": "json"}, bytes(_box(key).encrypt(plain, nonce, encoder=RawEncoder))
