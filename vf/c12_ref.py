"""Independent RFC 7692 (permessage-deflate) reference for check C12.

Written from the RFC, not from the code; nothing in here imports autobahn.

* ``parse_extensions``     strict parser of a ``Sec-WebSocket-Extensions`` field value (RFC 6455 9.1 grammar)
* ``judge_params``         validity of the parameters of one PMCE element as an offer / as a response
* ``response_problems``    RFC 7692 7.1: is this response element compatible with that offer element?
* ``wire_params``          the per-direction (max window bits, no-context-takeover) agreement a response denotes
* ``RefDeflater`` / ``RefInflater``   RFC 7692 7.2.1 / 7.2.2 on top of raw zlib streams: strip / re-append
  ``00 00 ff ff``, context takeover honoured, LZ77 window = exactly the negotiated maximum.  The inflater feeds
  zlib in small pieces so that back-references must be served from a window of the negotiated size (a one-shot
  ``decompress()`` call would resolve them inside its output buffer and hide a too-large compressor window), and
  it verifies that payload + tail ends on a DEFLATE block boundary.
* bzip2 / brotli: these PMCEs are not standardised; their parameter names and "offered => may be requested"
  semantics are taken from the library's own documentation of the classes (stated as an assumption in the check).
"""

import re
import zlib

DEFLATE = "permessage-deflate"
BZIP2 = "permessage-bzip2"
BROTLI = "permessage-brotli"
SNAPPY = "permessage-snappy"
TAIL = b"\x00\x00\xff\xff"

_TOKEN = re.compile(r"^[!#$%&'*+\-.^_`|~0-9A-Za-z]+$")


class HeaderError(Exception):
    pass


def _split_quoted(s, sep):
    """Split on ``sep`` outside of quoted-strings."""
    out, cur, inq, i = [], [], False, 0
    while i < len(s):
        ch = s[i]
        if inq:
            cur.append(ch)
            if ch == "\\" and i + 1 < len(s):
                cur.append(s[i + 1])
                i += 1
            elif ch == '"':
                inq = False
        elif ch == '"':
            inq = True
            cur.append(ch)
        elif ch == sep:
            out.append("".join(cur))
            cur = []
        else:
            cur.append(ch)
        i += 1
    if inq:
        raise HeaderError("unterminated quoted-string")
    out.append("".join(cur))
    return out


def parse_extensions(value):
    """-> [(extension-name lower, [(param-name lower, value str | None)])]; raises HeaderError when the field value
    does not follow  extension = token *( ";" token [ "=" ( token | quoted-string ) ] )."""
    res = []
    for elem in _split_quoted(value, ","):
        elem = elem.strip(" \t")
        if elem == "":
            continue            # empty list elements are allowed by the #rule
        parts = _split_quoted(elem, ";")
        name = parts[0].strip(" \t")
        if not _TOKEN.match(name):
            raise HeaderError("extension name %r is not a token" % name)
        params = []
        for p in parts[1:]:
            p = p.strip(" \t")
            if "=" in p:
                k, v = p.split("=", 1)
                k, v = k.strip(" \t"), v.strip(" \t")
                if len(v) >= 2 and v[0] == '"' and v[-1] == '"':
                    v = re.sub(r"\\(.)", r"\1", v[1:-1])
                if not _TOKEN.match(v):
                    raise HeaderError("parameter value %r is not a token" % v)
            else:
                k, v = p, None
            if not _TOKEN.match(k):
                raise HeaderError("parameter name %r is not a token" % k)
            params.append((k.lower(), v))
        res.append((name.lower(), params))
    return res


def _int_in(val, lo, hi):
    """decimal integer without leading zeroes inside [lo, hi] -> int or None"""
    if val is None or not re.fullmatch(r"[1-9][0-9]{0,2}", val):
        return None
    n = int(val)
    return n if lo <= n <= hi else None


def judge_params(ext, params, kind):
    """``kind`` in ('offer', 'response').  -> (dict, problems).  dict maps parameter name to True / int."""
    out, problems = {}, []
    for name, val in params:
        if name in out:
            problems.append("duplicate:" + name)
            continue
        if ext == DEFLATE:
            if name in ("server_no_context_takeover", "client_no_context_takeover"):
                if val is not None:
                    problems.append("value-not-allowed:" + name)
                out[name] = True
            elif name == "server_max_window_bits":
                n = _int_in(val, 8, 15)
                if n is None:
                    problems.append("bad-value:" + name)
                out[name] = n
            elif name == "client_max_window_bits":
                if val is None:
                    if kind == "response":
                        problems.append("value-required:" + name)
                    out[name] = True
                else:
                    n = _int_in(val, 8, 15)
                    if n is None:
                        problems.append("bad-value:" + name)
                    out[name] = n
            else:
                problems.append("unknown-parameter:" + name)
        elif ext == BROTLI:
            if name in ("server_no_context_takeover", "client_no_context_takeover"):
                if val is not None:
                    problems.append("value-not-allowed:" + name)
                out[name] = True
            else:
                problems.append("unknown-parameter:" + name)
        elif ext == BZIP2:
            if name == "server_max_compress_level":
                n = _int_in(val, 1, 9)
                if n is None:
                    problems.append("bad-value:" + name)
                out[name] = n
            elif name == "client_max_compress_level":
                if val is None:
                    if kind == "response":
                        problems.append("value-required:" + name)
                    out[name] = True
                else:
                    n = _int_in(val, 1, 9)
                    if n is None or kind == "offer":
                        problems.append("bad-value:" + name)
                    out[name] = n
            else:
                problems.append("unknown-parameter:" + name)
        else:
            problems.append("unknown-extension:" + ext)
    return out, problems


def response_problems(ext, offer, resp):
    """RFC 7692 7.1: what makes response element ``resp`` incompatible with offer element ``offer`` (dicts of
    judge_params).  Empty list = compatible."""
    probs = []
    if ext == DEFLATE:
        if offer.get("server_no_context_takeover") and not resp.get("server_no_context_takeover"):
            probs.append("server_no_context_takeover-offered-not-confirmed")
        if "server_max_window_bits" in offer:
            if "server_max_window_bits" not in resp:
                probs.append("server_max_window_bits-offered-not-confirmed")
            elif resp["server_max_window_bits"] > offer["server_max_window_bits"]:
                probs.append("server_max_window_bits-larger-than-offered")
        if "client_max_window_bits" in resp and "client_max_window_bits" not in offer:
            probs.append("client_max_window_bits-not-offered")
        # server_no_context_takeover / client_no_context_takeover / server_max_window_bits may always be added by
        # the server; a client_max_window_bits value above a hint in the offer is harmless (7.1.2.2) - not judged
    elif ext == BROTLI:
        if offer.get("server_no_context_takeover") and not resp.get("server_no_context_takeover"):
            probs.append("server_no_context_takeover-offered-not-confirmed")
        if resp.get("client_no_context_takeover") and not offer.get("client_no_context_takeover"):
            probs.append("client_no_context_takeover-not-offered")
    elif ext == BZIP2:
        if "server_max_compress_level" in offer:
            if "server_max_compress_level" not in resp:
                probs.append("server_max_compress_level-offered-not-confirmed")
            elif resp["server_max_compress_level"] > offer["server_max_compress_level"]:
                probs.append("server_max_compress_level-larger-than-offered")
        if "client_max_compress_level" in resp and "client_max_compress_level" not in offer:
            probs.append("client_max_compress_level-not-offered")
    return probs


def judge_negotiation(offer_header, response_header):
    """Judge the two header values actually exchanged.
    -> dict(ok, problems=[...], ext, offer=dict|None, resp=dict|None, offers=[(ext, dict, problems)])"""
    res = {"ok": True, "problems": [], "ext": None, "offer": None, "resp": None, "offers": []}

    def bad(p):
        res["ok"] = False
        res["problems"].append(p)

    try:
        offers = parse_extensions(offer_header or "")
    except HeaderError as e:
        offers = []
        res["offer_header_error"] = str(e)
    for ext, params in offers:
        d, probs = judge_params(ext, params, "offer")
        res["offers"].append((ext, d, probs))
    if not response_header:
        return res
    try:
        resp = parse_extensions(response_header)
    except HeaderError as e:
        bad("response-header-malformed:%s" % e)
        return res
    known = (DEFLATE, BZIP2, BROTLI, SNAPPY)
    pm = [(e, p) for e, p in resp if e in known]
    for e, p in resp:
        if e not in known:
            bad("response-names-unknown-extension:" + e)
    if len(pm) > 1:
        bad("response-repeats-pmce")
    if not pm:
        return res
    ext, params = pm[0]
    rd, rprobs = judge_params(ext, params, "response")
    res["ext"], res["resp"] = ext, rd
    for p in rprobs:
        bad("response-parameter-" + p)
    cands = [(d, probs) for e, d, probs in res["offers"] if e == ext]
    if not cands:
        bad("response-extension-not-offered")
        return res
    if rprobs:
        return res
    best = None
    for d, probs in cands:
        if probs:
            continue            # an invalid offer element must not be accepted
        rp = response_problems(ext, d, rd)
        if not rp:
            best = (d, [])
            break
        if best is None:
            best = (d, rp)
    if best is None:
        bad("response-accepts-invalid-offer")
    else:
        res["offer"] = best[0]
        for p in best[1]:
            bad("response-incompatible:" + p)
    return res


def wire_params(ext, resp):
    """What the response element means for the two directions (7.1.1, 7.1.2)."""
    if ext == DEFLATE:
        return {"s_wb": resp.get("server_max_window_bits") or 15, "c_wb": resp.get("client_max_window_bits") or 15,
                "s_nct": bool(resp.get("server_no_context_takeover")), "c_nct": bool(resp.get("client_no_context_takeover"))}
    if ext == BROTLI:
        return {"s_nct": bool(resp.get("server_no_context_takeover")), "c_nct": bool(resp.get("client_no_context_takeover"))}
    if ext == BZIP2:
        return {"s_lvl": resp.get("server_max_compress_level") or 9, "c_lvl": resp.get("client_max_compress_level") or 9}
    return {}


# -------------------------------------------------------------------------------------------------
# deflate data path
# -------------------------------------------------------------------------------------------------

class RefInflateError(Exception):
    def __init__(self, clause, text):
        Exception.__init__(self, "%s: %s" % (clause, text))
        self.clause = clause


class RefInflater:
    """RFC 7692 7.2.2 for one direction with the negotiated parameters of that direction."""

    def __init__(self, wbits=15, no_context_takeover=False, chunk=61):
        # zlib can INFLATE a raw stream with an 8 bit window (it only cannot deflate with one)
        self.wbits, self.nct, self.chunk = max(8, wbits), no_context_takeover, chunk
        self.d = None
        self.saw_bfinal = 0

    def _new(self):
        return zlib.decompressobj(-self.wbits)

    def inflate(self, payload):
        if self.d is None or self.nct:
            self.d = self._new()
        data = bytes(payload) + TAIL
        out = []
        i = 0
        try:
            while i < len(data):
                piece = data[i:i + self.chunk]
                i += len(piece)
                out.append(self.d.decompress(piece))
                while self.d.eof:
                    # a block with BFINAL=1 (7.2.3.4): DEFLATE data continues with the next block
                    self.saw_bfinal += 1
                    rest = self.d.unused_data
                    self.d = self._new()
                    if not rest:
                        break
                    out.append(self.d.decompress(rest))
        except zlib.error as e:
            self.d = None
            raise RefInflateError("not-inflatable", str(e))
        # payload + 00 00 ff ff must end on a block boundary: a final empty fixed-Huffman block ends the stream there
        probe = self.d.copy()
        try:
            probe.decompress(b"\x03\x00")
            at_boundary = probe.eof
        except zlib.error:
            at_boundary = False
        if not at_boundary:
            self.d = None
            raise RefInflateError("not-at-block-boundary", "payload + 00 00 ff ff does not end on a DEFLATE block boundary")
        return b"".join(out)


class RefDeflater:
    """RFC 7692 7.2.1 for one direction.  ``mode``: sync (7.2.3.1/.2) | stored (7.2.3.3) | bfinal (7.2.3.4) |
    split (7.2.3.5: two blocks, an embedded 00 00 ff ff) | fullflush"""

    def __init__(self, wbits=15, no_context_takeover=False, mode="sync", level=-1, mem=8):
        self.wbits, self.nct, self.mode, self.level, self.mem = max(9, wbits), no_context_takeover, mode, level, mem
        self.c = None

    def _new(self):
        return zlib.compressobj(0 if self.mode == "stored" else self.level, zlib.DEFLATED, -self.wbits, self.mem)

    def deflate(self, data):
        if self.mode == "bfinal":
            c = self._new()
            return c.compress(data) + c.flush(zlib.Z_FINISH) + b"\x00"
        if self.c is None or self.nct:
            self.c = self._new()
        c = self.c
        if self.mode == "split" and len(data) > 1:
            h = len(data) // 2
            out = c.compress(data[:h]) + c.flush(zlib.Z_SYNC_FLUSH) + c.compress(data[h:]) + c.flush(zlib.Z_SYNC_FLUSH)
        elif self.mode == "fullflush":
            out = c.compress(data) + c.flush(zlib.Z_FULL_FLUSH)
        else:
            out = c.compress(data) + c.flush(zlib.Z_SYNC_FLUSH)
        if not out.endswith(TAIL):
            out += b"\x00" + TAIL          # 7.2.1 step 2 (octet aligned after a flush)
        return out[:-4]



# -------------------------------------------------------------------------------------------------
# a compressor that honours ANY window size (zlib cannot deflate with a 2^8 window and silently uses 2^9)
# -------------------------------------------------------------------------------------------------

_LEN_BASE = [3, 4, 5, 6, 7, 8, 9, 10, 11, 13, 15, 17, 19, 23, 27, 31, 35, 43, 51, 59, 67, 83, 99, 115, 131, 163, 195, 227, 258]
_LEN_EXTRA = [0] * 8 + [1] * 4 + [2] * 4 + [3] * 4 + [4] * 4 + [5] * 4 + [0]
_DIST_BASE = [1, 2, 3, 4, 5, 7, 9, 13, 17, 25, 33, 49, 65, 97, 129, 193, 257, 385, 513, 769, 1025, 1537, 2049, 3073, 4097, 6145,
              8193, 12289, 16385, 24577]
_DIST_EXTRA = [0, 0, 0, 0, 1, 1, 2, 2, 3, 3, 4, 4, 5, 5, 6, 6, 7, 7, 8, 8, 9, 9, 10, 10, 11, 11, 12, 12, 13, 13]


class _Bits:
    def __init__(self):
        self.out, self.acc, self.n = bytearray(), 0, 0

    def put(self, value, nbits):            # LSB first (extra bits, block headers)
        self.acc |= value << self.n
        self.n += nbits
        while self.n >= 8:
            self.out.append(self.acc & 0xFF)
            self.acc >>= 8
            self.n -= 8

    def huff(self, code, nbits):            # Huffman codes are packed starting with their most significant bit
        for i in range(nbits - 1, -1, -1):
            self.put((code >> i) & 1, 1)

    def align(self):
        if self.n:
            self.put(0, 8 - self.n)


def _fixed_litlen(b, sym):
    if sym <= 143:
        b.huff(0x30 + sym, 8)
    elif sym <= 255:
        b.huff(0x190 + sym - 144, 9)
    elif sym <= 279:
        b.huff(sym - 256, 7)
    else:
        b.huff(0xC0 + sym - 280, 8)


class SmallWindowDeflater:
    """RFC 1951 fixed-Huffman LZ77 compressor written out in Python whose back-references never reach further than
    2^wbits octets (RFC 7692 7.2.1 with the negotiated window honoured exactly, also for 2^8).  Context takeover:
    the last 2^wbits octets of the earlier messages stay referable."""

    def __init__(self, wbits=8, no_context_takeover=False):
        self.window, self.nct = 1 << wbits, no_context_takeover
        self.hist = b""
        self.max_distance_used = 0

    def deflate(self, data):
        if self.nct:
            self.hist = b""
        buf = self.hist + bytes(data)
        start = len(self.hist)
        index = {}
        for i in range(max(0, start - self.window), start):
            index.setdefault(buf[i:i + 3], []).append(i)
        b = _Bits()
        b.put(0, 1)              # BFINAL = 0
        b.put(1, 2)              # BTYPE = 01 fixed Huffman
        i, n = start, len(buf)
        while i < n:
            best_len, best_dist = 0, 0
            if i + 3 <= n:
                for j in reversed(index.get(buf[i:i + 3], ())):
                    dist = i - j
                    if dist > self.window:
                        break
                    m = 3
                    while m < 258 and i + m < n and buf[j + m] == buf[i + m]:
                        m += 1
                    if m > best_len:
                        best_len, best_dist = m, dist
                        if m == 258:
                            break
            if best_len >= 3:
                k = max(x for x in range(29) if _LEN_BASE[x] <= best_len)
                _fixed_litlen(b, 257 + k)
                b.put(best_len - _LEN_BASE[k], _LEN_EXTRA[k])
                dk = max(x for x in range(30) if _DIST_BASE[x] <= best_dist)
                b.huff(dk, 5)
                b.put(best_dist - _DIST_BASE[dk], _DIST_EXTRA[dk])
                self.max_distance_used = max(self.max_distance_used, best_dist)
                step = best_len
            else:
                _fixed_litlen(b, buf[i])
                step = 1
            for q in range(i, i + step):
                if q + 3 <= n:
                    index.setdefault(buf[q:q + 3], []).append(q)
            i += step
        _fixed_litlen(b, 256)    # end of block
        b.put(0, 3)              # empty stored block (BFINAL 0, BTYPE 00): its 00 00 ff ff is what 7.2.1 strips
        b.align()
        self.hist = buf[-self.window:]
        return bytes(b.out)


def selfcheck():
    """Anchor on the octet sequences printed in RFC 7692 7.2.3.x."""
    inf = RefInflater(15, False)
    assert inf.inflate(bytes.fromhex("f248cdc9c90700")) == b"Hello"            # 7.2.3.1
    assert inf.inflate(bytes.fromhex("f200110000")) == b"Hello"                # 7.2.3.2 shares the window
    assert RefInflater().inflate(bytes.fromhex("000500faff48656c6c6f00")) == b"Hello"       # 7.2.3.3
    i4 = RefInflater()
    assert i4.inflate(bytes.fromhex("f348cdc9c9070000")) == b"Hello" and i4.saw_bfinal     # 7.2.3.4
    assert i4.inflate(bytes.fromhex("f348cdc9c9070000")) == b"Hello"
    assert RefInflater().inflate(bytes.fromhex("f248050000" "00ffffcac9c90700")) == b"Hello"  # 7.2.3.5
    try:
        RefInflater(15, True).inflate(bytes.fromhex("f200110000"))
        raise AssertionError("back-reference without context accepted")
    except RefInflateError:
        pass
    try:
        RefInflater().inflate(bytes.fromhex("f248cdc9c90700") + TAIL)              # tail not stripped
        raise AssertionError("unstripped tail accepted")
    except RefInflateError as e:
        assert e.clause == "not-at-block-boundary"
    d = RefDeflater(15, False)
    assert d.deflate(b"Hello") == bytes.fromhex("f248cdc9c90700")
    assert len(d.deflate(b"Hello")) <= 5
    for mode in ("sync", "stored", "bfinal", "split", "fullflush"):
        for nct in (False, True):
            for wb in (9, 12, 15):
                de, inf = RefDeflater(wb, nct, mode), RefInflater(wb, nct)
                for m in (b"", b"a", b"Hello" * 50, b"Hello" * 50, b"", b"", bytes(range(256)) * 9):
                    assert inf.inflate(de.deflate(m)) == m, (mode, nct, wb, m[:10])
    # window discipline: a compressor with a bigger window than the inflater's is detected
    import random
    rng = random.Random(7)
    blk = rng.randbytes(4196)
    p = RefDeflater(15).deflate(blk + blk)
    assert RefInflater(13).inflate(p) == blk + blk
    try:
        RefInflater(12).inflate(p)
        raise AssertionError("distance beyond the window accepted")
    except RefInflateError:
        pass
    # the small-window compressor: honest about the window (also 2^8), readable by zlib's inflater of the same size
    for wb in (8, 9, 12):
        for nct in (False, True):
            de, inf = SmallWindowDeflater(wb, nct), RefInflater(wb, nct, chunk=7)
            a, b2 = rng.randbytes(200), rng.randbytes((1 << wb) + 40)
            for m in (b"", b"a", a + a, b2 + b2, b"Hello" * 50, a, b2[:100] + a[:100], bytes(range(256)) * 3, a):
                assert inf.inflate(de.deflate(m)) == m, (wb, nct, len(m))
            assert 150 <= de.max_distance_used <= (1 << wb), (wb, de.max_distance_used)
    p = RefDeflater(10).deflate(rng.randbytes(300) * 2)       # a 2^10 zlib window reaches back 300 octets (2^9: at most 250) ...
    try:
        RefInflater(8, chunk=7).inflate(p)                     # ... which a 2^8 window cannot serve
        raise AssertionError("distance beyond a 2^8 window accepted")
    except RefInflateError:
        pass
    # header grammar / negotiation judge
    assert parse_extensions('permessage-deflate; client_max_window_bits; server_max_window_bits="10", foo') == [
        (DEFLATE, [("client_max_window_bits", None), ("server_max_window_bits", "10")]), ("foo", [])]
    j = judge_negotiation("permessage-deflate; client_max_window_bits", "permessage-deflate; client_max_window_bits=10")
    assert j["ok"] and wire_params(j["ext"], j["resp"])["c_wb"] == 10
    assert not judge_negotiation("permessage-deflate", "permessage-deflate; client_max_window_bits=10")["ok"]
    assert not judge_negotiation("permessage-deflate; server_max_window_bits=10", "permessage-deflate; server_max_window_bits=11")["ok"]
    assert not judge_negotiation("permessage-deflate; server_max_window_bits=10", "permessage-deflate")["ok"]
    assert judge_negotiation("permessage-deflate; server_max_window_bits=10", "permessage-deflate; server_max_window_bits=9")["ok"]
    assert not judge_negotiation("permessage-deflate; server_no_context_takeover", "permessage-deflate")["ok"]
    assert judge_negotiation("permessage-deflate", "permessage-deflate; server_no_context_takeover; client_no_context_takeover; server_max_window_bits=12")["ok"]
    assert not judge_negotiation("permessage-deflate", "permessage-deflate, permessage-deflate")["ok"]
    assert not judge_negotiation("permessage-deflate", "permessage-deflate; server_max_window_bits=16")["ok"]
    assert not judge_negotiation("permessage-deflate", "permessage-deflate; server_no_context_takeover; server_no_context_takeover")["ok"]
    assert not judge_negotiation("permessage-deflate", "permessage-bzip2")["ok"]
    assert judge_negotiation("permessage-deflate; server_max_window_bits=16, permessage-deflate", "permessage-deflate")["ok"]
    assert not judge_negotiation("permessage-deflate; server_max_window_bits=16", "permessage-deflate; server_max_window_bits=15")["ok"]
    return True
