"""C20 helper: an ORIGINATOR and a RESPONDER session (real ApplicationSession behind a real client
transport each, via vf.wamp_harness.RouterPeer) joined by a forwarding stub that plays the router.

Nothing in here uses autobahn's message classes or its KeyRing for a verdict: the stub moves plain
WAMP lists, the keyring rule is re-stated in ``ref_key`` and payloads are opened with PyNaCl
directly (``open_box``) using key material the harness generated itself.
"""

import hashlib
import json
import logging

import txaio
from nacl.encoding import Base64Encoder
from nacl.public import Box, PrivateKey

from .wamp_harness import Outcome, RouterPeer, _json_default, _json_unbin
from .world import make_world

logging.getLogger().addHandler(logging.NullHandler())   # keep stdlib "last resort" handler quiet (aio)

PUBLISH, EVENT, CALL, RESULT, INVOCATION, YIELD, ERROR = 16, 36, 48, 50, 68, 70, 8
SUBSCRIBE, SUBSCRIBED, REGISTER, REGISTERED = 32, 33, 64, 65

NONCE = 24
MAC = 16


# ---------------------------------------------------------------------------------------------
# key material + reference keyring rule
# ---------------------------------------------------------------------------------------------

def keypair(idx):
    """Deterministic Curve25519 key pair number ``idx`` -> (PrivateKey, priv_b64, pub_b64)."""
    raw = hashlib.blake2b(b"c20-key-%d" % idx, digest_size=32).digest()
    k = PrivateKey(raw)
    return k, k.encode(Base64Encoder).decode("ascii"), k.public_key.encode(Base64Encoder).decode("ascii")


def _idx(keyid):
    """keyid: int k -> key pairs (2k, 2k+1); or [originator pair index, responder pair index]."""
    if isinstance(keyid, int):
        return 2 * keyid, 2 * keyid + 1
    return int(keyid[0]), int(keyid[1])


def same_key(k1, k2):
    """Do two key ids denote the same NaCl box?  (Box(a_priv, b_pub) == Box(b_priv, a_pub): unordered pair.)"""
    return k1 is not None and k2 is not None and set(_idx(k1)) == set(_idx(k2))


def wamp_key(keyid, view):
    """autobahn ``Key`` number ``keyid`` as seen by a peer holding ``view`` of it:
    'full' (both private keys), 'orig' (originator_priv + responder_pub), 'resp' (the matching other half)."""
    from autobahn.wamp.cryptobox import Key

    oi, ri = _idx(keyid)
    _, opriv, opub = keypair(oi)
    _, rpriv, rpub = keypair(ri)
    if view == "full":
        return Key(originator_priv=opriv, responder_priv=rpriv)
    if view == "orig":
        return Key(originator_priv=opriv, responder_pub=rpub)
    if view == "resp":
        return Key(responder_priv=rpriv, originator_pub=opub)
    raise ValueError(view)


def harness_box(keyid):
    """The NaCl box shared by originator and responder of key ``keyid`` (DH is symmetric)."""
    oi, ri = _idx(keyid)
    o, _, _ = keypair(oi)
    r, _, _ = keypair(ri)
    return Box(r, o.public_key)


def make_keyring(side):
    """side = {"view": .., "default": keyid|None, "prefixes": {prefix: keyid}} or None (no codec)."""
    if side is None:
        return None
    from autobahn.wamp.cryptobox import KeyRing

    kr = KeyRing(wamp_key(side["default"], side["view"]) if side.get("default") is not None else None)
    for p, kid in (side.get("prefixes") or {}).items():
        kr.set_key(p, wamp_key(kid, side["view"]))
    return kr


def ref_key(side, uri):
    """Documented keyring rule: the key registered for the longest prefix of ``uri``, else the default
    key, else none."""
    if side is None:
        return None
    best = None
    for p, kid in (side.get("prefixes") or {}).items():
        if uri.startswith(p) and (best is None or len(p) > len(best[0])):
            best = (p, kid)
    if best is not None:
        return best[1]
    return side.get("default")


def ref_has_box(side, is_originating, uri):
    kid = ref_key(side, uri)
    if kid is None:
        return None
    v = side["view"]
    if v == "full" or (v == "orig" and is_originating) or (v == "resp" and not is_originating):
        return kid
    return None


def seal(keyid, inner_obj, nonce):
    """Harness-made cryptobox payload (used to forge messages)."""
    data = json.dumps(inner_obj, separators=(",", ":"), ensure_ascii=False, default=_json_default).encode("utf8")
    return bytes(harness_box(keyid).encrypt(data, nonce))


def open_box(keyid, payload):
    """-> inner object, or raises."""
    clear = harness_box(keyid).decrypt(bytes(payload))
    return _json_unbin(json.loads(clear.decode("utf8")))


# ---------------------------------------------------------------------------------------------
# message anatomy (plain lists)
# ---------------------------------------------------------------------------------------------

def parts_of(msg):
    """-> dict(enc=payload-transparency fields, uri=envelope uri or None, tail=[payload] | [args[, kwargs]])"""
    t = msg[0]
    if t in (PUBLISH, CALL):
        opts, uri, tail = msg[2], msg[3], msg[4:]
    elif t == YIELD:
        opts, uri, tail = msg[2], None, msg[3:]
    elif t == ERROR:
        opts, uri, tail = msg[3], msg[4], msg[5:]
    else:
        raise ValueError("no payload parts in %r" % (msg[:2],))
    enc = {k: v for k, v in opts.items() if k.startswith("enc_")}
    return {"enc": enc, "uri": uri, "tail": list(tail), "opts": dict(opts)}


def is_encrypted(parts):
    return bool(parts["enc"].get("enc_algo")) and len(parts["tail"]) == 1 and isinstance(parts["tail"][0], (bytes, bytearray))


def clear_payload(parts):
    """(args, kwargs) of a clear message."""
    t = parts["tail"]
    return (list(t[0]) if len(t) > 0 and t[0] is not None else []), (dict(t[1]) if len(t) > 1 else {})


# ---------------------------------------------------------------------------------------------

def session_class():
    if txaio.using_twisted:
        from autobahn.twisted.wamp import ApplicationSession
    else:
        from autobahn.asyncio.wamp import ApplicationSession

    class Sess(ApplicationSession):
        def __init__(self, *a, **k):
            ApplicationSession.__init__(self, *a, **k)
            self.user_errors = []
            self.leaves = []            # reasons given to onLeave
            self.joins = []             # session ids given to onJoin
            self.c20_onjoin_keyring = None   # codec_mode "onjoin": a callable building the key ring, run in every onJoin

        def onUserError(self, fail, msg):
            self.user_errors.append(str(msg)[:200])

        def onJoin(self, details):
            self.joins.append(details.session)
            if self.c20_onjoin_keyring is not None:
                self.set_payload_codec(self.c20_onjoin_keyring())

        def onLeave(self, details):
            # an application that keeps the transport for joining again (the default implementation disconnects)
            self.leaves.append(details.reason)

    return Sess


class Pair:
    """Originator A and responder B on one world; the harness forwards between them."""

    def __init__(self, transport, serializer, side_a, side_b, codec_mode="ctor"):
        """codec_mode "ctor": the key ring is set ONCE on the session object, before its first join();
        "onjoin": it is set from onJoin(), i.e. again for every session joined on the object."""
        self.transport = transport
        self.serializer = serializer
        self.side_a = side_a
        self.side_b = side_b
        self.codec_mode = codec_mode
        self.world = make_world()
        cls = session_class()

        def factory(side):
            def make():
                s = cls()
                if side is not None:
                    if codec_mode == "onjoin":
                        s.c20_onjoin_keyring = lambda: make_keyring(side)
                    else:
                        s.set_payload_codec(make_keyring(side))
                return s
            return make

        self.A = RouterPeer(factory(side_a), transport=transport, serializer=serializer, world=self.world)
        self.B = RouterPeer(factory(side_b), transport=transport, serializer=serializer, world=self.world)
        self.A.join(7001)
        self.B.join(7002)
        self.a = self.A.session
        self.b = self.B.session
        self.session_no = {"A": 1, "B": 1}
        self.subs = {}          # topic -> subscription id
        self.defined = {}       # error URI -> exception class define()d at A
        self.sub_handlers = {}  # topic -> number of handlers attached to that subscription id
        self.regs = {}          # procedure -> registration id
        self.events = []        # (subscribed topic, details.topic, args, kwargs, details.enc_algo, handler index)
        self.invocations = []   # (registered proc, details.procedure, args, kwargs, details.enc_algo)
        self.progress = []      # (args, kwargs) seen by on_progress at A
        self.script = []        # what the next endpoint invocation does
        self._ids = 100
        self._scan_pos = {"A": 0, "B": 0}
        self.torn = False

    # -- ids ---------------------------------------------------------------------------------
    def next_id(self):
        self._ids += 1
        return self._ids

    # -- health --------------------------------------------------------------------------------
    def alive(self):
        return not (self.A.ep.lost or self.B.ep.lost or self.A.ep.close_requested or self.B.ep.close_requested
                    or self.a._session_id is None or self.b._session_id is None)

    def escaped(self):
        return [repr(e) for e in self.world.escaped] + [repr(e) for e in self.A.ep.escaped + self.B.ep.escaped]

    def teardown(self):
        if self.torn:
            return
        self.torn = True
        for rp in (self.A, self.B):
            try:
                rp.teardown()
            except Exception:
                pass
        self.A.close_world()

    # -- responder set-up ----------------------------------------------------------------------
    def ensure_sub(self, topic, match=None, handlers=1):
        """Subscribe B ``handlers`` times to ``topic`` (``match`` = None | "prefix" | "wildcard"); the stub router answers
        every SUBSCRIBE for the same topic with the SAME subscription id (as a broker does), so the session holds
        ``handlers`` handlers on one subscription id.  Each handler records what it is given (+ its index)."""
        if topic in self.subs:
            return self.subs[topic]
        from autobahn.wamp.types import SubscribeOptions

        def make_handler(hidx):
            def handler(*args, **kwargs):
                d = kwargs.pop("details")
                self.events.append((topic, d.topic, list(args), kwargs, d.enc_algo, hidx))
            return handler

        sid = self.next_id()
        for hidx in range(handlers):
            o = Outcome(self.b.subscribe(make_handler(hidx), topic, options=SubscribeOptions(match=match, details_arg="details")))
            m = [x for x in self.B.recv() if x[0] == SUBSCRIBE]
            self.B.send([SUBSCRIBED, m[-1][1], sid])
            assert o.results and o.results[0][0] == "ok", o.results
        self.subs[topic] = sid
        self.sub_handlers[topic] = handlers
        return sid

    def ensure_reg(self, proc, match=None):
        """Register an endpoint at B under ``proc`` (an exact URI, or a pattern with ``match`` = "prefix" | "wildcard":
        the harness then names the concrete URI in INVOCATION.details.procedure as a dealer does)."""
        if proc in self.regs:
            return self.regs[proc]
        from autobahn.wamp.exception import ApplicationError
        from autobahn.wamp.types import CallResult, RegisterOptions

        def endpoint(*args, **kwargs):
            d = kwargs.pop("details")
            self.invocations.append((proc, d.procedure, list(args), kwargs, d.enc_algo))
            act = self.script.pop(0) if self.script else ("value", None)
            if act[0] == "progress":
                for pa, pk in act[1]:
                    d.progress(*pa, **pk)
                act = act[2]
            if act[0] == "value":
                return act[1]
            if act[0] == "callresult":
                return CallResult(*act[1], **act[2])
            if act[0] == "raise":
                raise ApplicationError(act[1], *act[2], **act[3])
            if act[0] == "raise_rt":
                raise RuntimeError(*act[1])
            raise RuntimeError("bad script %r" % (act,))

        o = Outcome(self.b.register(endpoint, proc, options=RegisterOptions(match=match, details_arg="details")))
        m = [x for x in self.B.recv() if x[0] == REGISTER]
        rid = self.next_id()
        self.B.send([REGISTERED, m[-1][1], rid])
        assert o.results and o.results[0][0] == "ok", o.results
        self.regs[proc] = rid
        return rid

    # -- session life cycle ------------------------------------------------------------------------------
    def rejoin(self, who, initiator):
        """GOODBYE handshake (``initiator`` = "client": session.leave() / "router": the stub sends GOODBYE first) on the
        sessions named by ``who`` ("A" | "B" | "both") with the transport KEPT OPEN, then join() again on the same
        session object (HELLO/WELCOME through the stub).  Subscriptions/registrations of the old session are gone."""
        GOODBYE, HELLO = 6, 1
        for name, rp, s in (("A", self.A, self.a), ("B", self.B, self.b)):
            if who not in (name, "both"):
                continue
            rp.recv()
            if initiator == "client":
                s.leave()
                m = [x for x in rp.recv() if x[0] == GOODBYE]
                assert m, "no GOODBYE written by leave()"
                rp.send([GOODBYE, {}, "wamp.close.goodbye_and_out"])
            else:
                rp.send([GOODBYE, {}, "wamp.close.system_shutdown"])
                m = [x for x in rp.recv() if x[0] == GOODBYE]
                assert m, "no GOODBYE reply written"
            assert s._session_id is None and s.leaves, (s._session_id, s.leaves)
            assert not rp.ep.lost and not rp.ep.close_requested, "transport was not kept open"
            s.join("realm1")
            m = [x for x in rp.recv() if x[0] == HELLO]
            assert m, "no HELLO written by the second join()"
            self.session_no[name] += 1
            rp.welcome(7000 + 10 * self.session_no[name] + (1 if name == "A" else 2))
            assert s._session_id is not None, "second join did not complete"
        if who in ("B", "both"):
            self.subs.clear()
            self.sub_handlers.clear()
            self.regs.clear()

    # -- key ring changes while the sessions are joined ---------------------------------------------------
    def session_of(self, who):
        return self.a if who == "A" else self.b

    def set_key(self, who, view, prefix, keyid):
        """KeyRing.set_key() on the LIVE key ring object the session ``who`` uses as payload codec (what an application
        does that holds on to its key ring, or fetches it with session.get_payload_codec()): ``keyid`` None removes the
        key of ``prefix``; ``prefix`` "" is the default key."""
        kr = self.session_of(who).get_payload_codec()
        assert kr is not None, "no key ring on session %s" % who
        kr.set_key(prefix, wamp_key(keyid, view) if keyid is not None else None)

    def set_codec(self, who, side):
        """session.set_payload_codec() with a NEW key ring built from ``side`` (None: payload codec removed)."""
        self.session_of(who).set_payload_codec(make_keyring(side))

    # -- caller-side exception classes ---------------------------------------------------------------
    def define_errors(self, any_uris=(), fixed_uris=()):
        """session.define() exception classes at the CALLER (A) for error URIs: ``any_uris`` -> a class constructible
        from any args/kwargs; ``fixed_uris`` -> a class with the fixed signature (item, qty=0).  Instances record the
        URI they are mapped to and what they were constructed from (c20_uri / c20_args / c20_kwargs)."""
        class AnyArgsError(Exception):
            def __init__(self, *args, **kwargs):
                Exception.__init__(self, *args)
                self.c20_args = list(args)
                self.c20_kwargs = dict(kwargs)

        class FixedArityError(Exception):
            def __init__(self, item, qty=0):
                Exception.__init__(self, item)
                self.c20_args = [item]
                self.c20_kwargs = {"qty": qty}

        for base, uris in ((AnyArgsError, any_uris), (FixedArityError, fixed_uris)):
            for u in uris:
                cls = type(base.__name__ + "_" + u.rsplit(".", 1)[-1], (base,), {"c20_uri": u})
                self.a.define(cls, u)
                self.defined[u] = cls

    # -- originator actions -----------------------------------------------------------------------
    def publish(self, topic, args, kwargs):
        """-> PUBLISH list as seen on the wire (or raises what publish() raises)."""
        self.a.publish(topic, *args, **kwargs)
        m = [x for x in self.A.recv() if x[0] == PUBLISH]
        return m[-1] if m else None

    def call(self, proc, args, kwargs, progressive=False):
        """-> (Outcome, CALL list as seen on the wire)"""
        kw = dict(kwargs)
        if progressive:
            from autobahn.wamp.types import CallOptions

            def on_progress(*a, **k):
                self.progress.append((list(a), k))
            kw["options"] = CallOptions(on_progress=on_progress)
        o = Outcome(self.a.call(proc, *args, **kw))
        m = [x for x in self.A.recv() if x[0] == CALL]
        return o, (m[-1] if m else None)

    # -- forwarding ---------------------------------------------------------------------------------
    def send_event(self, sub_topic, parts, extra_details=None):
        d = dict(parts["enc"])
        d.update(extra_details or {})
        n0 = len(self.events)
        self.B.send([EVENT, self.subs[sub_topic], self.next_id(), d] + list(parts["tail"]))
        return self.events[n0:]

    def send_invocation(self, reg_proc, parts, extra_details=None):
        """-> (invocation request id, endpoint invocations caused, messages B sent in reply)"""
        d = dict(parts["enc"])
        if parts["opts"].get("receive_progress"):
            d["receive_progress"] = True
        d.update(extra_details or {})
        n0 = len(self.invocations)
        rid = self.next_id()
        self.B.send([INVOCATION, rid, self.regs[reg_proc], d] + list(parts["tail"]))
        replies = [x for x in self.B.recv() if x[0] in (YIELD, ERROR)]
        return rid, self.invocations[n0:], replies

    def send_result(self, call_req, parts, progress=False):
        d = dict(parts["enc"])
        if progress:
            d["progress"] = True
        self.A.send([RESULT, call_req, d] + list(parts["tail"]))

    def send_error(self, call_req, parts, uri=None):
        self.A.send([ERROR, CALL, call_req, dict(parts["enc"]), uri or parts["uri"]] + list(parts["tail"]))

    def forward_reply(self, call_req, reply, mutate=None):
        """Forward B's YIELD/ERROR for an invocation to the caller (optionally altered)."""
        p = parts_of(reply)
        if mutate:
            p = mutate(p)
        if reply[0] == YIELD:
            self.send_result(call_req, p, progress=bool(reply[2].get("progress")))
        else:
            self.send_error(call_req, p)
        return p

    # -- wire observation ----------------------------------------------------------------------------------
    def new_wire_octets(self):
        """Serialized WAMP messages (unmasked WebSocket payloads / RawSocket frames) written by both
        transports since the last call: [(side, bytes)]"""
        out = []
        for name, rp in (("A", self.A), ("B", self.B)):
            rp._pull()
            frames = rp.raw_frames
            for f in frames[self._scan_pos[name]:]:
                out.append((name, bytes(f[1])))
            self._scan_pos[name] = len(frames)
        return out
