"""Mixed-framework pairs for C13: txaio is process-global, so a Twisted endpoint and an asyncio endpoint cannot
live in one process.  This module is both

* the CHILD (``python -m vf.c13_remote <fw>``): one library endpoint of framework <fw> with a recording stub
  session on a fake transport of its own vf.world, driven by JSON lines on stdin (open / feed N octets / send a
  message / close / deliver connection-lost / advance the clock); every answer carries the octets the endpoint
  wrote and what its session saw - so the PARENT owns segmentation and ordering (lockstep relay), and
* the parent-side handle ``Remote``.
"""

import json
import os
import subprocess
import sys


# ---------------------------------------------------------------------------------------------
# parent side
# ---------------------------------------------------------------------------------------------

class Remote:
    def __init__(self, fw):
        from . import bootstrap

        env = dict(os.environ)
        env["PYTHONPATH"] = bootstrap.REPO_SRC + os.pathsep + bootstrap.VERIF_ROOT
        self.fw = fw
        self.p = subprocess.Popen([sys.executable, "-X", "faulthandler", "-m", "vf.c13_remote", fw], cwd=bootstrap.VERIF_ROOT, env=env,
                                  stdin=subprocess.PIPE, stdout=subprocess.PIPE, stderr=subprocess.DEVNULL)
        hello = self._read()
        if not hello.get("ready"):
            raise RuntimeError("remote worker did not start: %r" % hello)
        self.info = hello

    def _read(self):
        line = self.p.stdout.readline()
        if not line:
            raise RuntimeError("remote worker (%s) died (rc=%s)" % (self.fw, self.p.poll()))
        return json.loads(line)

    def call(self, **cmd):
        self.p.stdin.write((json.dumps(cmd) + "\n").encode("utf8"))
        self.p.stdin.flush()
        res = self._read()
        if res.get("harness_error"):
            raise RuntimeError("remote worker error: %s" % res["harness_error"])
        return res

    def close(self):
        try:
            self.p.stdin.write(b'{"op": "quit"}\n')
            self.p.stdin.flush()
            self.p.wait(timeout=20)
        except Exception:
            self.p.kill()


# ---------------------------------------------------------------------------------------------
# child side
# ---------------------------------------------------------------------------------------------

def _child(fw):
    import logging
    import traceback

    from . import bootstrap
    bootstrap.assert_repo()
    bootstrap.use_framework(fw)
    logging.disable(logging.CRITICAL)
    out = sys.stdout.buffer
    sys.stdout = sys.stderr            # nothing but protocol answers on the pipe
    from . import c13_engine as E
    import autobahn

    st = {"env": None, "ep": None, "book": None, "seen": 0}

    def state(extra=None):
        ep, book = st["ep"], st["book"]
        sessions = book.sessions
        msgs = []
        for s in sessions:
            msgs += s.msgs
        new = msgs[st["seen"]:]
        st["seen"] = len(msgs)
        d = {"out": ep.take_output().hex(), "close": ep.close_requested, "lost": ep.lost,
             "sessions": len(sessions), "opens": [s.opens for s in sessions], "closes": [len(s.closes) for s in sessions],
             "msgs": [E.describe_received(m) for m in new],
             "escaped": [type(e.exc).__name__ for e in ep.escaped] + [type(e.exc).__name__ for n, e in st["env"].world.escaped if n in ("timer", "loop")],
             "fail_codes": list(ep.proto.__dict__.get("vf_fail", []))}
        d.update(extra or {})
        return d

    def handle(cmd):
        op = cmd["op"]
        if op == "open":
            if st["env"] is not None:
                st["env"].close()
            env = st["env"] = E.Env()
            script = E.SessionScript(raise_on_message=cmd.get("raise_on_message"), raise_exc=cmd.get("raise_exc", "runtime"))
            book = st["book"] = E.Book(script)
            st["seen"] = 0
            tr, role, sers = cmd["tr"], cmd["role"], cmd["sers"]
            if tr == "rs":
                f = env.rs_server_factory(book, sers, cmd.get("max_size")) if role == "server" else env.rs_client_factory(book, sers[0], cmd.get("max_size"))
            else:
                from . import c13_scen as S
                f = env.ws_server_factory(book, sers, cmd.get("options")) if role == "server" else env.ws_client_factory(book, sers, cmd.get("options"))
                S.ws_rec_protocol(f)
            st["ep"] = E.fast_attach(env.world, f, role)
            env.world.settle()
            return state()
        env, ep, book = st["env"], st["ep"], st["book"]
        if op == "feed":
            ep.feed(bytes.fromhex(cmd["data"]))
            env.world.settle()
            return state()
        if op == "feed_burst":
            E.feed_burst(ep, [bytes.fromhex(x) for x in cmd["data"]])
            env.world.settle()
            return state()
        if op == "send":
            err = None
            try:
                book.last.transport.send(E.build_message(cmd["spec"]))
            except Exception as e:
                err = "%s: %s" % (type(e).__name__, str(e)[:200])
            env.world.settle()
            return state({"error": err})
        if op == "close":
            err = None
            try:
                book.last.transport.close()
            except Exception as e:
                err = "%s: %s" % (type(e).__name__, str(e)[:200])
            env.world.settle()
            return state({"error": err})
        if op == "finish":
            ep.finish_close()
            env.world.settle()
            return state()
        if op == "peer_close":
            ep.peer_close(clean=cmd.get("clean", True))
            env.world.settle()
            return state()
        if op == "advance":
            env.world.advance(cmd["dt"])
            return state()
        if op == "timer":
            fired = env.world.fire_next_timer()
            return state({"fired": fired})
        raise ValueError(op)

    out.write((json.dumps({"ready": True, "fw": fw, "autobahn": os.path.abspath(autobahn.__file__)}) + "\n").encode("utf8"))
    out.flush()
    for line in sys.stdin.buffer:
        cmd = json.loads(line)
        if cmd.get("op") == "quit":
            break
        try:
            res = handle(cmd)
        except Exception:
            res = {"harness_error": traceback.format_exc()[-1500:]}
        out.write((json.dumps(res, default=repr) + "\n").encode("utf8"))
        out.flush()
    if st["env"] is not None:
        st["env"].close()


if __name__ == "__main__":
    _child(sys.argv[1])
