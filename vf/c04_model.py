"""C04 - sequential request/reply model of a WAMP client session, case generator and executor.

Everything the verdict needs is written here from the WAMP specification (message layouts,
option names and defaults, reply <-> request correlation by (request type, request id)) and
from the documented return-value rules of ``ISession.call`` - nothing is imported from
``autobahn.wamp.message`` / ``types.message_attr``.  The code under test is driven through
``vf.wamp_harness.RouterPeer`` (real session + real client transport, scripted router).

A *case* is a JSON-able dict ``{"cfg": {...}, "steps": [...]}``; ``execute(case, R)`` runs it
against a fresh session and reports to the Recorder.  Steps:

  call / publish / subscribe / register        API request (``n`` = model label of the request)
  unsubscribe / unregister                     API request on an established subscription/registration
  sendfail                                     API request whose payload cannot be serialized
  reply  (mode ok | error | progress)          router reply to the pending request ``to``
  event / invoke                               EVENT / INVOCATION for a live subscription / registration
  violate (unknown-id | wrong-type | duplicate) a reply that matches no pending request (last step)

Shared subscription ids: a subscribe step whose SUBSCRIBED reply carries the id of a subscription that already has live
handlers attaches one more handler to it (what a broker answers for the same topic/match within one session).  An EVENT for
that id reaches every attached handler; an unsubscribe of one handler while others are attached is LOCAL: no UNSUBSCRIBE
(and therefore no request id) may be spent, the returned future completes exactly once, successfully; only the last
handler's unsubscribe sends UNSUBSCRIBE - with the next sequential id.

A reply / event / invoke step may carry ``"then": <request step>``: that request is issued from INSIDE the callback the
router message triggers (completion callback of the answered request, its on_progress handler, the event handler, the
endpoint) - i.e. while the session is still dispatching the message; ``"cut": f`` delivers a reply in two reads.

Re-entrant requests: a request step may carry ``"inside": [<reply/event/invoke steps>]``: those router messages are handed to
``session.onMessage()`` from INSIDE the transport's ``send()`` of that request (an in-process router reacting synchronously), and
their handlers (``then``) issue further requests while the outer API call has not returned yet.  Nothing runs the event loop /
clock inside ``send()``; a terminal reply to ANOTHER request (whose completion callback would only run from the loop on asyncio)
is delivered inside ``send()`` on Twisted and right after the API call returned on asyncio.

Mapped error classes: ``cfg["defs"] = [{"uri", "cls", "how"}]`` registers exception classes with ``session.define()``; two URIs are
mapped by the library itself (DEFAULT_MAPPED).  An ERROR reply bearing a mapped URI must still complete its request exactly once
with an error: an instance of the mapped class built from the reply's payload when the constructor accepts it, else (or anyway)
an ApplicationError carrying the reply's URI/args/kwargs.
"""

import copy
import inspect

import txaio

from .wamp_harness import Outcome, RouterPeer, is_future

MAXID = 2 ** 53

REQ_CODE = {"call": 48, "publish": 16, "subscribe": 32, "unsubscribe": 34, "register": 64, "unregister": 66}
OK_CODE = {"call": 50, "publish": 17, "subscribe": 33, "unsubscribe": 35, "register": 65, "unregister": 67}
OK_NAME = {"call": "result", "publish": "published", "subscribe": "subscribed", "unsubscribe": "unsubscribed",
           "register": "registered", "unregister": "unregistered"}
ALL_REQ_CODES = set(REQ_CODE.values())
KINDS = ["call", "publish", "subscribe", "unsubscribe", "register", "unregister"]
TABLE = {"call": "_call_reqs", "publish": "_publish_reqs", "subscribe": "_subscribe_reqs",
         "unsubscribe": "_unsubscribe_reqs", "register": "_register_reqs", "unregister": "_unregister_reqs"}

# WAMP (basic + advanced profile) option defaults: an absent key is equivalent to its default
OPT_DEFAULTS = {
    "call": {"receive_progress": False},
    "publish": {"acknowledge": False, "exclude_me": True, "retain": False},
    "subscribe": {"match": "exact", "get_retained": False},
    "register": {"match": "exact", "invoke": "single", "force_reregister": False},
}
PUBLISH_LIST_OPTS = ("exclude", "exclude_authid", "exclude_authrole", "eligible", "eligible_authid", "eligible_authrole")
PUBLISH_FLAG_OPTS = ("acknowledge", "exclude_me", "retain")
# options that travel under their own name and unchanged (documented by the option classes: application transaction hash,
# router-to-router forwarding chain, disclosed caller identity of a forwarded call)
PUBLISH_PASS_OPTS = ("transaction_hash", "forward_for")
CALL_PASS_OPTS = ("transaction_hash", "forward_for", "caller", "caller_authid", "caller_authrole")

# error URIs the library maps to an exception class without any define() (BaseSession.__init__): plain Exception subclasses
DEFAULT_MAPPED = {"wamp.error.invalid_payload": ("autobahn.wamp.exception", "SerializationError"),
                  "wamp.error.payload_size_exceeded": ("autobahn.exception", "PayloadExceededError")}

# constructor signatures of the exception classes a case may define() - reference functions: the oracle binds the reply's payload
# to THESE (never to the class under construction by the library) to decide "does the payload fit" and what the instance must hold
ERROR_SIGS = {
    "fixed2": lambda balance, required: None,
    "kwonly": lambda *, code, reason="unknown": None,
    "opt": lambda msg=None, code=0: None,
    "any": lambda *a, **k: None,
    "plain": lambda *a: None,              # class without a constructor of its own: positional payload only
    "raising": None,                       # constructor raises whatever it is given
}
ERROR_CLASS_NAMES = sorted(ERROR_SIGS)


def error_bind(cname, args, kwargs):
    """None when the payload does not fit the constructor of class ``cname``, else {parameter: value} as the instance records it."""
    sig = ERROR_SIGS[cname]
    if sig is None:
        return None
    try:
        b = inspect.signature(sig).bind(*args, **kwargs)
    except TypeError:
        return None
    b.apply_defaults()
    return {k: (list(v) if isinstance(v, tuple) else v) for k, v in b.arguments.items()}


def make_error_class(cname, uri, how):
    """A fresh exception class per session (the decorator marks the class object itself)."""
    from autobahn import wamp
    if cname == "fixed2":
        class E(Exception):
            def __init__(self, balance, required):
                Exception.__init__(self, balance, required)
                self.c04 = {"balance": balance, "required": required}
    elif cname == "kwonly":
        class E(Exception):
            def __init__(self, *, code, reason="unknown"):
                Exception.__init__(self, code, reason)
                self.c04 = {"code": code, "reason": reason}
    elif cname == "opt":
        class E(Exception):
            def __init__(self, msg=None, code=0):
                Exception.__init__(self, msg, code)
                self.c04 = {"msg": msg, "code": code}
    elif cname == "any":
        class E(Exception):
            def __init__(self, *a, **k):
                Exception.__init__(self, *a)
                self.c04 = {"a": list(a), "k": dict(k)}
    elif cname == "plain":
        class E(Exception):
            pass
    elif cname == "raising":
        class E(Exception):
            def __init__(self, *a, **k):
                raise ValueError("C04: this exception class refuses every payload")
    else:
        raise ValueError(cname)
    E.__name__ = E.__qualname__ = "C04Error_%s" % cname
    if how == "decorated":
        E = wamp.error(uri)(E)
    return E


# ---------------------------------------------------------------------------------------------
# values
# ---------------------------------------------------------------------------------------------

def jd(v):
    """case value -> python value ({"$b": hex} marks bytes)."""
    if isinstance(v, dict):
        if len(v) == 1 and "$b" in v:
            return bytes.fromhex(v["$b"])
        return {k: jd(x) for k, x in v.items()}
    if isinstance(v, list):
        return [jd(x) for x in v]
    return v


def strict_eq(a, b):
    """Structural equality that keeps bool/int apart and treats list == tuple."""
    if isinstance(a, bool) or isinstance(b, bool):
        return isinstance(a, bool) and isinstance(b, bool) and a == b
    if isinstance(a, (list, tuple)):
        return isinstance(b, (list, tuple)) and len(a) == len(b) and all(strict_eq(x, y) for x, y in zip(a, b))
    if isinstance(a, dict):
        return isinstance(b, dict) and set(a.keys()) == set(b.keys()) and all(strict_eq(a[k], b[k]) for k in a)
    if isinstance(a, (bytes, bytearray)):
        return isinstance(b, (bytes, bytearray)) and bytes(a) == bytes(b)
    if isinstance(a, (int, float)) and isinstance(b, (int, float)):
        return a == b and isinstance(a, float) == isinstance(b, float)
    return type(a) is type(b) and a == b


def short(v, n=300):
    s = repr(v)
    return s if len(s) <= n else s[:n] + "..."


# ---------------------------------------------------------------------------------------------
# independent option -> wire table (WAMP spec: PUBLISH.Options, SUBSCRIBE.Options, REGISTER.Options,
# CALL.Options); client-side-only knobs (details, details_arg, on_progress handler) never travel
# ---------------------------------------------------------------------------------------------

def expected_options(kind, opts):
    o = {}
    opts = opts or {}
    if kind == "call":
        if opts.get("timeout") is not None:
            o["timeout"] = opts["timeout"]
        if opts.get("on_progress"):
            o["receive_progress"] = True
        for k in CALL_PASS_OPTS:
            if opts.get(k) is not None:
                o[k] = opts[k]
    elif kind == "publish":
        for k in PUBLISH_FLAG_OPTS + PUBLISH_PASS_OPTS:
            if opts.get(k) is not None:
                o[k] = opts[k]
        for k in PUBLISH_LIST_OPTS:
            if opts.get(k) is not None:
                o[k] = opts[k] if isinstance(opts[k], list) else [opts[k]]
    elif kind == "subscribe":
        for k in ("match", "get_retained", "forward_for"):
            if opts.get(k) is not None:
                o[k] = opts[k]
    elif kind == "register":
        for k in ("match", "invoke", "concurrency", "force_reregister", "forward_for"):
            if opts.get(k) is not None:
                o[k] = opts[k]
    return o


def norm_options(kind, d):
    d = dict(d)
    for k, v in OPT_DEFAULTS.get(kind, {}).items():
        if k in d and strict_eq(d[k], v):
            del d[k]
    return d


def build_options(kind, opts, handlers):
    """The library's option object for an API call (None when the case gives none)."""
    from autobahn.wamp import types as T
    if opts is None:
        return None
    if kind == "call":
        kw = {}
        if opts.get("on_progress"):
            kw["on_progress"] = handlers["on_progress"]
        if opts.get("timeout") is not None:
            kw["timeout"] = opts["timeout"]
        if opts.get("details") is not None:
            kw["details"] = opts["details"]
        for k in CALL_PASS_OPTS:
            if opts.get(k) is not None:
                kw[k] = copy.deepcopy(opts[k])
        return T.CallOptions(**kw)
    if kind == "publish":
        return T.PublishOptions(**{k: copy.deepcopy(v) for k, v in opts.items() if v is not None})
    if kind == "subscribe":
        return T.SubscribeOptions(**{k: copy.deepcopy(v) for k, v in opts.items() if v is not None})
    if kind == "register":
        return T.RegisterOptions(**{k: copy.deepcopy(v) for k, v in opts.items() if v is not None})
    raise ValueError(kind)


# ---------------------------------------------------------------------------------------------
# completion-attempt hook (txaio boundary): a second resolve/reject of the same future is seen
# even where the framework would raise or the library guards with is_called
# ---------------------------------------------------------------------------------------------

class AttemptHook:
    installed = None

    def __init__(self):
        self.attempts = {}
        self.active = False

    @classmethod
    def get(cls):
        if cls.installed is None:
            h = cls()
            orig_resolve, orig_reject = txaio.resolve, txaio.reject

            def resolve(fut, *a, **k):
                h.note(fut)
                return orig_resolve(fut, *a, **k)

            def reject(fut, *a, **k):
                h.note(fut)
                return orig_reject(fut, *a, **k)

            txaio.resolve = resolve
            txaio.reject = reject
            cls.installed = h
        return cls.installed

    def note(self, fut):
        if self.active:
            self.attempts[id(fut)] = self.attempts.get(id(fut), 0) + 1

    def reset(self):
        self.attempts = {}
        self.active = True


# ---------------------------------------------------------------------------------------------
# executor
# ---------------------------------------------------------------------------------------------

class Req:
    def __init__(self, label, kind, spec):
        self.label = label
        self.kind = kind
        self.spec = spec
        self.wid = None            # request id seen on the wire
        self.fut = None
        self.outcome = None
        self.status = "new"        # new | pending | answered | unack | broken
        self.progress = []         # entries delivered to this call's own on_progress
        self.progress_sent = 0
        self.final_msg = None
        self.final_mode = None
        self.assigned = None       # subscription / registration id granted by the router
        self.obj = None            # Subscription / Registration
        self.live = False          # events / invocations may be sent
        self.calls = []            # handler / endpoint invocations of THIS request's callable
        self.of = None
        self.nested = None         # request step to issue from inside this request's next callback
        self.nested_hooked = False
        self.group = None          # ObjGroup when issued through subscribe(obj) / register(obj)
        self.reply_ctx = None
        self.reentrant = False     # issued while another request was inside send(), or the request whose send() was re-entered


ENC_ALGO = "x_c04"
ENC_KEYS = ("enc_algo", "enc_serializer", "enc_key")


def enc_pack(uri, args, kwargs):
    """Payload-transparency envelope of the stub codec (also what the scripted router produces / opens): CBOR of uri + payload."""
    import cbor2
    return b"C04:" + cbor2.dumps({"uri": uri, "args": list(args or []), "kwargs": dict(kwargs or {})})


def enc_unpack(payload):
    import cbor2
    if not isinstance(payload, (bytes, bytearray)) or bytes(payload[:4]) != b"C04:":
        raise ValueError("not a C04 envelope")
    d = cbor2.loads(bytes(payload[4:]))
    return d["uri"], d["args"], d["kwargs"]


class C04Codec:
    """Trivial IPayloadCodec: 'payload transparency' without cryptography (enc_algo x_c04)."""

    def __init__(self):
        self.encoded = 0
        self.decoded = 0

    def encode(self, is_originating, uri, args=None, kwargs=None):
        from autobahn.wamp.types import EncodedPayload
        self.encoded += 1
        return EncodedPayload(enc_pack(uri, args, kwargs), ENC_ALGO, enc_serializer="cbor")

    def decode(self, is_originating, uri, encoded_payload):
        self.decoded += 1
        u, a, k = enc_unpack(encoded_payload.payload)
        return u, a, k


class ObjGroup:
    """One subscribe(obj) / register(obj) call: several requests, ONE returned future (a list of per-request results)."""

    def __init__(self, label, kind):
        self.label = label
        self.kind = kind
        self.members = []          # model records in order of issue (= wire order)
        self.fut = None
        self.outcome = None
        self.unpacked = False


class ListOutcome:
    """Per-request view of an object-form call's single future (filled when that future completes)."""

    def __init__(self):
        self.results = []


class Abort(Exception):
    pass


class SyncTransport:
    """ITransport wrapper placed between the session and its REAL transport: everything is delegated, but when the running step
    asks for it, the scripted router's reply to the request just sent is handed to ``session.onMessage()`` BEFORE ``send()``
    returns - what an in-process / loopback router transport does.  The request still travels through the real transport (it is
    read back from the wire as a plain list), the reply is encoded with the plain codec and parsed by the transport's own serializer,
    exactly like an incoming frame.  Exceptions of onMessage propagate out of send(), as on a loopback transport."""

    def __init__(self, real, run):
        object.__setattr__(self, "_c04_real", real)
        object.__setattr__(self, "_c04_run", run)

    def __getattr__(self, name):
        return getattr(object.__getattribute__(self, "_c04_real"), name)

    def __setattr__(self, name, value):
        setattr(object.__getattribute__(self, "_c04_real"), name, value)

    def send(self, msg):
        real = object.__getattribute__(self, "_c04_real")
        run = object.__getattribute__(self, "_c04_run")
        real.send(msg)
        plan = run.sync_plan
        if plan is None or plan["msgs"] is not None:
            return
        rp = run.rp
        plan["msgs"] = msgs = rp.recv()
        rq = run.reqs.get(plan["label"])
        if rq is None or len(msgs) != 1 or not isinstance(msgs[0], list) or len(msgs[0]) < 2 or msgs[0][0] != REQ_CODE[rq.kind]:
            return
        rq.wid = msgs[0][1]
        if plan.get("inside"):
            run.run_inside(rq, plan)
        if plan["reply"] is None:
            return
        reply, args, kwargs = run.build_reply(rq, plan["reply"])
        plan["sent"] = (reply, args, kwargs)
        for m in real._serializer.unserialize(rp.dumps(reply), rp.binary):
            run.s.onMessage(m)


def _session_class():
    if txaio.using_twisted:
        from autobahn.twisted.wamp import ApplicationSession
    else:
        from autobahn.asyncio.wamp import ApplicationSession

    class C04Session(ApplicationSession):
        def __init__(self, *a, **k):
            ApplicationSession.__init__(self, *a, **k)
            self.user_errors = []

        def onUserError(self, fail, msg):
            self.user_errors.append((str(msg), repr(getattr(fail, "value", fail))[:200]))

    return C04Session


class Run:
    def __init__(self, R, case, fw):
        self.R = R
        self.case = case
        self.cfg = case["cfg"]
        self.fw = fw
        self.reqs = {}
        self.order = []
        self.last_id = 0
        self.gap_ok = False
        self.seen_ids = set()
        self.dead = False
        self.nontrivial = False
        self.step_i = -1
        self.hook = AttemptHook.get()
        self.inv_seen = set()
        self.orphans = {}
        self.orphan_ids = set()
        self.local_unsubs = 0
        self.inflight_seen = False
        self.cancel_absorbed = False
        self.unsolicited_seen = False
        self.sync_plan = None
        self.groups = []
        self.nested_issued = []
        self.tolerated = dict.fromkeys(KINDS, 0)     # records the library kept after a subscribe/register whose send() raised (grey zone)
        self.inside = None                           # the request whose send() is executing right now (router messages delivered re-entrantly)
        self.inside_site = None
        self.inside_invids = set()
        self.reentrant_done = False
        self.defs = {}                               # error URI -> (class name, class) registered with session.define()
        self.misfit_errors = 0                       # ERROR replies delivered whose mapped class cannot be built from the payload

    # -- reporting ------------------------------------------------------------------------------
    def v(self, key, what, **detail):
        detail.update(step=self.step_i, fw=self.fw, transport=self.cfg["transport"], serializer=self.cfg["serializer"],
                      step_def=short(self.case["steps"][self.step_i]) if 0 <= self.step_i < len(self.case["steps"]) else None)
        self.R.violation("C04/" + key, what, detail, self.case)

    # -- set-up ---------------------------------------------------------------------------------
    def start(self):
        cfg = self.cfg
        kw = {}
        if cfg["transport"] == "websocket":
            kw["ws_options"] = {"failByDrop": bool(cfg.get("fail_by_drop", True))}
        elif cfg.get("rs_max_exp"):
            kw["router_max_len_exp"] = cfg["rs_max_exp"]      # RawSocket: the router accepts messages up to 2**exp octets only
        cls = _session_class()
        self.rp = RouterPeer(lambda: cls(), transport=cfg["transport"], serializer=cfg["serializer"], **kw)
        self.hook.reset()
        hello = self.rp.join(cfg.get("session_id", 7001))
        self.s = self.rp.session
        if not hello or hello[0] != 1 or self.s is None or self.s._session_id is None:
            raise RuntimeError("harness: session did not join: %r" % (hello,))
        self.codec = None
        if cfg.get("codec"):
            self.codec = C04Codec()
            self.s.set_payload_codec(self.codec)
        for d in cfg.get("defs") or []:
            ecls = make_error_class(d["cls"], d["uri"], d.get("how", "decorated"))
            if d.get("how", "decorated") == "decorated":
                self.s.define(ecls)
            else:
                self.s.define(ecls, d["uri"])
            self.defs[d["uri"]] = (d["cls"], ecls)
        start_at = cfg.get("id_start")
        if start_at is not None:
            gen = getattr(self.s, "_request_id_gen", None)
            if gen is None or not hasattr(gen, "_next"):
                self.R.count("id_wrap_hook_missing")
                raise Abort()
            gen._next = start_at          # the only way to reach the 2**53 boundary
            self.last_id = start_at

    def failed(self):
        """None, or a description of how the transport was failed by the client."""
        rp = self.rp
        rp._pull()
        if rp.ws_close_frames:
            return {"how": "close-frame", "code": rp.ws_close_frames[0][0], "reason": rp.ws_close_frames[0][1][:160]}
        if rp.ep.close_requested is not None:
            return {"how": rp.ep.close_requested, "code": None}
        if rp.ep.lost:
            return {"how": "lost", "code": None}
        return None

    # -- snapshots --------------------------------------------------------------------------------
    def snap(self):
        return {l: (len(r.outcome.results) if r.outcome else 0, len(r.progress), len(r.calls)) for l, r in self.reqs.items()}

    def model_sizes(self):
        sz = dict(self.tolerated)
        for r in self.reqs.values():
            if r.status in ("pending", "cancelled"):
                sz[r.kind] += 1
        return sz

    def check_tables(self, where):
        if self.dead:
            return
        want = self.model_sizes()
        for k in KINDS:
            t = getattr(self.s, TABLE[k], None)
            if t is None:
                self.R.count("table_hook_missing")
                continue
            self.R.count("table_sizes_compared")
            if len(t) != want[k]:
                self.v("%s/pending-table/%s" % (k, "leak" if len(t) > want[k] else "lost-entry"),
                       "session.%s holds %d entries, the model expects %d (%s)" % (TABLE[k], len(t), want[k], where),
                       keys=sorted(t.keys())[:10])

    def diff(self, snap, target=None, completes=0, progress=0, calls_for=None, what="message", msg=None, targets=None, tolerate_calls=(),
             tolerate_progress=()):
        """After one router message: only ``target`` (or the ``targets`` {label: completions}) may have changed, exactly as predicted."""
        ok = True
        if targets is None:
            targets = {target: completes} if target is not None else {}
        else:
            target = sorted(targets)
        for l, r in self.reqs.items():
            b = snap.get(l, (0, 0, 0))
            dc = (len(r.outcome.results) if r.outcome else 0) - b[0]
            dp = len(r.progress) - b[1]
            dh = len(r.calls) - b[2]
            wc = targets.get(l, 0)
            wp = progress if l in targets else 0
            wh = 1 if (l in calls_for if isinstance(calls_for, (set, frozenset, list, tuple)) else l == calls_for) else 0
            if l in tolerate_calls and dh in (0, 1):
                wh = dh
            if l in tolerate_progress and dp in (0, 1):
                wp = dp
            if dc != wc:
                ok = False
                if l in targets:
                    if dc > wc and wc == 0 and not progress:
                        self.v("%s/%s/completed-the-request" % (r.kind, what), "a message that is not the request's final reply completed it with %s" % (
                            short(r.outcome.results[-1:]),), msg=short(msg))
                    elif dc > wc and progress:
                        self.v("call/reply-progress/future-completed", "a progressive RESULT completed the call's future",
                               results=short(r.outcome.results), msg=short(msg))
                    elif dc > wc:
                        self.v("%s/%s/completed-twice" % (r.kind, what), "one reply completed the future %d times" % dc,
                               results=short(r.outcome.results), msg=short(msg))
                    else:
                        self.v("%s/%s/not-completed" % (r.kind, what), "the reply bearing the request's id and type did not complete it",
                               msg=short(msg), wid=r.wid)
                else:
                    self.v("%s/foreign-completion/by-%s" % (r.kind, what), "request %r (id %r) was completed by a message meant for %r" % (
                        l, r.wid, target), results=short(r.outcome.results[-1:]), msg=short(msg))
            if dp != wp:
                ok = False
                if l in targets:
                    self.v("call/reply-progress/%s" % ("handler-not-called" if dp < wp else "handler-called-extra"),
                           "own on_progress handler called %d times for one progressive RESULT" % dp, msg=short(msg))
                else:
                    self.v("call/foreign-progress/by-%s" % what, "on_progress of call %r received a message meant for %r" % (l, target),
                           got=short(r.progress[-1:]), msg=short(msg))
            if dh != wh:
                ok = False
                self.v("%s/callable/%s" % (r.kind, "not-invoked" if dh < wh else "foreign-or-extra-invocation"),
                       "handler/endpoint of request %r invoked %d times by %s (expected %d)" % (l, dh, what, wh), msg=short(msg))
        return ok

    # -- API requests ---------------------------------------------------------------------------
    def attached(self, sub_id, but=None):
        """Model records of the handlers currently attached to subscription ``sub_id``."""
        return [r for r in self.reqs.values() if r.kind == "subscribe" and r.live and r is not but and strict_eq(r.assigned, sub_id)]

    def do_request(self, st):
        snap = self.snap()
        local = False
        if st["op"] == "unsubscribe":
            target = self.reqs.get(st["of"])
            local = bool(target is not None and target.live and target.obj is not None and self.attached(target.assigned, but=target))
        if st.get("inside") and not local and not st.get("sync"):
            return self.do_reentrant_request(st, snap)
        if st.get("sync") and not local:
            return self.do_sync_request(st, snap)
        rq = self.api_call(st)
        if rq is None:
            return
        if local:
            self.verify_local_unsubscribe(rq, snap)
        else:
            self.verify_request(rq, snap)

    # -- object forms: subscribe(obj) / register(obj) with @wamp.subscribe / @wamp.register decorated methods -----------------
    @staticmethod
    def is_pattern(uri):
        """'a.<name>.b' is a URI pattern (the handler default is then match=wildcard); the URI itself travels as given."""
        return any(c.startswith("<") and c.endswith(">") for c in uri.split("."))

    def do_object_request(self, st):
        """One API call, one request per decorated method: each must carry exactly its OWN method's options (the decorator's; else the
        ``options=`` of the call; for a handler with neither: match=wildcard for a URI pattern, exact otherwise), ids sequential in
        wire order; the single returned future completes once with, per request, the reply bearing that request's id."""
        from autobahn import wamp
        R = self.R
        kind = "subscribe" if st["op"] == "subscribe_obj" else "register"
        call_opts = st.get("opts")
        grp = ObjGroup(st["n"], kind)
        ns = {}
        recs = []
        for m in st["methods"]:
            own = m.get("opts")
            eff = own if own is not None else call_opts
            pattern = self.is_pattern(m["uri"])
            if eff is None and kind == "subscribe" and pattern:
                eff = {"match": "wildcard"}
            rq = Req(m["n"], kind, {"op": kind, "n": m["n"], "uri": m["uri"], "opts": eff, "own_opts": own, "method": m["name"]})
            rq.group = grp
            rq.outcome = ListOutcome()
            recs.append(rq)

            def make(rq=rq):
                def method(self_, *a, **k):
                    rq.calls.append((a, k))
                    return "ret:%s:%d" % (rq.label, len(rq.calls))
                return method
            f = make()
            f.__name__ = m["name"]
            deco = wamp.subscribe if kind == "subscribe" else wamp.register
            ns[m["name"]] = deco(m["uri"], options=build_options(kind, own, {}))(f) if own is not None else deco(m["uri"])(f)
        obj = type("C04Object%d" % st["n"], (object,), ns)()
        snap = self.snap()
        for rq in recs:
            self.reqs[rq.label] = rq
        try:
            o = build_options(kind, call_opts, {})
            api = self.s.subscribe if kind == "subscribe" else self.s.register
            ret = api(obj, options=o) if o is not None else api(obj)
        except Exception as e:
            for rq in recs:
                rq.status = "broken"
            self.v("%s/object-form/api-raised/%s" % (kind, type(e).__name__), "API call raised on a valid decorated object: %r" % (e,))
            self.rp.recv()
            self.dead = True
            return
        R.count("object_form_calls")
        if not is_future(ret):
            self.v("%s/object-form/no-future" % kind, "API call returned %r instead of a Deferred/Future" % (ret,))
            self.dead = True
            return
        grp.fut = ret
        grp.outcome = Outcome(ret)
        self.groups.append(grp)
        msgs = self.rp.recv()
        if len(msgs) != len(recs) or any(not isinstance(m, list) or len(m) != 4 or m[0] != REQ_CODE[kind] for m in msgs):
            self.v("%s/object-form/%s" % (kind, "wrong-number-of-requests" if len(msgs) != len(recs) else "wrong-message-type"),
                   "expected %d %s messages (one per decorated method), the wire shows %s" % (len(recs), kind.upper(), short(msgs)))
            self.dead = True
            return
        by_uri = {rq.spec["uri"]: rq for rq in recs}
        for m in msgs:                                   # wire order = order of issue: the ids must be sequential in this order
            rq = by_uri.pop(m[3], None)
            if rq is None:
                self.v("%s/object-form/uri" % kind, "request for URI %r matches no decorated method (or a second one for the same)" % (m[3],), msg=short(m))
                self.dead = True
                return
            rq.status = "pending"
            grp.members.append(rq)
            R.count("wire_requests_compared")
            R.count("object_form_requests_compared")
            R.count("requests_issued_" + kind)
            R.seen("object_form_option_sources", "%s:%s:%s" % (kind, "own" if rq.spec["own_opts"] is not None else ("call" if call_opts is not None else "default"),
                                                                 ",".join(sorted(rq.spec["opts"] or {})) or "-"))
            self.check_wire(rq, m, [], {}, rq.spec["opts"])
        self.world_settle()
        if grp.outcome.results:
            self.v("%s/object-form/completed-before-reply" % kind, "future completed before any reply was sent", results=short(grp.outcome.results))
        self.diff(snap, what="request-%s-object" % kind)
        f = self.failed()
        if f:
            self.v("%s/request/transport-failed" % kind, "transport failed while issuing a request: %r" % (f,))
            self.dead = True
        self.check_tables("after %s(obj)" % kind)

    def group_reply_targets(self, rq):
        """Completions visible after a reply to a member of an object-form call: none until the LAST member is answered, then all."""
        grp = rq.group
        if any(m.status == "pending" and m is not rq for m in grp.members):
            return {rq.label: 0}
        return {m.label: 1 for m in grp.members}

    def group_after_reply(self, rq, ok, what):
        """Unpack the single future of an object-form call once every member has been answered."""
        grp = rq.group
        if any(m.status == "pending" for m in grp.members):
            if grp.outcome.results:
                self.v("%s/object-form/completed-early" % rq.kind, "future completed while requests of the call are still unanswered",
                       results=short(grp.outcome.results))
            return
        res = grp.outcome.results
        if grp.unpacked:
            return
        grp.unpacked = True
        if len(res) != 1 or res[0][0] != "ok" or not isinstance(res[0][1], (list, tuple)) or len(res[0][1]) != len(grp.members):
            self.v("%s/object-form/%s" % (rq.kind, "not-completed" if not res else "wrong-result"),
                   "after the last reply the future of the call shows %s (expected one list with %d entries)" % (short(res), len(grp.members)))
            return
        for m, val in zip(grp.members, res[0][1]):      # entry i belongs to the i-th request issued
            if hasattr(val, "value") and hasattr(val, "getTraceback"):
                val = val.value                           # twisted Failure
            m.outcome.results.append(("err", val) if isinstance(val, BaseException) else ("ok", val))
            mode, args, kwargs, st, msg = m.reply_ctx
            self.check_completion(m, mode, args, kwargs, st, m.spec.get("opts") or {}, msg)
            self.R.count("object_form_completions_compared")

    # -- router messages delivered from INSIDE send(), their handlers issue further requests (re-entrant API calls) --------------
    def deliver(self, msg, seg=None):
        """Hand one router message to the session: over the wire, or - while a request is inside send() - straight into onMessage(),
        parsed by the transport's own serializer, as an in-process router does.  An exception of onMessage propagates out of send()."""
        if self.inside is None:
            return self.rp.send(msg, seg=seg) if seg is not None else self.rp.send(msg)
        rp = self.rp
        for m in self.s._transport._serializer.unserialize(rp.dumps(msg), rp.binary):
            self.s.onMessage(m)

    def dispatch(self, st):
        op = st["op"]
        if op == "reply":
            self.do_reply(st)
        elif op == "event":
            self.do_event(st)
        elif op == "invoke":
            self.do_invoke(st)
        else:
            raise ValueError(op)

    @staticmethod
    def inside_site_of(rq, st):
        if st["op"] == "reply":
            own = st["to"] == rq.label
            return ("progress-own" if own else "progress-other") if st["mode"] == "progress" else "completion-other"
        return "event" if st["op"] == "event" else "invocation"

    def run_inside(self, rq, plan):
        """Called by SyncTransport.send() of request ``rq`` after the request has reached the wire: check the request's id FIRST (wire
        order), then deliver the scripted router messages without ever running the loop / clock."""
        R = self.R
        R.count("reentrant_sends")
        self.verify_request(rq, None, msgs=plan["msgs"], where="request")
        plan["verified"] = True
        if self.dead:
            return
        acked = rq.kind != "publish" or bool((rq.spec.get("opts") or {}).get("acknowledge"))
        if acked and rq.status == "new":
            rq.status = "pending"              # record-before-send: the request is outstanding from now on (api_call sets the future later)
        rq.reentrant = True
        world = self.rp.world
        self.inside = rq
        world.settle = lambda: None            # nothing runs the event loop / reactor while send() executes
        try:
            for st in plan["inside"]:
                if self.dead:
                    break
                site = self.inside_site_of(rq, st)
                if site == "completion-other" and not txaio.using_twisted:
                    plan["deferred"].append(st)     # asyncio: done-callbacks only run from the loop, i.e. after send() has returned
                    continue
                if st["op"] == "invoke":
                    self.inside_invids.add(st["invid"])
                self.inside_site = site
                self.dispatch(dict((k, v) for k, v in st.items() if k != "cut"))
                R.count("messages_delivered_inside_send")
        finally:
            del world.settle
            self.inside = None
            self.inside_site = None

    def do_reentrant_request(self, st, snap):
        """A request during whose send() the router delivers further messages; the handlers issue requests of their own before the outer
        API call returns.  Every request must still carry a fresh sequential id (wire order: outer first) and complete with its own reply."""
        R = self.R
        if not isinstance(self.s._transport, SyncTransport):
            self.s._transport = SyncTransport(self.s._transport, self)
        plan = self.sync_plan = {"label": st["n"], "reply": None, "msgs": None, "sent": None, "inside": st["inside"], "deferred": [],
                                 "verified": False}
        try:
            rq = self.api_call(st)
        finally:
            self.sync_plan = None
        if rq is None:
            return
        kind = rq.kind
        if not plan["verified"]:
            self.verify_request(rq, None, msgs=plan["msgs"] if plan["msgs"] is not None else [], where="request")
        if self.dead:
            return
        self.nontrivial = True
        self.reentrant_done = True
        self.world_settle()
        if rq.outcome is not None and rq.outcome.results:
            self.v("%s/request/completed-before-reply" % kind, "future completed before any reply was sent", results=short(rq.outcome.results))
        f = self.failed()
        if f:
            self.v("%s/reentrant-request/transport-failed" % kind, "transport failed during a request whose send() delivered router messages: %r" % (f,))
            self.dead = True
            return
        # endpoints invoked inside send() answer through the loop on asyncio: their YIELD shows up only now
        left = [m for m in self.take_nested(self.rp.recv(), "after-send")
                if not (isinstance(m, list) and len(m) > 1 and m[0] == 70 and m[1] in self.inside_invids)]
        if left:
            self.v("%s/reentrant-request/unexpected-wire-message" % kind, "unexpected messages after the request returned", msgs=short(left))
        self.check_tables("after re-entrant %s request" % kind)
        for st2 in plan["deferred"]:
            if self.dead:
                break
            self.dispatch(st2)

    def do_sync_request(self, st, snap):
        """The router's reply re-enters onMessage() from inside the transport's send(), i.e. before the API call has returned."""
        R = self.R
        if not isinstance(self.s._transport, SyncTransport):
            self.s._transport = SyncTransport(self.s._transport, self)
        plan = self.sync_plan = {"label": st["n"], "reply": st["sync"], "msgs": None, "sent": None}
        try:
            rq = self.api_call(st)
        finally:
            self.sync_plan = None
        if rq is None:
            return
        kind, mode = rq.kind, st["sync"]["mode"]
        what = "sync-reply-%s" % mode
        self.verify_request(rq, None, msgs=plan["msgs"] if plan["msgs"] is not None else [], where="request")
        if self.dead or plan["sent"] is None:
            return
        msg, args, kwargs = plan["sent"]
        self.nontrivial = True
        self.world_settle()
        f = self.failed()
        if f:
            self.v("%s/%s/transport-failed" % (kind, what), "a reply delivered from inside send() failed the transport: %r" % (f,), msg=short(msg))
            self.dead = True
            return
        extra = self.rp.recv()
        if extra:
            self.v("%s/%s/unexpected-wire-message" % (kind, what), "the session sent messages in reaction to a reply", msgs=short(extra))
        ok = self.diff(snap, target=rq.label, completes=1 if rq.outcome is not None else 0, what=what, msg=msg)
        if rq.status == "pending":
            rq.status = "answered"
            rq.final_msg = msg
            rq.final_mode = mode
            if ok:
                self.check_completion(rq, mode, args, kwargs, st["sync"], rq.spec.get("opts") or {}, msg)
                R.count("replies_%s_%s" % ("ok" if mode == "ok" else "error", kind))
                R.count("sync_replies_delivered")
                R.seen("sync_reply_kinds", "%s:%s" % (kind, mode))
        self.check_tables("after %s for %s" % (what, kind))

    def verify_local_unsubscribe(self, rq, snap):
        """Other handlers stay attached to the subscription: nothing goes over the wire, no request id is spent (the ids of all
        later requests are checked against the unchanged counter), the future completes exactly once and successfully."""
        R = self.R
        R.count("local_unsubscribes_checked")
        self.local_unsubs += 1
        msgs = self.rp.recv()
        if msgs:
            self.v("unsubscribe/local/message-on-wire", "unsubscribe of one of several handlers of subscription %r sent %d message(s)" % (
                rq.of.assigned, len(msgs)), msgs=short(msgs))
            self.dead = True
            return
        self.world_settle()
        if rq.status == "pending":
            res = rq.outcome.results
            if len(res) != 1:
                self.v("unsubscribe/local/%s" % ("not-completed" if not res else "completed-twice"),
                       "future of a local unsubscribe completed %d times" % len(res), results=short(res))
            elif res[0][0] != "ok":
                self.v("unsubscribe/local/rejected", "future of a local unsubscribe failed with %s" % short(res[0][1]))
            rq.status = "answered-local"
        self.diff(snap, target=rq.label, completes=1, what="local-unsubscribe")
        f = self.failed()
        if f:
            self.v("unsubscribe/local/transport-failed", "transport failed during a local unsubscribe: %r" % (f,))
            self.dead = True
        self.check_tables("after local unsubscribe")

    def api_call(self, st, nested=False):
        """Invoke the API for one request step.  Returns the model record, or None when nothing was issued."""
        R = self.R
        kind = st["op"]
        label = st["n"]
        rq = Req(label, kind, st)
        args = [jd(x) for x in st.get("args") or []]
        kwargs = {k: jd(x) for k, x in (st.get("kwargs") or {}).items()}
        opts = st.get("opts")
        s = self.s

        def on_progress(*a, **k):
            rq.progress.append((a, k))
            self.fire_nested(rq, "progress")

        def handler(*a, **k):
            rq.calls.append((a, k))
            self.fire_nested(rq, "handler")
            return "ret:%s:%d" % (label, len(rq.calls))

        target = None
        if kind in ("unsubscribe", "unregister"):
            target = self.reqs.get(st["of"])
            if target is None or target.obj is None or not target.live:
                R.count("skipped_steps")
                return None
            rq.of = target
        self.reqs[label] = rq
        try:
            o = build_options(kind, opts, {"on_progress": on_progress}) if kind in ("call", "publish", "subscribe", "register") else None
            if kind == "call":
                ret = s.call(st["uri"], *args, options=o, **kwargs) if o is not None else s.call(st["uri"], *args, **kwargs)
            elif kind == "publish":
                ret = s.publish(st["uri"], *args, options=o, **kwargs) if o is not None else s.publish(st["uri"], *args, **kwargs)
            elif kind == "subscribe":
                ret = s.subscribe(handler, st["uri"], options=o) if o is not None else s.subscribe(handler, st["uri"])
            elif kind == "register":
                ret = s.register(handler, st["uri"], options=o) if o is not None else s.register(handler, st["uri"])
            elif kind == "unsubscribe":
                target.live = False
                ret = target.obj.unsubscribe()
            else:
                target.live = False
                ret = target.obj.unregister()
        except Exception as e:
            rq.status = "broken"
            self.v("%s/request/api-raised/%s" % (kind, type(e).__name__), "API call raised on a valid request%s: %r" % (
                " (issued from inside a callback)" if nested else "", e))
            if not nested:
                self.rp.recv()
            self.dead = True
            return None
        R.count("requests_issued_" + ("publish_unack" if kind == "publish" and not (opts or {}).get("acknowledge") else kind))
        R.seen("option_combos", "%s:%s" % (kind, ",".join(sorted(k for k, x in (opts or {}).items() if x is not None and x is not False)) or "-"))
        acked = kind != "publish" or bool((opts or {}).get("acknowledge"))
        # -- the returned pending result
        if acked:
            if not is_future(ret):
                rq.status = "broken"
                self.v("%s/request/no-future" % kind, "API call returned %r instead of a Deferred/Future" % (ret,))
            else:
                rq.fut = ret
                rq.outcome = Outcome(ret)
                rq.status = "pending"
        else:
            rq.status = "unack"
            if ret is not None:
                self.v("publish/request/unacknowledged-returned-%s" % type(ret).__name__, "unacknowledged publish returned %r" % (ret,))
        return rq

    def verify_request(self, rq, snap, msgs=None, where="request"):
        """Exactly one request message, fresh id, faithful content; nothing else changed."""
        R = self.R
        kind = rq.kind
        st = rq.spec
        args = [jd(x) for x in st.get("args") or []]
        kwargs = {k: jd(x) for k, x in (st.get("kwargs") or {}).items()}
        if msgs is None:
            msgs = self.rp.recv()
        R.count("wire_requests_compared")
        if len(msgs) != 1:
            self.v("%s/%s/%s" % (kind, where, "not-sent" if not msgs else "sent-%d-messages" % len(msgs)),
                   "expected exactly one request message on the wire, saw %d" % len(msgs), msgs=short(msgs))
            if not msgs:
                if rq.status == "pending":
                    rq.status = "broken"
                self.dead = True
                return
        m = msgs[0]
        self.check_wire(rq, m, args, kwargs, st.get("opts"))
        if snap is None:
            return
        self.world_settle()
        if rq.outcome is not None and rq.outcome.results:
            self.v("%s/request/completed-before-reply" % kind, "future completed before any reply was sent",
                   results=short(rq.outcome.results))
        self.diff(snap, what="request-%s" % kind)
        f = self.failed()
        if f:
            self.v("%s/request/transport-failed" % kind, "transport failed while issuing a request: %r" % (f,))
            self.dead = True
        self.check_tables("after %s request" % kind)

    # -- requests issued from INSIDE a callback (completion callback of a reply / event handler) ------------------
    def arm_nested(self, rq, site, then):
        """``then`` (a request step) will be issued by rq's own callback: site = completion | handler | progress."""
        rq.nested = (site, then)
        if site == "completion" and not rq.nested_hooked:
            rq.nested_hooked = True
            if txaio.using_twisted:
                rq.fut.addBoth(lambda _: self.fire_nested(rq, "completion"))
            else:
                rq.fut.add_done_callback(lambda _: self.fire_nested(rq, "completion"))

    def fire_nested(self, rq, site):
        if rq.nested is None or rq.nested[0] != site or self.dead:
            return None
        then = rq.nested[1]
        rq.nested = None
        self.R.count("nested_requests_issued")
        nrq = self.api_call(then, nested=True)
        if nrq is not None:
            self.nested_issued.append((nrq, site))
        return None

    def take_nested(self, msgs, where):
        """Match the request messages seen after a router message with the requests issued from inside callbacks."""
        issued, self.nested_issued = self.nested_issued, []
        rest = list(msgs)
        for nrq, site in issued:
            mine = [m for m in rest if isinstance(m, list) and len(m) > 1 and m[0] == REQ_CODE[nrq.kind]][:1]
            for m in mine:
                rest.remove(m)
            self.verify_request(nrq, None, msgs=mine, where="nested-request")
            self.R.count("nested_requests_verified")
            self.R.seen("nested_sites", "%s-from-%s-of-%s" % (nrq.kind, site, where))
            if self.inside is not None:
                nrq.reentrant = True
                self.R.count("reentrant_requests_verified")
                okind = self.inside.kind if self.inside.status != "new" or self.inside.kind != "publish" else "publish_unack"
                nkind = "publish_unack" if nrq.status == "unack" else nrq.kind
                self.R.seen("reentrant_sites", "%s-inside-send-of-%s-via-%s" % (nkind, okind, self.inside_site))
        return rest

    def world_settle(self):
        self.rp.world.settle()

    def check_wire(self, rq, m, args, kwargs, opts):
        kind = rq.kind
        code = REQ_CODE[kind]
        minlen, maxlen = {"call": (4, 6), "publish": (4, 6), "subscribe": (4, 4), "register": (4, 4),
                          "unsubscribe": (3, 3), "unregister": (3, 3)}[kind]
        if not isinstance(m, list) or not m or m[0] != code:
            self.v("%s/request/wrong-message-type" % kind, "expected message type %d, the wire shows %s" % (code, short(m)))
            rq.status = "broken" if rq.status == "pending" else rq.status
            return
        if not (minlen <= len(m) <= maxlen):
            self.v("%s/request/malformed-length" % kind, "request message has %d elements: %s" % (len(m), short(m)))
            return
        wid = m[1]
        rq.wid = wid
        # ---- request id
        if isinstance(wid, bool) or not isinstance(wid, int) or not (1 <= wid <= MAXID):
            self.v("%s/request/id-out-of-range" % kind, "request id %r is not within 1..2^53" % (wid,), msg=short(m))
        else:
            expect = 1 if self.last_id == MAXID else self.last_id + 1
            # mechanism class: the request was issued while another request was still inside the transport's send()
            ctx = "/inside-send" if self.inside is not None and self.inside is not rq else ""
            if wid in self.seen_ids and not self.cfg.get("id_start"):
                self.v("%s/request/id-reused%s" % (kind, ctx), "request id %d was already used in this session%s" % (
                    wid, " (by the request whose send() is still executing: %s id %r)" % (self.inside.kind, self.inside.wid) if ctx else ""), msg=short(m))
                self.dead = True          # two requests under one id: from here on replies cannot be attributed, nothing more is asserted
            elif self.gap_ok:
                if not (wid >= expect):
                    self.v("%s/request/id-not-fresh-after-send-failure" % kind, "request id %d after ids up to %d" % (wid, self.last_id))
            elif wid != expect:
                self.v("%s/request/id-not-sequential%s" % (kind, ctx), "request id %d, expected %d (sequential from 1 within the session)" % (wid, expect),
                       msg=short(m))
            if self.local_unsubs:
                self.R.count("ids_checked_after_local_unsubscribe")
            if ctx:
                self.R.count("ids_checked_inside_send")
            elif self.reentrant_done:
                self.R.count("ids_checked_after_reentrant_request")
            if wid == MAXID:
                self.R.count("ids_at_2^53")
            if self.last_id == MAXID and wid == 1:
                self.R.count("ids_wrapped_to_1")
            self.seen_ids.add(wid)
            self.last_id = wid
            self.gap_ok = False
            self.R.count("ids_checked")
        # ---- content
        if kind in ("unsubscribe", "unregister"):
            if not strict_eq(m[2], rq.of.assigned):
                self.v("%s/request/wrong-%s-id" % (kind, "subscription" if kind == "unsubscribe" else "registration"),
                       "request names id %r, the router granted %r" % (m[2], rq.of.assigned), msg=short(m))
            return
        if not isinstance(m[2], dict):
            self.v("%s/request/malformed-options" % kind, "options element is %s" % short(m[2]))
            return
        if m[3] != rq.spec["uri"]:
            self.v("%s/request/uri" % kind, "URI on the wire %r differs from the given %r" % (m[3], rq.spec["uri"]))
        wire_opts = dict(m[2])
        encoded = None
        if self.codec is not None and kind in ("call", "publish"):
            # payload transparency: [.., options + enc_*, uri, payload octets]; everything else must be as without a codec
            self.R.count("codec_requests_compared")
            if len(m) != 5 or not isinstance(m[4], (bytes, bytearray)) or wire_opts.get("enc_algo") != ENC_ALGO:
                self.v("%s/request/codec/payload-not-encoded" % kind, "a payload codec is set, but the request carries %s / options %s" % (
                    short(m[4:]), short(m[2])))
                return
            try:
                encoded = enc_unpack(m[4])
            except Exception as e:
                self.v("%s/request/codec/payload-garbled" % kind, "payload octets are not what the codec produced: %r" % (e,))
                return
            for k in ENC_KEYS:
                wire_opts.pop(k, None)
        elif any(k in wire_opts for k in ENC_KEYS):
            self.v("%s/request/options/enc_algo" % kind, "payload-transparency attributes without a codec: %s" % short(m[2]))
        want = norm_options(kind, expected_options(kind, opts))
        got = norm_options(kind, wire_opts)
        if not strict_eq(want, got):
            bad = sorted(k for k in set(want) | set(got) if k not in want or k not in got or not strict_eq(want[k], got[k]))
            self.v("%s/request/options/%s" % (kind, bad[0] + ("+others" if len(bad) > 1 else "")), "options on the wire %s, the API call gave %s (expected wire %s)" % (
                short(m[2]), short(opts), short(want)))
        self.R.count("options_compared")
        if kind in ("call", "publish"):
            wargs = m[4] if len(m) > 4 else []
            wkw = m[5] if len(m) > 5 else {}
            if encoded is not None:
                if encoded[0] != rq.spec["uri"]:
                    self.v("%s/request/codec/uri" % kind, "codec was given URI %r for a request to %r" % (encoded[0], rq.spec["uri"]))
                wargs, wkw = encoded[1], encoded[2]
            if not isinstance(wargs, list) or not isinstance(wkw, dict):
                self.v("%s/request/malformed-payload" % kind, "args/kwargs elements are %s" % short(m[4:]))
                return
            if not strict_eq(wargs, args):
                self.v("%s/request/args" % kind, "positional arguments on the wire %s differ from the given %s" % (short(wargs), short(args)))
            if not strict_eq(wkw, kwargs):
                self.v("%s/request/kwargs" % kind, "keyword arguments on the wire %s differ from the given %s" % (short(wkw), short(kwargs)))
            self.R.count("payloads_compared")

    # -- send failure -------------------------------------------------------------------------
    def do_sendfail(self, st):
        R = self.R
        kind = st["kind"]
        s = self.s
        where = st.get("where", "args")
        uri = "com.c04.unserializable"
        if where == "oversize":
            # RawSocket only: the message is larger than what the router announced in its handshake -> send() raises
            if self.cfg["transport"] != "rawsocket" or not self.cfg.get("rs_max_exp"):
                R.count("skipped_steps")
                return
            big = "y" * (2 ** self.cfg["rs_max_exp"] + 64)
            args, kwargs = [big], {}
            if kind in ("subscribe", "register"):
                uri = "com.c04.big." + big
        else:
            bad = object()
            args, kwargs = ([bad], {}) if where == "args" else (["x"], {"k": bad})
        snap = self.snap()
        ret, exc = None, None
        try:
            if kind == "call":
                ret = s.call(uri, *args, **kwargs)
            elif kind == "subscribe":
                ret = s.subscribe(lambda *a, **k: None, uri)
            elif kind == "register":
                ret = s.register(lambda *a, **k: None, uri)
            else:
                from autobahn.wamp.types import PublishOptions
                if st.get("ack"):
                    kwargs = dict(kwargs, options=PublishOptions(acknowledge=True))
                ret = s.publish(uri, *args, **kwargs)
        except Exception as e:
            exc = e
        R.count("send_failures_injected")
        R.count("send_failures_" + ("oversize" if where == "oversize" else "unserializable"))
        R.seen("send_failure_exceptions", "%s:%s:%s" % (kind, where if where == "oversize" else "unserializable", type(exc).__name__))
        msgs = self.rp.recv()
        if msgs:
            self.v("%s/send-failure/message-on-wire" % kind, "a request with an un-serializable payload produced wire messages", msgs=short(msgs))
            self.dead = True
            return
        if exc is None:
            o = Outcome(ret) if is_future(ret) else None
            self.world_settle()
            if o is None or not o.results or o.results[0][0] != "err":
                self.v("%s/send-failure/no-error" % kind, "send() failed but the API call neither raised nor returned a failed future (%r)" % (ret,))
        self.gap_ok = True
        self.diff(snap, what="send-failure")
        f = self.failed()
        if f:
            self.v("%s/send-failure/transport-failed" % kind, "transport failed after a serialization error: %r" % (f,))
            self.dead = True
        # record-before-send removal (hook): the pending table must not keep the request
        want = self.model_sizes()
        t = getattr(s, TABLE[kind], None)
        if t is not None:
            R.count("send_failure_tables_checked")
            if kind in ("subscribe", "register") and len(t) == want[kind] + 1:
                # grey zone (see ASSUMPTIONS): nothing was returned to the application, the statement is silent about the internal record
                self.tolerated[kind] += 1
                R.seen("send_failure_record_retained", kind)
                # steering only: the id of such a record is not an "unknown id" for the unmatched-reply step
                self.orphan_ids.update(set(t.keys()) - {r.wid for r in self.reqs.values() if r.status == "pending"})
                for key, rec in t.items():
                    fut = getattr(rec, "on_reply", None)
                    if key in self.orphan_ids and is_future(fut) and id(fut) not in self.orphans:
                        self.orphans[id(fut)] = Outcome(fut)      # observe only: it must never be resolved with a value
            elif len(t) != want[kind]:
                self.v("%s/send-failure/pending-retained" % kind, "session.%s keeps %d entries after a failed send (model: %d)" % (
                    TABLE[kind], len(t), want[kind]))
                self.dead = True

    # -- router replies -------------------------------------------------------------------------
    def build_reply(self, rq, st):
        mode = st["mode"]
        args = st.get("args")
        kwargs = st.get("kwargs")
        args = None if args is None else [jd(x) for x in args]
        kwargs = None if kwargs is None else {k: jd(x) for k, x in kwargs.items()}
        tail = []
        if args is not None or kwargs is not None:
            tail.append(args if args is not None else [])
            if kwargs is not None:
                tail.append(kwargs)
        if mode == "error":
            mapped = self.mapped_class(st["error"])
            if mapped is not None and self.error_fit(mapped[0], args or [], kwargs or {}) is None:
                self.misfit_errors += 1       # the library reports the failed construction through onUserError: expected, see finish()
        enc = {}
        if self.codec is not None and st.get("enc") and (mode == "error" or rq.kind == "call"):
            # the peer used payload transparency too: details carry enc_*, the payload is one octet string
            enc = {"enc_algo": ENC_ALGO, "enc_serializer": "cbor"}
            tail = [enc_pack(st["error"] if mode == "error" else rq.spec["uri"], args, kwargs)]
            self.R.count("codec_replies_encoded")
        if mode == "error":
            return [8, REQ_CODE[rq.kind], rq.wid, dict(st.get("details") or {}, **enc), st["error"]] + tail, args, kwargs
        if rq.kind == "call":
            d = dict(st.get("details") or {}, **enc)
            if mode == "progress":
                d["progress"] = True
            return [50, rq.wid, d] + tail, args, kwargs
        if rq.kind in ("publish", "subscribe", "register"):
            return [OK_CODE[rq.kind], rq.wid, st["assigned"]], None, None
        return [OK_CODE[rq.kind], rq.wid], None, None

    def mapped_class(self, uri):
        """(class name, class) the session maps the error URI to: define()d by the case, or mapped by the library itself."""
        if uri in self.defs:
            return self.defs[uri]
        if uri in DEFAULT_MAPPED:
            import importlib
            mod, name = DEFAULT_MAPPED[uri]
            return ("plain", getattr(importlib.import_module(mod), name))
        return None

    @staticmethod
    def error_fit(cname, args, kwargs):
        return error_bind(cname, args, kwargs)

    @staticmethod
    def shape_class(args, kwargs):
        a = "args0" if not args else ("args1" if len(args) == 1 else "argsN")
        if args is not None and not args:
            a = "argsE"
        return "%s-%s" % (a, "kw0" if kwargs is None else ("kwE" if not kwargs else "kwN"))

    def do_reply(self, st):
        R = self.R
        rq = self.reqs.get(st["to"])
        if rq is not None and rq.status == "cancelled" and rq.wid is not None:
            return self.do_reply_to_cancelled(rq, st)
        if rq is None or rq.status != "pending" or rq.wid is None:
            R.count("skipped_steps")
            return
        mode = st["mode"]
        if mode == "progress" and not (rq.kind == "call" and (rq.spec.get("opts") or {}).get("on_progress")):
            if rq.kind == "call" and st.get("unsolicited"):
                return self.do_unsolicited_progress(rq, st)
            R.count("skipped_steps")
            return
        msg, args, kwargs = self.build_reply(rq, st)
        what = "reply-%s" % mode
        opts = rq.spec.get("opts") or {}
        snap = self.snap()
        if st.get("then") and st["then"]["n"] not in self.reqs and (rq.fut is not None or mode == "progress"):
            self.arm_nested(rq, "progress" if mode == "progress" else "completion", st["then"])
        cut = st.get("cut")
        if cut is not None:
            # the reply arrives in two TCP reads
            self.rp.send(msg, seg=lambda d: [d[:max(1, min(len(d) - 1, int(len(d) * cut)))], d[max(1, min(len(d) - 1, int(len(d) * cut))):]])
            R.count("replies_split_across_reads")
        else:
            self.deliver(msg)
        self.nontrivial = True
        f = self.failed()
        if f:
            cls = ""
            mapped = self.mapped_class(st["error"]) if mode == "error" else None
            if mapped is not None:
                # mechanism class: the ERROR's URI is mapped to an exception class x can that class be built from the payload
                cls = "/mapped-error-class/%s" % ("payload-fits" if self.error_fit(mapped[0], args or [], kwargs or {}) is not None else "payload-does-not-fit")
            elif rq.kind == "call":
                # mechanism class: which client-side call options were set x is the optional ArgumentsKw element on the wire
                cls = "/%s/%s" % ("+".join(k for k in ("details", "on_progress") if opts.get(k)) or "plain",
                                  "kwargs-absent" if kwargs is None else "kwargs-present")
            self.v("%s/%s/transport-failed%s" % (rq.kind, what, cls),
                   "a valid reply for a pending request failed the transport instead of being delivered: %r" % (f,), msg=short(msg),
                   shape=self.shape_class(args, kwargs), user_errors=short(self.s.user_errors))
            R.seen("close_codes", "valid:%s" % f.get("code"))
            self.dead = True
            return
        extra = self.take_nested(self.rp.recv(), what)
        if extra:
            self.v("%s/%s/unexpected-wire-message" % (rq.kind, what), "the session sent messages in reaction to a reply", msgs=short(extra))
        if mode == "progress":
            rq.progress_sent += 1
            ok = self.diff(snap, target=rq.label, progress=1, what=what, msg=msg)
            if ok:
                self.check_progress(rq, args, kwargs, st, opts)
                R.count("progressive_delivered")
            R.seen("reply_shapes", "progress:%s:%s" % ("details" if opts.get("details") else "plain", self.shape_class(args, kwargs)))
        elif rq.group is not None:
            # one request of an object-form call: its result becomes visible when the call's single future completes
            targets = self.group_reply_targets(rq)
            rq.status = "answered"
            rq.final_msg = msg
            rq.final_mode = mode
            rq.reply_ctx = (mode, args, kwargs, st, msg)
            self.group_after_reply(rq, True, what)
            if self.diff(snap, targets=targets, what=what, msg=msg):
                R.count("replies_%s_%s" % ("ok" if mode == "ok" else "error", rq.kind))
        else:
            ok = self.diff(snap, target=rq.label, completes=1, what=what, msg=msg)
            rq.status = "answered"
            rq.final_msg = msg
            rq.final_mode = mode
            if ok:
                self.check_completion(rq, mode, args, kwargs, st, opts, msg)
                R.count("replies_%s_%s" % ("ok" if mode == "ok" else "error", rq.kind))
                if self.inflight_seen:
                    R.count("own_reply_completions_after_inflight_delivery")
                if self.cancel_absorbed:
                    R.count("own_reply_completions_after_absorbed_reply")
                if self.unsolicited_seen and rq.kind == "call" and not opts.get("on_progress"):
                    R.count("final_replies_after_unsolicited_progress")
            R.seen("reply_shapes", "%s:%s:%s" % (rq.kind, mode, self.shape_class(args, kwargs)))
        self.check_tables("after %s for %s" % (what, rq.kind))

    # -- progressive RESULT nobody asked for ----------------------------------------------------------------------------------
    def do_unsolicited_progress(self, rq, st):
        """RESULT with details.progress=true for a pending call that has NO progress handler (the CALL carried no receive_progress: a
        misbehaving router/callee, or a progress reply bearing the wrong id).  It is not the call's reply: it must not complete the call
        (nor anything else).  Ignoring it or failing the transport as a PROTOCOL violation (1002) are both accepted; an internal error
        (1011) is not.  If the session survives, the genuine final reply must still complete the call (checked by the later steps)."""
        R = self.R
        msg, args, kwargs = self.build_reply(rq, st)
        cls = "no-options" if rq.spec.get("opts") is None else "options-without-handler"
        snap = self.snap()
        self.rp.send(msg)
        self.nontrivial = True
        R.count("unsolicited_progress_delivered")
        R.seen("unsolicited_progress_classes", cls)
        if not self.diff(snap, targets={rq.label: 0}, what="unsolicited-progress", msg=msg):
            self.dead = True          # the model and the session disagree about the call from here on
            return
        f = self.failed()
        if f:
            R.seen("close_codes", "unsolicited-progress:%s:%s" % (f["how"], f.get("code")))
            if f["how"] == "close-frame" and f["code"] != 1002:
                self.v("call/unsolicited-progress/internal-error/%s" % cls,
                       "a progressive RESULT for a call without progress handler failed the transport with close code %r (%s) instead of being "
                       "ignored or treated as a protocol violation" % (f["code"], f.get("reason")), msg=short(msg))
            else:
                R.count("unsolicited_progress_failed_transport")
            self.dead = True
            return
        extra = self.rp.recv()
        if extra:
            self.v("call/unsolicited-progress/unexpected-wire-message", "the session sent messages in reaction to it", msgs=short(extra))
        R.count("unsolicited_progress_ignored")
        self.unsolicited_seen = True
        self.check_tables("after unsolicited progress")

    # -- call cancellation ----------------------------------------------------------------------------------------------
    def do_cancel(self, st):
        """The application cancels the pending result of a call: exactly one CANCEL with the call's id goes out (none for a repeated
        cancel), the future completes once - cancelled -, nothing else changes; the call's record stays until the router's terminal reply."""
        R = self.R
        rq = self.reqs.get(st["to"])
        if rq is None or rq.kind != "call" or rq.fut is None or rq.status not in ("pending", "cancelled") or rq.wid is None:
            R.count("skipped_steps")
            return
        again = rq.status == "cancelled"
        snap = self.snap()
        try:
            rq.fut.cancel()
        except Exception as e:
            self.v("call/cancel/raised/%s" % type(e).__name__, "cancel() of the returned future raised %r" % (e,))
            self.dead = True
            return
        self.world_settle()
        msgs = self.rp.recv()
        R.count("cancels_issued")
        cancels = [m for m in msgs if isinstance(m, list) and m and m[0] == 49]
        other = [m for m in msgs if m not in cancels]
        if other:
            self.v("call/cancel/unexpected-wire-message", "cancel() made the session send %s" % short(other))
        if again:
            if cancels:
                self.v("call/cancel/second-CANCEL", "cancelling an already cancelled call sent CANCEL again", msgs=short(cancels))
            self.diff(snap, what="repeated-cancel")
            R.count("repeated_cancels_checked")
        else:
            if len(cancels) != 1:
                self.v("call/cancel/%s" % ("CANCEL-not-sent" if not cancels else "CANCEL-sent-%d-times" % len(cancels)),
                       "expected exactly one CANCEL for the cancelled call, saw %s" % short(msgs))
            else:
                c = cancels[0]
                if len(c) != 3 or not isinstance(c[2], dict) or c[2].get("mode", "kill") not in ("skip", "kill", "killnowait"):
                    self.v("call/cancel/malformed-CANCEL", "CANCEL on the wire is %s" % short(c))
                elif not strict_eq(c[1], rq.wid):
                    self.v("call/cancel/wrong-id", "CANCEL names request %r, the call went out with id %r" % (c[1], rq.wid))
                else:
                    R.count("cancel_messages_compared")
                    R.seen("cancel_modes", str(c[2].get("mode")))
            if self.diff(snap, target=rq.label, completes=1, what="cancel"):
                tag, val = rq.outcome.results[-1]
                if tag != "err" or not ("cancel" in type(val).__name__.lower() or "cancel" in str(val).lower()):
                    self.v("call/cancel/not-cancelled", "after cancel() the future shows %s" % short(rq.outcome.results[-1]))
            rq.status = "cancelled"
        f = self.failed()
        if f:
            self.v("call/cancel/transport-failed", "transport failed on cancel(): %r" % (f,))
            self.dead = True
        self.check_tables("after cancel")

    def do_reply_to_cancelled(self, rq, st):
        """RESULT / ERROR / progressive RESULT for a call the application has cancelled (the reply crossed the CANCEL, or the router does
        not support cancelling): absorbed - the future stays cancelled, nothing else changes, the transport stays up."""
        R = self.R
        mode = st["mode"]
        if mode == "progress" and not (rq.spec.get("opts") or {}).get("on_progress"):
            R.count("skipped_steps")
            return
        msg, args, kwargs = self.build_reply(rq, st)
        what = "reply-%s-after-cancel" % mode
        outstanding = [r for r in self.reqs.values() if r.status == "pending"]
        snap = self.snap()
        self.rp.send(msg)
        self.nontrivial = True
        f = self.failed()
        if f:
            self.v("call/%s/transport-failed" % what, "a reply for a cancelled call failed the transport: %r (outstanding: %s)" % (
                f, sorted(r.kind for r in outstanding)), msg=short(msg))
            self.dead = True
            return
        extra = self.rp.recv()
        if extra:
            self.v("call/%s/unexpected-wire-message" % what, "the session sent messages in reaction to a reply", msgs=short(extra))
        self.diff(snap, what=what, msg=msg, tolerate_progress=(rq.label,) if mode == "progress" else ())
        R.count("replies_to_cancelled_call")
        R.seen("cancelled_call_replies", mode)
        R.count("outstanding_across_reply_to_cancelled", len(outstanding))
        if mode != "progress":
            rq.status = "answered"
            rq.final_msg = msg
            rq.final_mode = mode
            self.cancel_absorbed = True
        self.check_tables("after %s" % what)

    def check_progress(self, rq, args, kwargs, st, opts):
        from autobahn.wamp.types import CallResult
        a, k = rq.progress[-1]
        R = self.R
        R.count("completions_compared")
        if len(rq.progress) != rq.progress_sent:
            self.v("call/reply-progress/order", "progress handler saw %d entries after %d progressive results" % (len(rq.progress), rq.progress_sent))
        if opts.get("details"):
            if len(a) != 1 or k or not isinstance(a[0], CallResult):
                self.v("call/reply-progress/wrong-content/details-form", "on_progress(details=True) received %s %s" % (short(a), short(k)))
                return
            cr = a[0]
            if not strict_eq(list(cr.results), args or []) or not strict_eq(cr.kwresults, kwargs or {}):
                self.v("call/reply-progress/wrong-content/payload", "on_progress got results=%s kwresults=%s, the RESULT carried %s %s" % (
                    short(cr.results), short(cr.kwresults), short(args), short(kwargs)))
        else:
            if not strict_eq(list(a), args or []) or not strict_eq(k, kwargs or {}):
                self.v("call/reply-progress/wrong-content/payload", "on_progress got %s %s, the RESULT carried %s %s" % (
                    short(a), short(k), short(args), short(kwargs)))

    def check_completion(self, rq, mode, args, kwargs, st, opts, msg):
        from autobahn.wamp.exception import ApplicationError
        from autobahn.wamp.types import CallResult
        R = self.R
        R.count("completions_compared")
        if rq.reentrant:
            R.count("reentrant_completions_compared")
        tag, val = rq.outcome.results[-1]
        kind = rq.kind
        base = "%s/reply-%s" % (kind, mode)
        if mode == "error":
            if tag != "err":
                self.v(base + "/resolved-instead-of-rejected", "an ERROR reply resolved the future with %s" % short(val))
                return
            mapped = self.mapped_class(st["error"])
            if mapped is not None:
                # the URI is mapped to an exception class: an instance built from THIS reply's payload (only possible when the payload
                # fits the constructor), or the generic ApplicationError carrying the reply's URI/args/kwargs
                cname, ecls = mapped
                want = self.error_fit(cname, args or [], kwargs or {})
                default = st["error"] not in self.defs
                R.count("mapped_error_replies_compared")
                R.count("mapped_error_fits" if want is not None else "mapped_error_misfits")
                if default:
                    R.count("default_mapped_error_replies")
                R.seen("mapped_error_classes", "%s:%s:%s" % ("library-" + ecls.__name__ if default else cname, "fits" if want is not None else "misfit", kind))
                if isinstance(val, ecls) and not isinstance(val, ApplicationError):
                    got = {"a": list(val.args)} if cname == "plain" else getattr(val, "c04", None)
                    if want is None:
                        self.v(base + "/wrong-content/mapped-class-payload", "%s built although the ERROR's payload %s %s does not fit its constructor: holds %s" % (
                            ecls.__name__, short(args), short(kwargs), short(got)))
                    elif not strict_eq(got, want):
                        self.v(base + "/wrong-content/mapped-class-payload", "%s holds %s, the ERROR carried %s %s (expected %s)" % (
                            ecls.__name__, short(got), short(args), short(kwargs), short(want)))
                    R.count("mapped_class_instances_compared")
                    return
            if not isinstance(val, ApplicationError):
                self.v(base + "/wrong-content/exception-class", "ERROR reply produced %s" % short(val))
                return
            if mapped is not None:
                R.count("mapped_error_generic_compared")
            if val.error != st["error"]:
                self.v(base + "/wrong-content/uri", "ApplicationError.error=%r, the ERROR carried %r" % (val.error, st["error"]))
            if not strict_eq(list(val.args), args or []):
                self.v(base + "/wrong-content/args", "ApplicationError.args=%s, the ERROR carried %s" % (short(val.args), short(args)))
            if not strict_eq(dict(val.kwargs), kwargs or {}):
                self.v(base + "/wrong-content/kwargs", "ApplicationError.kwargs=%s, the ERROR carried %s" % (short(val.kwargs), short(kwargs)))
            return
        if tag != "ok":
            self.v(base + "/rejected-instead-of-resolved", "a success reply rejected the future with %s" % short(val), msg=short(msg))
            return
        if kind == "call":
            a, k = args or [], kwargs or {}
            wrapped = bool(k) or bool(opts.get("details")) or len(a) > 1
            if wrapped:
                if not isinstance(val, CallResult):
                    self.v(base + "/wrong-content/not-CallResult", "expected a CallResult for %s %s (details=%s), got %s" % (
                        short(a), short(k), opts.get("details"), short(val)))
                    return
                if not strict_eq(list(val.results), a) or not strict_eq(val.kwresults, k):
                    self.v(base + "/wrong-content/payload", "CallResult(results=%s, kwresults=%s), the RESULT carried %s %s" % (
                        short(val.results), short(val.kwresults), short(a), short(k)))
                d = st.get("details") or {}
                if opts.get("details") and "callee" in d and val.callee != d["callee"]:
                    self.v(base + "/wrong-content/callee", "CallResult.callee=%r, RESULT.details.callee=%r" % (val.callee, d["callee"]))
            elif len(a) == 1:
                if isinstance(val, CallResult) or not strict_eq(val, a[0]):
                    self.v(base + "/wrong-content/payload", "call returned %s, the RESULT carried the single positional %s" % (short(val), short(a[0])))
            else:
                if val is not None:
                    self.v(base + "/wrong-content/payload", "call returned %s for a RESULT without payload" % short(val))
        elif kind == "publish":
            if getattr(val, "id", None) != st["assigned"]:
                self.v(base + "/wrong-content/publication-id", "Publication.id=%r, PUBLISHED carried %r" % (getattr(val, "id", None), st["assigned"]))
        elif kind in ("subscribe", "register"):
            rq.assigned = st["assigned"]
            rq.obj = val
            uri_attr = "topic" if kind == "subscribe" else "procedure"
            if getattr(val, "id", None) != st["assigned"]:
                self.v(base + "/wrong-content/%s-id" % ("subscription" if kind == "subscribe" else "registration"),
                       "%s.id=%r, the reply carried %r" % (type(val).__name__, getattr(val, "id", None), st["assigned"]))
                rq.obj = None
            elif getattr(val, uri_attr, None) != rq.spec["uri"]:
                self.v(base + "/wrong-content/%s" % uri_attr, "%s.%s=%r, requested %r" % (
                    type(val).__name__, uri_attr, getattr(val, uri_attr, None), rq.spec["uri"]))
            elif not getattr(val, "active", False):
                self.v(base + "/wrong-content/inactive", "%s is not active after the success reply" % type(val).__name__)
            else:
                if kind == "subscribe" and self.attached(rq.assigned, but=rq):
                    self.R.count("shared_subscriptions_established")
                rq.live = True
        # unsubscribe / unregister: success carries no content

    # -- EVENT / INVOCATION --------------------------------------------------------------------
    def inflight_of(self, rq):
        """The pending unsubscribe / unregister request (UNSUBSCRIBE / UNREGISTER sent, not yet answered) for rq, if any."""
        for r in self.reqs.values():
            if r.of is rq and r.status == "pending" and r.wid is not None:
                return r
        return None

    def do_inflight_delivery(self, st, rq, msg, what):
        """EVENT / INVOCATION that the router dispatched before it processed our UNSUBSCRIBE / UNREGISTER: a conforming peer produces
        this interleaving; it must not fail the transport nor touch any other request (whether the detached callable still runs is not
        judged here)."""
        R = self.R
        outstanding = [r for r in self.reqs.values() if r.status == "pending"]
        snap = self.snap()
        self.rp.send(msg)
        self.nontrivial = True
        f = self.failed()
        if f:
            self.v("%s/in-flight-%s/transport-failed" % (what, "unsubscribe" if what == "event" else "unregister"),
                   "%s delivered between %s and its reply failed the transport: %r (outstanding requests: %s)" % (
                       what.upper(), "UNSUBSCRIBE" if what == "event" else "UNREGISTER", f, sorted(r.kind for r in outstanding)), msg=short(msg))
            self.dead = True
            return
        out = self.rp.recv()
        for m in out:
            if isinstance(m, list) and m and m[0] in ALL_REQ_CODES:
                self.v("%s/in-flight/request-message-sent" % what, "the session sent a request message in reaction to it", msg=short(m))
        self.diff(snap, what="in-flight-%s" % what, msg=msg, tolerate_calls=(rq.label,))
        R.count("events_during_unsubscribe" if what == "event" else "invocations_during_unregister")
        R.count("outstanding_across_inflight_delivery", len(outstanding))
        self.inflight_seen = True
        self.check_tables("after in-flight %s" % what)

    def do_event(self, st):
        rq = self.reqs.get(st["sub"])
        if st.get("inflight"):
            if rq is None or rq.kind != "subscribe" or rq.live or rq.assigned is None or self.inflight_of(rq) is None or self.attached(rq.assigned):
                self.R.count("skipped_steps")
                return
            args = [jd(x) for x in st.get("args") or []]
            kwargs = {k: jd(x) for k, x in (st.get("kwargs") or {}).items()}
            msg = [36, rq.assigned, st["pubid"], {}] + ([args, kwargs] if kwargs else ([args] if args else []))
            return self.do_inflight_delivery(st, rq, msg, "event")
        if rq is None or not rq.live or rq.kind != "subscribe":
            self.R.count("skipped_steps")
            return
        args = [jd(x) for x in st.get("args") or []]
        kwargs = {k: jd(x) for k, x in (st.get("kwargs") or {}).items()}
        msg = [36, rq.assigned, st["pubid"], {}] + ([args, kwargs] if kwargs else ([args] if args else []))
        if self.codec is not None and st.get("enc"):
            msg = [36, rq.assigned, st["pubid"], {"enc_algo": ENC_ALGO, "enc_serializer": "cbor"}, enc_pack(rq.spec["uri"], args, kwargs)]
            self.R.count("codec_replies_encoded")
        snap = self.snap()
        if st.get("then") and st["then"]["n"] not in self.reqs:
            self.arm_nested(rq, "handler", st["then"])
        self.deliver(msg)
        if self.failed():
            self.v("event/transport-failed", "an EVENT for a live subscription failed the transport: %r" % (self.failed(),), msg=short(msg))
            self.dead = True
            return
        extra = self.take_nested(self.rp.recv(), "event")
        if extra:
            self.v("event/unexpected-wire-message", "the session sent messages in reaction to an EVENT", msgs=short(extra))
        group = self.attached(rq.assigned)
        if self.diff(snap, calls_for={r.label for r in group}, what="event", msg=msg):
            dnames = {("details" if (r.spec.get("opts") or {}).get("details") else (r.spec.get("opts") or {}).get("details_arg")) for r in group}
            for r in group:
                a, k = r.calls[-1]
                k = dict(k)
                o = r.spec.get("opts") or {}
                # several handlers on one subscription: which handler sees whose details kwarg is property C11's business
                for dname in (dnames if len(group) > 1 else {"details" if o.get("details") else o.get("details_arg")}):
                    if dname and dname not in kwargs:
                        k.pop(dname, None)
                if not strict_eq(list(a), args) or not strict_eq(k, kwargs):
                    self.v("event/wrong-content", "handler got %s %s, EVENT carried %s %s" % (short(a), short(k), short(args), short(kwargs)))
            self.R.count("events_delivered")
            if len(group) > 1:
                self.R.count("events_to_shared_subscription")
        self.check_tables("after event")

    def do_invoke(self, st):
        rq = self.reqs.get(st["reg"])
        if st.get("inflight"):
            if rq is None or rq.kind != "register" or rq.live or rq.assigned is None or self.inflight_of(rq) is None or st["invid"] in self.inv_seen:
                self.R.count("skipped_steps")
                return
            self.inv_seen.add(st["invid"])
            args = [jd(x) for x in st.get("args") or []]
            kwargs = {k: jd(x) for k, x in (st.get("kwargs") or {}).items()}
            msg = [68, st["invid"], rq.assigned, {}] + ([args, kwargs] if kwargs else ([args] if args else []))
            return self.do_inflight_delivery(st, rq, msg, "invocation")
        if rq is None or not rq.live or rq.kind != "register" or st["invid"] in self.inv_seen:
            self.R.count("skipped_steps")
            return
        self.inv_seen.add(st["invid"])
        args = [jd(x) for x in st.get("args") or []]
        kwargs = {k: jd(x) for k, x in (st.get("kwargs") or {}).items()}
        msg = [68, st["invid"], rq.assigned, {}] + ([args, kwargs] if kwargs else ([args] if args else []))
        snap = self.snap()
        if st.get("then") and st["then"]["n"] not in self.reqs:
            self.arm_nested(rq, "handler", st["then"])
        self.deliver(msg)
        if self.failed():
            self.v("invocation/transport-failed", "an INVOCATION for a live registration failed the transport: %r" % (self.failed(),), msg=short(msg))
            self.dead = True
            return
        out = self.take_nested(self.rp.recv(), "invocation")
        for m in out:
            if isinstance(m, list) and m and m[0] in ALL_REQ_CODES:
                self.v("invocation/request-message-sent", "an INVOCATION made the session send a request message", msg=short(m))
        if self.diff(snap, calls_for=rq.label, what="invocation", msg=msg):
            a, k = rq.calls[-1]
            k = dict(k)
            o = rq.spec.get("opts") or {}
            dname = "details" if o.get("details") else o.get("details_arg")
            if dname:
                k.pop(dname, None)
            if not strict_eq(list(a), args) or not strict_eq(k, kwargs):
                self.v("invocation/wrong-content", "endpoint got %s %s, INVOCATION carried %s %s" % (short(a), short(k), short(args), short(kwargs)))
            self.R.count("invocations_delivered")
            if any(isinstance(m, list) and m[:2] == [70, st["invid"]] for m in out):
                self.R.count("yields_seen")
        self.check_tables("after invocation")

    # -- replies that match no pending request ----------------------------------------------------
    def reply_of_kind(self, kind, wid, variant, n):
        """A syntactically valid reply of ``kind`` bearing ``wid``."""
        tag = "viol:%d" % n
        if variant == "error":
            return [8, REQ_CODE[kind], wid, {}, "com.c04.error.violation", [tag]], "error-%s" % kind
        if kind == "call":
            if variant == "progress":
                return [50, wid, {"progress": True}, [tag], {"k": tag}], "result-progress"
            return [50, wid, {}, [tag]], "result"
        if kind in ("publish", "subscribe", "register"):
            return [OK_CODE[kind], wid, 900000 + n], OK_NAME[kind]
        return [OK_CODE[kind], wid], OK_NAME[kind]

    def do_violate(self, st):
        R = self.R
        cls = st["cls"]
        n = st.get("salt", 0)
        if cls == "unknown-id":
            how = st.get("id", "next")
            pend = {r.wid for r in self.reqs.values() if r.status == "pending"}
            wid = {"next": (1 if self.last_id == MAXID else self.last_id + 1), "far": min(MAXID, self.last_id + 1000 + n),
                   "max": MAXID}.get(how, self.last_id + 1)
            if how == "unack":
                # the id of an UNACKNOWLEDGED publish: it went over the wire, but no reply is pending for it
                un = sorted(r.wid for r in self.reqs.values() if r.status == "unack" and r.wid is not None)
                wid = un[n % len(un)] if un else None
            if wid is None or wid in pend or wid in self.orphan_ids or (st["kind"] == "unregister" and wid == 0):
                R.count("skipped_steps")
                return
            msg, rname = self.reply_of_kind(st["kind"], wid, st.get("variant", "ok"), n)
            sub = how
        elif cls == "wrong-type":
            rq = self.reqs.get(st["to"])
            if rq is None or rq.status != "pending" or rq.wid is None or st["kind"] == rq.kind:
                R.count("skipped_steps")
                return
            msg, rname = self.reply_of_kind(st["kind"], rq.wid, st.get("variant", "ok"), n)
            sub = "pending-%s" % rq.kind
        elif cls == "duplicate":
            rq = self.reqs.get(st["to"])
            if rq is None or rq.status != "answered" or rq.final_msg is None:
                R.count("skipped_steps")
                return
            variant = st.get("variant", "same")
            if variant == "same":
                msg = list(rq.final_msg)
                rname = "error-%s" % rq.kind if rq.final_mode == "error" else OK_NAME[rq.kind]
            elif variant == "other-final":
                msg, rname = self.reply_of_kind(rq.kind, rq.wid, "ok" if rq.final_mode == "error" else "error", n)
            else:
                if rq.kind != "call":
                    R.count("skipped_steps")
                    return
                msg, rname = self.reply_of_kind("call", rq.wid, "progress", n)
            sub = "%s-after-%s" % (variant, rq.final_mode)
        else:
            raise ValueError(cls)
        snap = self.snap()
        self.rp.send(msg)
        self.nontrivial = True
        R.seen("violation_variants", "%s/%s/%s" % (cls, rname, sub))
        unchanged = self.diff(snap, what="unmatched-%s" % rname, msg=msg)
        f = self.failed()
        if not unchanged:
            self.v("violation/%s/%s/matched-to-a-request" % (cls, rname), "a reply matching no pending request changed a request's outcome",
                   msg=short(msg), sub=sub)
        if f is None:
            self.v("violation/%s/%s/ignored" % (cls, rname),
                   "a reply matching no pending request (%s) was not treated as a protocol violation: transport still up" % sub, msg=short(msg))
        else:
            R.seen("close_codes", "violation:%s:%s" % (f["how"], f.get("code")))
            if f["how"] == "close-frame" and f["code"] != 1002:
                self.v("violation/%s/%s/wrong-close-code" % (cls, rname), "failed with close code %r instead of 1002 (protocol error): %s" % (
                    f["code"], f.get("reason")), msg=short(msg))
            elif unchanged:
                R.count("violation_" + cls.replace("-", "_"))
        self.dead = True      # nothing more can be asserted on this session

    # -- driver -----------------------------------------------------------------------------------
    def execute(self):
        R = self.R
        R.count("evaluations")
        try:
            self.start()
        except Abort:
            self.finish()
            return
        try:
            for i, st in enumerate(self.case["steps"]):
                self.step_i = i
                if self.dead:
                    break
                op = st["op"]
                if op in REQ_CODE:
                    self.do_request(st)
                elif op in ("subscribe_obj", "register_obj"):
                    self.do_object_request(st)
                elif op == "sendfail":
                    self.do_sendfail(st)
                elif op == "reply":
                    self.do_reply(st)
                elif op == "event":
                    self.do_event(st)
                elif op == "invoke":
                    self.do_invoke(st)
                elif op == "cancel":
                    self.do_cancel(st)
                elif op == "violate":
                    self.do_violate(st)
                else:
                    raise ValueError(op)
                R.count("steps_executed")
            self.step_i = len(self.case["steps"]) - 1 if self.case["steps"] else -1
            if not self.dead:
                self.check_tables("quiescence")
                R.count("quiescence_checks")
        finally:
            self.finish()

    def finish(self):
        R = self.R
        rp = getattr(self, "rp", None)
        if rp is None:
            return
        before = {l: (len(r.outcome.results) if r.outcome else 0) for l, r in self.reqs.items()}
        try:
            rp.teardown()
        finally:
            self.hook.active = False
        for l, r in self.reqs.items():
            if r.outcome is None:
                continue
            n = len(r.outcome.results)
            if n > 1:
                self.v("%s/completed-twice/%s" % (r.kind, "at-teardown" if before[l] < n else "during-session"),
                       "future completed %d times: %s" % (n, short(r.outcome.results)))
            elif n == 1 and before[l] == 0 and r.outcome.results[0][0] == "ok":
                self.v("%s/teardown/resolved-without-reply" % r.kind, "future resolved with %s although no reply was sent" % short(r.outcome.results[0][1]))
            att = self.hook.attempts.get(id(r.fut), 0)
            R.count("attempt_counts_checked")
            if att > 1:
                self.v("%s/second-completion-attempt" % r.kind, "the library tried to complete the same future %d times" % att,
                       results=short(r.outcome.results))
        for grp in self.groups:
            if len(grp.outcome.results) > 1:
                self.v("%s/object-form/completed-twice" % grp.kind, "future of the call completed %d times" % len(grp.outcome.results))
        for o in self.orphans.values():
            if any(tag == "ok" for tag, _ in o.results):
                self.v("send-failure/orphan-record-resolved", "the record kept after a failed send was later resolved with a value: %s" % short(o.results))
        for name, e in list(rp.world.escaped):
            self.v("escaped/%s/%s" % (getattr(e, "where", name).split(":")[0], type(e.exc).__name__), "exception reached the framework: %r" % (e,))
        s = getattr(self, "s", None)
        if s is not None and getattr(s, "user_errors", None):
            # a mapped exception class that cannot be built from an ERROR's payload is reported through onUserError (once per such reply)
            allowed = self.misfit_errors
            unexpected = []
            for msg, val in s.user_errors:
                if allowed > 0 and msg.startswith("While re-constructing exception"):
                    allowed -= 1
                    R.count("mapped_error_construction_failures_reported")
                else:
                    unexpected.append((msg, val))
            for msg, val in unexpected[:3]:
                self.v("user-error/%s" % msg.split(" <")[0][:40], "onUserError fired: %s / %s" % (msg, val))
        if self.nontrivial:
            R.seen("nontrivial", [self.fw, self.cfg, self.case["steps"]])
        R.seen("transports", "%s/%s/%s" % (self.cfg["transport"], self.cfg["serializer"], self.cfg.get("fail_by_drop")))
        rp.close_world()


def execute(case, R, fw):
    Run(R, case, fw).execute()
