"""C10 helper: WAMP-cryptobox payloads made and opened by the HARNESS (the scripted router / remote caller).

Nothing here uses autobahn's KeyRing for a verdict: INVOCATION payloads are sealed and YIELD / ERROR payloads are
opened with PyNaCl directly, with deterministic key material of the harness.  The library's ``KeyRing`` is only
*configured* (``make_keyring``) with the callee's half of that key material and handed to the session under test
through the public ``ApplicationSession.set_payload_codec``.

Inner format (WAMP-cryptobox): ``nonce(24) || secretbox(json({"uri": .., "args": .., "kwargs": ..}))``.
"""

import hashlib
import json

from .wamp_harness import _json_default, _json_unbin

OVERHEAD = 24 + 16      # nonce + MAC
ENC_OPTS = {"enc_algo": "cryptobox", "enc_serializer": "json"}
PREFIX = "com.c10."


def available():
    try:
        import nacl.public  # noqa: F401
        from autobahn.wamp.cryptobox import HAS_CRYPTOBOX
        return bool(HAS_CRYPTOBOX)
    except Exception:
        return False


def _keypair(idx):
    from nacl.encoding import Base64Encoder
    from nacl.public import PrivateKey
    raw = hashlib.blake2b(b"c10-key-%d" % idx, digest_size=32).digest()
    k = PrivateKey(raw)
    return k, k.encode(Base64Encoder).decode("ascii"), k.public_key.encode(Base64Encoder).decode("ascii")


def box(keyid=0):
    """The NaCl box the remote caller (originator of key ``keyid``) shares with the callee."""
    from nacl.public import Box
    o, _, _ = _keypair(2 * keyid)
    r, _, _ = _keypair(2 * keyid + 1)
    return Box(o, r.public_key)


def make_keyring(keys, view):
    """The callee's key ring.  keys: 'default' (one key for every URI) | 'prefix' (a key for 'com.c10.' only, so
    ``wamp.error.*`` replies travel in clear - by design of the key ring); view: 'full' (both private keys, the
    string-key convenience form) | 'resp' (responder private + originator public key only)."""
    from autobahn.wamp.cryptobox import Key, KeyRing
    _, opriv, opub = _keypair(0)
    _, rpriv, _rpub = _keypair(1)
    if view == "full":
        key = Key(originator_priv=opriv, responder_priv=rpriv)
    else:
        key = Key(responder_priv=rpriv, originator_pub=opub)
    if keys == "default":
        return KeyRing(default_key=key)
    kr = KeyRing()
    kr.set_key(PREFIX, key)
    return kr


def inner_dumps(uri, args, kwargs):
    return json.dumps({"uri": uri, "args": args, "kwargs": kwargs}, separators=(",", ":"), ensure_ascii=False,
                      default=_json_default).encode("utf8")


def seal(uri, args, kwargs, nonce_seed, keyid=0):
    nonce = hashlib.blake2b(("c10-nonce-%s" % (nonce_seed,)).encode("utf8"), digest_size=24).digest()
    return bytes(box(keyid).encrypt(inner_dumps(uri, args, kwargs), nonce))


def open_(payload, keyid=0):
    """-> (uri, args, kwargs) of a payload the callee wrote; raises when it cannot be opened."""
    clear = box(keyid).decrypt(bytes(payload))
    o = _json_unbin(json.loads(clear.decode("utf8")))
    if not isinstance(o, dict):
        raise ValueError("inner object is not a dict")
    return o.get("uri"), o.get("args"), o.get("kwargs")


def json_roundtrip(o):
    """What a value looks like after the inner (JSON) serialization; raises when JSON cannot carry it."""
    return _json_unbin(json.loads(json.dumps(o, separators=(",", ":"), ensure_ascii=False, default=_json_default)))
