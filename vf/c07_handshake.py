"""C07 oracle: an independent classifier for WebSocket opening handshakes.

Written from RFC 6455 section 4 (+ section 9.1 / 11.3 for the header registry, RFC 7230 section 3
for the HTTP/1.1 message grammar, RFC 4648 for base64, RFC 7692 for permessage-deflate
parameters) - NOT from the code under test.  Nothing in here imports autobahn.

Three verdict classes (plus ``incomplete``):

``accept``      the octets are a strictly grammar-valid handshake that satisfies every requirement
                of RFC 6455 section 4 and the configured policy -> the endpoint MUST complete it.
``reject``      a required element is missing, duplicated or corrupted in a way the RFC makes
                unambiguously invalid, or the configured policy (version list, origin allow-list,
                connection limit, requested subprotocols, offered extensions) forbids it
                -> the endpoint MUST NOT reach OPEN.
``grey``        anything else: leniencies (``int()`` forms, repeated blanks, obs-fold, bare LF line
                ends, control characters, HTTP/1.2, non-canonical base64 ...).  Either outcome is
                tolerated; only crash-freedom and the post-conditions of an accepted handshake
                are asserted.
``incomplete``  no end of header block under ANY reading (not even bare-LF lines): the endpoint
                must keep waiting (and drop at the opening-handshake timeout), never open.

The rule of thumb is conservative: when in doubt the verdict is ``grey``.
"""

import base64
import hashlib
import re
import string

GUID = "258EAFA5-E914-47DA-95CA-C5AB0DC85B11"

TOKEN_CHARS = frozenset((string.ascii_letters + string.digits + "!#$%&'*+-.^_`|~").encode("ascii"))
_TOKEN_RE = re.compile(r"^[A-Za-z0-9!#$%&'*+\-.^_`|~]+$")

# anomalies that make the *structure* of the header block ambiguous (a lenient reader may see other
# header fields than a strict one) -> such inputs are never classified accept/reject
STRUCTURAL = frozenset(["bare-cr", "bare-lf", "ctl", "obs-fold", "no-colon", "bad-name", "bad-start-line", "obs-text-hs"])

# header fields the handshake looks at: obs-text (octets >= 0x80) INSIDE one of them is a leniency zone (str.strip() also
# strips NBSP/NEL, .lower() on Latin-1 letters ...) -> grey.  obs-text in any OTHER field is legal field-content (RFC 7230
# 3.2.6) and must not change how the handshake fields are read, so the verdict stands.
HS_FIELDS = frozenset(["host", "upgrade", "connection", "origin", "sec-websocket-key", "sec-websocket-version",
                       "sec-websocket-protocol", "sec-websocket-extensions", "sec-websocket-origin", "sec-websocket-accept",
                       "x-forwarded-for", "content-length", "transfer-encoding"])

KNOWN_PMCE = frozenset(["permessage-deflate", "permessage-bzip2", "permessage-snappy", "permessage-brotli"])


def accept_digest(key):
    """RFC 6455 4.2.2 item 5.4: base64(SHA-1(key + GUID)), key taken verbatim (OWS stripped)."""
    return base64.b64encode(hashlib.sha1((key + GUID).encode("latin-1")).digest()).decode("ascii")


def is_token(s):
    return bool(_TOKEN_RE.match(s))


class Verdict:
    __slots__ = ("cls", "reasons", "grey", "anomalies", "info")

    def __init__(self, cls, reasons=(), grey=(), anomalies=(), info=None):
        self.cls = cls
        self.reasons = list(reasons)      # reject reasons (mechanism slugs)
        self.grey = list(grey)            # grey reasons
        self.anomalies = sorted(anomalies)
        self.info = info or {}

    def __repr__(self):
        return "Verdict(%s reject=%s grey=%s anomalies=%s)" % (self.cls, self.reasons, self.grey, self.anomalies)


class Head:
    """Strict split of an HTTP/1.1 message head: lines end in CRLF and only in CRLF."""

    def __init__(self, data):
        k = data.find(b"\r\n\r\n")
        self.complete = k >= 0
        self.anomalies = set()
        self.start = ""
        self.headers = []        # (lower-name, value with OWS stripped), in order
        self.rest = b""
        if not self.complete:
            return
        head = data[:k]
        self.rest = data[k + 4:]
        lines = head.split(b"\r\n")
        for c in head:
            if c >= 0x80:
                self.anomalies.add("obs-text")
            elif c == 0x0D or c == 0x0A:
                pass
            elif (c < 0x20 and c != 0x09) or c == 0x7F:
                self.anomalies.add("ctl")
        for ln in lines:
            if b"\r" in ln:
                self.anomalies.add("bare-cr")
            if b"\n" in ln:
                self.anomalies.add("bare-lf")
        self.start = lines[0].decode("latin-1")
        for ln in lines[1:]:
            if ln[:1] in (b" ", b"\t"):
                self.anomalies.add("obs-fold")
                continue
            i = ln.find(b":")
            if i < 0:
                self.anomalies.add("no-colon")
                continue
            name = ln[:i]
            if not name or any(c not in TOKEN_CHARS for c in name):
                self.anomalies.add("bad-name")
            lname = name.decode("latin-1").lower()
            if lname in HS_FIELDS and any(c >= 0x80 for c in ln):
                self.anomalies.add("obs-text-hs")
            self.headers.append((lname, ln[i + 1:].strip(b" \t").decode("latin-1")))
        if any(c >= 0x80 for c in lines[0]):
            self.anomalies.add("obs-text-hs")

    def values(self, name):
        return [v for (n, v) in self.headers if n == name]

    def list_elements(self, name):
        """Elements of a #list header, all field lines combined (RFC 7230 3.2.2)."""
        out = []
        for v in self.values(name):
            out.extend(x.strip(" \t") for x in v.split(","))
        return out


def has_lenient_end_of_head(data):
    """True when some reader that also accepts bare LF as line end could see an empty line."""
    return b"\n\n" in data or b"\n\r\n" in data


def glob_match(pattern, s):
    """Whole-string match; '*' = any (possibly empty) sequence; everything else literal."""
    parts = pattern.split("*")
    if len(parts) == 1:
        return pattern == s
    if not s.startswith(parts[0]):
        return False
    pos = len(parts[0])
    for p in parts[1:-1]:
        i = s.find(p, pos)
        if i < 0:
            return False
        pos = i + len(p)
    last = parts[-1]
    return len(s) - len(last) >= pos and s.endswith(last)


_HOST = r"(?:[a-z0-9](?:[a-z0-9\-]*[a-z0-9])?)(?:\.[a-z0-9](?:[a-z0-9\-]*[a-z0-9])?)*"
_ORIGIN_RE = re.compile(r"^(http|https)://(" + _HOST + r")(?::([1-9][0-9]{0,4}))?$")
_HOSTHDR_RE = re.compile(r"^(?:(" + _HOST + r")|\[([0-9a-f:.]+)\])(?::([0-9]{1,5}))?$", re.I)


def normalize_origin(origin):
    """Strictly serialized web origin (RFC 6454 6.2: scheme://host[:port], lower case) ->
    'scheme://host:port' with the default port made explicit (documented matching form of the
    allow-list), or None when the value is not such a serialization."""
    m = _ORIGIN_RE.match(origin)
    if not m:
        return None
    scheme, host, port = m.group(1), m.group(2), m.group(3)
    if port is None:
        port = {"http": "80", "https": "443"}[scheme]
    elif int(port) > 65535:
        return None
    return "%s://%s:%s" % (scheme, host, port)


def origin_has_host(o):
    """RFC 3986 reading: does the value carry an authority with a non-empty host ('scheme://host...' or '//host...')?"""
    m = re.match(r"^[A-Za-z][A-Za-z0-9+.\-]*:(.*)$", o, re.S)
    rest = m.group(1) if m else o
    m2 = re.match(r"^//([^/?#]*)", rest)
    if not m2:
        return False
    host = m2.group(1).rsplit("@", 1)[-1]
    if not host.startswith("["):
        host = re.sub(r":[^:]*$", "", host) if ":" in host else host
    return host.strip() not in ("", "[]")


def allow_list_is_restricted(patterns):
    """Every pattern names (part of) a host literally - i.e. none is a catch-all like '*' or '*://*:*'."""
    for p_ in patterns:
        hostpart = p_.split("://", 1)[-1]
        hostpart = hostpart.rsplit(":", 1)[0] if ":" in hostpart else hostpart
        if not re.search(r"[A-Za-z0-9]", hostpart):
            return False
    return bool(patterns)


def key_class(value):
    """'ok' | 'grey' | 'bad' for a Sec-WebSocket-Key value: base64 of exactly 16 octets."""
    if re.match(r"^[A-Za-z0-9+/]{22}==$", value):
        # 22 chars carry 132 bits: the low 4 bits of the last one are padding bits
        return "ok" if value[21] in "AQgw" else "grey"
    return "bad"


def parse_extensions(elements):
    """-> (list of (name_lower, [(param_lower, value|None)]), well_formed)"""
    out, ok = [], True
    for e in elements:
        if e == "":
            ok = False
            continue
        parts = [p.strip(" \t") for p in e.split(";")]
        name = parts[0]
        if not is_token(name):
            ok = False
        params = []
        for p in parts[1:]:
            if "=" in p:
                k, v = p.split("=", 1)
                k, v = k.strip(" \t"), v.strip(" \t")
                if len(v) >= 2 and v[0] == '"' and v[-1] == '"':
                    v = v[1:-1]
                if not is_token(k) or not is_token(v):
                    ok = False
                params.append((k.lower(), v))
            else:
                if not is_token(p):
                    ok = False
                params.append((p.lower(), None))
        out.append((name.lower(), params))
    return out, ok


def _pmd_params_valid(params, is_response, offered_client_bits=True):
    """RFC 7692 section 7: parameter names/values of permessage-deflate."""
    seen = set()
    for k, v in params:
        if k in seen:
            return False
        seen.add(k)
        if k in ("server_no_context_takeover", "client_no_context_takeover"):
            if v is not None:
                return False
        elif k == "server_max_window_bits":
            if v is None or not re.match(r"^(9|1[0-5])$", v):     # 8 is legal in the RFC but a known zlib trap: grey
                return False
        elif k == "client_max_window_bits":
            if is_response:
                if v is None or not re.match(r"^(9|1[0-5])$", v) or not offered_client_bits:
                    return False
            elif v is not None and not re.match(r"^(9|1[0-5])$", v):
                return False
        else:
            return False
    return True


# ------------------------------------------------------------------------------------------------
# server side: classify a client request
# ------------------------------------------------------------------------------------------------

class ServerCfg:
    def __init__(self, versions=(8, 13), allowed_origins=("*",), allow_null_origin=True, max_connections=0,
                 conn_index=1, external_port=None, web_status=True):
        self.versions = list(versions)
        self.allowed_origins = list(allowed_origins)
        self.allow_null_origin = allow_null_origin
        self.max_connections = max_connections
        self.conn_index = conn_index          # number of transport connections of the factory incl. this one
        self.external_port = external_port
        self.web_status = web_status

    def to_json(self):
        return dict(self.__dict__)

    @classmethod
    def from_json(cls, d):
        c = cls()
        c.__dict__.update(d)
        return c


_REQLINE_RE = re.compile(r"^([A-Za-z0-9!#$%&'*+\-.^_`|~]+) ([^ \t]+) HTTP/([0-9])\.([0-9])$")


def classify_request(data, cfg):
    if b"\r\n\r\n" not in data:
        if has_lenient_end_of_head(data):
            return Verdict("grey", grey=["bare-lf-end-of-head"])
        return Verdict("incomplete")
    h = Head(data)
    reject, grey = [], []
    info = {"key": None, "protocols": [], "ext_names": set(), "version": None, "rest": h.rest, "origin_norm": None}

    # ---- request line (RFC 6455 4.1 item 2, 4.2.1 item 1)
    m = _REQLINE_RE.match(h.start)
    if not m:
        h.anomalies.add("bad-start-line")
    else:
        method, target, vmaj, vmin = m.group(1), m.group(2), int(m.group(3)), int(m.group(4))
        if method != "GET":
            reject.append("method")
        if (vmaj, vmin) < (1, 1):
            reject.append("http-version")
        elif (vmaj, vmin) > (1, 1):
            grey.append("http-version-above-1.1")
        if not target.startswith("/"):
            grey.append("target-not-origin-form")
        elif "#" in target:
            grey.append("target-fragment")
        elif not re.match(r"^[A-Za-z0-9\-._~!$&'()*+,;=:@/?%]*$", target) or re.search(r"%(?![0-9A-Fa-f]{2})", target):
            grey.append("target-chars")

    # ---- Host (4.1 item 4, 4.2.1 item 2; RFC 7230 5.4: exactly one)
    hosts = h.values("host")
    if len(hosts) == 0:
        reject.append("host-missing")
    elif len(hosts) > 1:
        reject.append("host-duplicate")
    else:
        hm = _HOSTHDR_RE.match(hosts[0])
        if not hm:
            grey.append("host-syntax")
        elif hm.group(3) is not None:
            port = int(hm.group(3))
            if port > 65535:
                grey.append("host-port-range")
            elif cfg.external_port and port != cfg.external_port:
                grey.append("host-port-vs-externalPort")

    # ---- Upgrade (4.2.1 item 3)
    ups = h.list_elements("upgrade")
    if not h.values("upgrade"):
        reject.append("upgrade-missing")
    elif not any(u.lower() == "websocket" for u in ups):
        if any(u.lower().startswith("websocket/") for u in ups):
            grey.append("upgrade-with-version")
        else:
            reject.append("upgrade-no-websocket")
    elif not all(is_token(u) or re.match(r"^[^/\s]+/[^/\s]+$", u) for u in ups):
        grey.append("upgrade-list-syntax")

    # ---- Connection (4.2.1 item 4)
    cons = h.list_elements("connection")
    if not h.values("connection"):
        reject.append("connection-missing")
    elif not any(c.lower() == "upgrade" for c in cons):
        reject.append("connection-no-upgrade")
    elif not all(is_token(c) for c in cons):
        grey.append("connection-list-syntax")

    # ---- Sec-WebSocket-Key (4.2.1 item 5, 11.3.1: MUST NOT appear more than once)
    keys = h.values("sec-websocket-key")
    if len(keys) == 0:
        reject.append("key-missing")
    elif len(keys) > 1:
        reject.append("key-duplicate")
    else:
        kc = key_class(keys[0])
        if kc == "bad":
            reject.append("key-invalid")
        elif kc == "grey":
            grey.append("key-non-canonical")
        info["key"] = keys[0]

    # ---- Sec-WebSocket-Version (4.2.1 item 6, 4.4)
    vers = h.values("sec-websocket-version")
    version = None
    if len(vers) == 0:
        reject.append("version-missing")
    elif len(vers) > 1:
        grey.append("version-duplicate")
    else:
        v = vers[0]
        if re.match(r"^(0|[1-9][0-9]{0,2})$", v):
            version = int(v)
            if version not in cfg.versions:
                reject.append("version-unsupported")
        elif re.search(r"[0-9]", v):
            grey.append("version-lenient-form")
        else:
            reject.append("version-garbage")
    info["version"] = version

    # ---- Sec-WebSocket-Protocol (4.1 item 10: non-empty unique tokens; 11.3.4: may be split)
    if h.values("sec-websocket-protocol"):
        pr = h.list_elements("sec-websocket-protocol")
        nonempty = [p for p in pr if p != ""]
        if len(nonempty) != len(pr):
            grey.append("protocol-empty-element")
        if not all(is_token(p) for p in nonempty):
            grey.append("protocol-not-token")
        if len(set(nonempty)) != len(nonempty):
            reject.append("protocol-duplicate")
        info["protocols"] = nonempty

    # ---- Origin policy (4.2.1 item 7, 4.2.2 item 4 + configured allow-list)
    if version is not None:
        oname = "origin" if version >= 13 else "sec-websocket-origin"
        origins = h.values(oname)
        if len(origins) > 1:
            grey.append("origin-duplicate")
        elif len(origins) == 1:
            o = origins[0]
            if o == "null":
                if not cfg.allow_null_origin:
                    reject.append("origin-null-not-allowed")
            else:
                norm = normalize_origin(o)
                info["origin_norm"] = norm
                if norm is None:
                    if o.strip(" \t") == "" or o.lower() == "null" or o.lower().startswith("file:"):
                        # empty (as good as absent), other spellings of null, file: URLs (documented as the null origin)
                        grey.append("origin-syntax")
                    elif not origin_has_host(o) and allow_list_is_restricted(cfg.allowed_origins):
                        # a value WITHOUT a host cannot be matched "as a whole" against scheme://host:port patterns that name a
                        # host; only the literal "null" goes through allowNullOrigin
                        reject.append("origin-hostless-not-allowed")
                    else:
                        grey.append("origin-syntax")
                elif not any(glob_match(p, norm) for p in cfg.allowed_origins):
                    reject.append("origin-not-allowed")

    # ---- Sec-WebSocket-Extensions (9.1: may be split over several field lines)
    if h.values("sec-websocket-extensions"):
        exts, ok = parse_extensions(h.list_elements("sec-websocket-extensions"))
        if not ok:
            grey.append("extensions-syntax")
        if len(h.values("sec-websocket-extensions")) > 1:
            # RFC 6455 9.1/11.3.2 allow the split, section 4 (the property's scope) is silent: not asserted
            grey.append("extensions-split-header")
        for name, params in exts:
            info["ext_names"].add(name)
            if name in KNOWN_PMCE:
                if name != "permessage-deflate" or not _pmd_params_valid(params, False):
                    grey.append("pmce-params")

    # ---- message body indications on a GET: not generated by the must-accept workload
    if h.values("content-length") or h.values("transfer-encoding"):
        grey.append("request-body")

    # ---- connection limit (configured policy)
    if cfg.max_connections > 0 and cfg.conn_index > cfg.max_connections:
        reject.append("max-connections")

    info["ext_names"] = sorted(info["ext_names"])
    if h.anomalies & STRUCTURAL:
        return Verdict("grey", reject, grey + sorted(h.anomalies & STRUCTURAL), h.anomalies, info)
    if reject:
        return Verdict("reject", reject, grey, h.anomalies, info)
    if grey or h.anomalies:
        return Verdict("grey", reject, grey + sorted(h.anomalies), h.anomalies, info)
    return Verdict("accept", info=info)


def check_server_response(out, req_verdict):
    """Post-conditions of an accepted handshake (RFC 6455 4.2.2 item 5) on the octets the server
    wrote.  Returns a list of (clause, text); empty = fine."""
    problems = []
    h = Head(out)
    if not h.complete:
        return [("response-incomplete", repr(out[:80]))]
    if h.anomalies:
        problems.append(("response-not-strict-http", ",".join(sorted(h.anomalies))))
    if not re.match(r"^HTTP/1\.1 101( .*)?$", h.start):
        problems.append(("status-line", h.start[:80]))
    if [u.lower() for u in h.list_elements("upgrade")] != ["websocket"]:
        problems.append(("upgrade-header", repr(h.values("upgrade"))))
    if not any(c.lower() == "upgrade" for c in h.list_elements("connection")):
        problems.append(("connection-header", repr(h.values("connection"))))
    acc = h.values("sec-websocket-accept")
    info = req_verdict.info
    structural = bool(set(req_verdict.anomalies) & STRUCTURAL)
    if len(acc) != 1:
        problems.append(("accept-count", repr(acc)))
    elif info.get("key") is not None and not structural:
        want = accept_digest(info["key"])
        if acc[0] != want:
            problems.append(("wrong-accept", "got %r want %r" % (acc[0], want)))
    pr = h.values("sec-websocket-protocol")
    if len(pr) > 1:
        problems.append(("protocol-count", repr(pr)))
    elif len(pr) == 1 and not structural and pr[0] not in info.get("protocols", []):
        problems.append(("protocol-not-offered", "%r not in %r" % (pr[0], info.get("protocols"))))
    ex = h.values("sec-websocket-extensions")
    if len(ex) > 1:
        problems.append(("extensions-count", repr(ex)))
    elif len(ex) == 1 and not structural:
        exts, ok = parse_extensions(h.list_elements("sec-websocket-extensions"))
        if not ok:
            problems.append(("extensions-syntax", ex[0]))
        for name, _ in exts:
            if name not in info.get("ext_names", []):
                problems.append(("extension-not-offered", "%r not in %r" % (name, info.get("ext_names"))))
    return problems


# ------------------------------------------------------------------------------------------------
# client side: classify a server response
# ------------------------------------------------------------------------------------------------

class ClientCfg:
    def __init__(self, key="", protocols=(), offered=(), offered_client_bits=False, approves=False):
        self.key = key
        self.protocols = list(protocols)
        self.offered = list(offered)                  # extension names the client offered (lower case)
        self.offered_client_bits = offered_client_bits
        self.approves = approves                      # the client's accept policy approves a permessage-deflate response

    def to_json(self):
        return dict(self.__dict__)

    @classmethod
    def from_json(cls, d):
        c = cls()
        c.__dict__.update(d)
        return c


_STATUS_RE = re.compile(r"^HTTP/([0-9])\.([0-9]) ([0-9]{3})( [\t \x21-\x7e\x80-\xff]*)?$")


def classify_response(data, cfg):
    if b"\r\n\r\n" not in data:
        if has_lenient_end_of_head(data):
            return Verdict("grey", grey=["bare-lf-end-of-head"])
        return Verdict("incomplete")
    h = Head(data)
    reject, grey = [], []
    info = {"protocol": None, "ext_names": [], "rest": h.rest}

    # ---- status line (4.1: "If the status code received from the server is not 101 ...")
    m = _STATUS_RE.match(h.start)
    if not m:
        h.anomalies.add("bad-start-line")
    else:
        if m.group(3) != "101":
            reject.append("status-not-101")
        if (int(m.group(1)), int(m.group(2))) != (1, 1):
            grey.append("http-version-not-1.1")
        if m.group(4) is None:
            grey.append("status-line-without-sp-reason")

    # ---- Upgrade (4.1 item 2): lacking, or a value that is not "websocket"
    ups = h.values("upgrade")
    if len(ups) == 0:
        reject.append("upgrade-missing")
    elif len(ups) == 1 and ups[0].lower() == "websocket":
        pass
    elif any(u.lower() == "websocket" for u in h.list_elements("upgrade")):
        grey.append("upgrade-list")
    elif any(u.lower().startswith("websocket/") for u in h.list_elements("upgrade")):
        grey.append("upgrade-with-version")
    else:
        reject.append("upgrade-not-websocket")

    # ---- Connection (4.1 item 3): lacking, or no "Upgrade" token
    cons = h.list_elements("connection")
    if not h.values("connection"):
        reject.append("connection-missing")
    elif not any(c.lower() == "upgrade" for c in cons):
        reject.append("connection-no-upgrade")
    elif not all(is_token(c) for c in cons):
        grey.append("connection-list-syntax")

    # ---- Sec-WebSocket-Accept (4.1 item 4, 11.3.3: MUST NOT appear more than once)
    acc = h.values("sec-websocket-accept")
    if len(acc) == 0:
        reject.append("accept-missing")
    elif len(acc) > 1:
        reject.append("accept-duplicate")
    elif acc[0] != accept_digest(cfg.key):
        reject.append("accept-wrong")

    # ---- Sec-WebSocket-Extensions (4.1 item 5 + accept policy of the property statement)
    exh = h.values("sec-websocket-extensions")
    if len(exh) > 1:
        grey.append("extensions-duplicate-header")
    if exh:
        exts, ok = parse_extensions(h.list_elements("sec-websocket-extensions"))
        if not ok:
            grey.append("extensions-syntax")
        names = [n for n, _ in exts]
        info["ext_names"] = names
        if len(set(names)) != len(names):
            if any(names.count(n) > 1 and n in KNOWN_PMCE for n in names):
                # one connection has ONE compression configuration (RFC 7692 section 5: the server accepts at most one PMCE offer);
                # the property: "no extension other than a compression extension its accept policy approved"
                reject.append("extension-duplicate")
            else:
                grey.append("extension-repeated")
        for name, params in exts:
            if name not in KNOWN_PMCE:
                reject.append("extension-unknown")
            elif name not in cfg.offered:
                if cfg.approves and name == "permessage-deflate":
                    grey.append("extension-approved-but-not-offered")
                else:
                    reject.append("extension-not-offered")
            elif not cfg.approves:
                reject.append("extension-declined-by-policy")
            elif name != "permessage-deflate" or not _pmd_params_valid(params, True, cfg.offered_client_bits):
                grey.append("pmce-params")

    # ---- Sec-WebSocket-Protocol (4.1 item 6)
    prs = h.values("sec-websocket-protocol")
    if len(prs) > 1:
        grey.append("protocol-duplicate-header")
    elif len(prs) == 1:
        p = prs[0]
        if p == "":
            grey.append("protocol-empty")
        elif p in cfg.protocols:
            info["protocol"] = p
        elif not is_token(p):
            grey.append("protocol-not-token")          # e.g. a list "a, b"
        elif p.lower() in [x.lower() for x in cfg.protocols]:
            grey.append("protocol-case")
        else:
            reject.append("protocol-not-requested")

    if h.values("content-length") or h.values("transfer-encoding"):
        grey.append("response-body")

    if h.anomalies & STRUCTURAL:
        return Verdict("grey", reject, grey + sorted(h.anomalies & STRUCTURAL), h.anomalies, info)
    if reject:
        return Verdict("reject", reject, grey, h.anomalies, info)
    if grey or h.anomalies:
        return Verdict("grey", reject, grey + sorted(h.anomalies), h.anomalies, info)
    return Verdict("accept", info=info)


# ------------------------------------------------------------------------------------------------
# client request versus its URL (RFC 6455 section 3 + 4.1 items 2 and 4)
# ------------------------------------------------------------------------------------------------

def check_client_request(req, host, port, path, query, secure=False):
    """``host``/``port``/``path``/``query`` are the COMPONENTS the URL was built from (port None =
    default, path '' = empty, query None = absent).  Returns list of (clause, text)."""
    problems = []
    h = Head(req)
    if not h.complete:
        return [("request-incomplete", repr(req[:80]))]
    m = _REQLINE_RE.match(h.start)
    want_target = (path or "/") + ("?" + query if query else "")
    if not m:
        problems.append(("request-line", h.start[:100]))
    elif m.group(2) != want_target:
        problems.append(("request-target", "got %r want %r" % (m.group(2), want_target)))
    eff_port = port if port is not None else (443 if secure else 80)
    hosts = h.values("host")
    if len(hosts) != 1:
        problems.append(("host-count", repr(hosts)))
    else:
        hm = _HOSTHDR_RE.match(hosts[0])
        is_v6 = ":" in host
        if not hm:
            problems.append(("host-ipv6-unbracketed" if is_v6 else "host-syntax", "Host: %r for host %r" % (hosts[0], host)))
        else:
            got_host = hm.group(2) if hm.group(2) is not None else hm.group(1)
            if (hm.group(2) is not None) != is_v6 or got_host.lower() != host.lower():
                problems.append(("host-name", "Host: %r for host %r" % (hosts[0], host)))
            if hm.group(3) is None:
                if eff_port != (443 if secure else 80):
                    problems.append(("host-port-missing", "Host: %r for port %r" % (hosts[0], eff_port)))
            elif int(hm.group(3)) != eff_port:
                problems.append(("host-port", "Host: %r for port %r" % (hosts[0], eff_port)))
    return problems


# ------------------------------------------------------------------------------------------------

def selfcheck():
    # RFC 6455 section 1.2 / 1.3 examples
    assert accept_digest("dGhlIHNhbXBsZSBub25jZQ==") == "s3pPLMBiTxaQ9kYGzzhZRbK+xOo="
    req = (b"GET /chat HTTP/1.1\r\nHost: server.example.com\r\nUpgrade: websocket\r\nConnection: Upgrade\r\n"
           b"Sec-WebSocket-Key: dGhlIHNhbXBsZSBub25jZQ==\r\nOrigin: http://example.com\r\n"
           b"Sec-WebSocket-Protocol: chat, superchat\r\nSec-WebSocket-Version: 13\r\n\r\n")
    v = classify_request(req, ServerCfg())
    assert v.cls == "accept", v
    assert v.info["protocols"] == ["chat", "superchat"] and v.info["key"] == "dGhlIHNhbXBsZSBub25jZQ=="
    assert classify_request(req, ServerCfg(versions=[8])).reasons == ["version-unsupported"]
    assert classify_request(req, ServerCfg(allowed_origins=["http://example.com:80"])).cls == "accept"
    assert classify_request(req, ServerCfg(allowed_origins=["http://example.com:8080"])).reasons == ["origin-not-allowed"]
    assert classify_request(req, ServerCfg(allowed_origins=["*://*.example.com:*"])).reasons == ["origin-not-allowed"]
    assert classify_request(req.replace(b"GET", b"POST"), ServerCfg()).reasons == ["method"]
    assert classify_request(req.replace(b"HTTP/1.1", b"HTTP/1.0"), ServerCfg()).reasons == ["http-version"]
    assert classify_request(req.replace(b"Version: 13", b"Version: 1_3"), ServerCfg()).cls == "grey"
    assert classify_request(req.replace(b"\r\n", b"\n"), ServerCfg()).cls == "grey"
    assert classify_request(req[:-1], ServerCfg()).cls == "incomplete"
    assert classify_request(req.replace(b"Upgrade: websocket\r\n", b"X: a\x85Upgrade: websocket\r\n"), ServerCfg()).reasons == ["upgrade-missing"]
    assert classify_request(req.replace(b"Upgrade: websocket\r\n", b"X: a\nUpgrade: websocket\r\n"), ServerCfg()).cls == "grey"
    assert classify_request(req.replace(b"ZQ==", b"ZQ="), ServerCfg()).reasons == ["key-invalid"]
    assert classify_request(req.replace(b"superchat", b"chat"), ServerCfg()).reasons == ["protocol-duplicate"]
    resp = (b"HTTP/1.1 101 Switching Protocols\r\nUpgrade: websocket\r\nConnection: Upgrade\r\n"
            b"Sec-WebSocket-Accept: s3pPLMBiTxaQ9kYGzzhZRbK+xOo=\r\nSec-WebSocket-Protocol: chat\r\n\r\n")
    cc = ClientCfg(key="dGhlIHNhbXBsZSBub25jZQ==", protocols=["chat", "superchat"])
    assert classify_response(resp, cc).cls == "accept"
    assert classify_response(resp, ClientCfg(key="dGhlIHNhbXBsZSBub25jZQ==")).reasons == ["protocol-not-requested"]
    assert classify_response(resp.replace(b"101", b"200"), cc).reasons == ["status-not-101"]
    assert classify_response(resp.replace(b"xOo=", b"xOo"), cc).reasons == ["accept-wrong"]
    assert check_server_response(resp, v) == []
    assert check_server_response(resp.replace(b"chat", b"other"), v)[0][0] == "protocol-not-offered"
    assert glob_match("*://*.good.com:*", "http://a.good.com:80") and not glob_match("*://*.good.com:*", "http://a.good.com.evil.com:80")
    assert not glob_match("http://good.com:80", "http://good.com:8080") and not glob_match("http://good.com:80", "http://evilgood.com:80")
    restricted = ServerCfg(allowed_origins=["http://example.com:80"])
    for bad in ("evil.example.com", "https://", "https:evil.example.com", "//", "about:blank", "xyz", "http://:80", ":80"):
        assert classify_request(req.replace(b"http://example.com", bad.encode()), restricted).reasons == ["origin-hostless-not-allowed"], bad
        assert classify_request(req.replace(b"http://example.com", bad.encode()), ServerCfg()).cls == "grey", bad
    for g in ("NULL", "file:///x", "//example.com", "http://Example.com"):
        assert classify_request(req.replace(b"http://example.com", g.encode()), restricted).cls == "grey", g
    assert allow_list_is_restricted(["*://*.good.com:*"]) and not allow_list_is_restricted(["*"]) and not allow_list_is_restricted(["x://a:1", "*://*:*"])
    cc2 = ClientCfg(key="dGhlIHNhbXBsZSBub25jZQ==", protocols=["chat"], offered=["permessage-deflate"], approves=True)
    ext = lambda v: resp.replace(b"\r\n\r\n", b"\r\nSec-WebSocket-Extensions: " + v + b"\r\n\r\n")     # noqa: E731
    assert classify_response(ext(b"permessage-deflate"), cc2).cls == "accept"
    assert classify_response(ext(b"permessage-deflate, x-webkit-deflate-frame"), cc2).reasons == ["extension-unknown"]
    assert classify_response(ext(b"permessage-deflate, permessage-bzip2"), cc2).reasons == ["extension-not-offered"]
    assert classify_response(ext(b"permessage-deflate, permessage-deflate"), cc2).reasons == ["extension-duplicate"]
    assert check_client_request(req, "server.example.com", None, "/chat", None) == []
    assert check_client_request(req, "server.example.com", 9000, "/chat", None)[0][0] == "host-port-missing"
    assert check_client_request(req, "server.example.com", None, "/chat;v=1", None)[0][0] == "request-target"
    return True
