"""Independent RFC 6455 reference: frame codec, strict sender-side parser, receiver judge,
close-code table, opening-handshake helpers.  Written from the RFC, not from the code.

Nothing in here imports autobahn.
"""

import base64
import hashlib
import os
import struct

GUID = b"258EAFA5-E914-47DA-95CA-C5AB0DC85B11"

OP_CONT, OP_TEXT, OP_BIN, OP_CLOSE, OP_PING, OP_PONG = 0, 1, 2, 8, 9, 10
DATA_OPS = (OP_TEXT, OP_BIN)
CONTROL_OPS = (OP_CLOSE, OP_PING, OP_PONG)


def accept_key(key):
    if isinstance(key, str):
        key = key.encode("ascii")
    return base64.b64encode(hashlib.sha1(key + GUID).digest()).decode("ascii")


def xor_mask(data, key, offset=0):
    return bytes(b ^ key[(offset + i) & 3] for i, b in enumerate(data))


def encode_frame(opcode, payload=b"", fin=True, rsv=0, mask=None, length_form=None, declared_length=None):
    """Build one frame.  ``length_form`` in (None=minimal, 7, 16, 64) allows non-minimal encodings;
    ``declared_length`` allows the header to lie about the payload size (payload is sent verbatim)."""
    b0 = (0x80 if fin else 0) | ((rsv & 7) << 4) | (opcode & 0x0F)
    n = len(payload) if declared_length is None else declared_length
    if length_form is None:
        length_form = 7 if n <= 125 else (16 if n <= 0xFFFF else 64)
    mbit = 0x80 if mask is not None else 0
    if length_form == 7:
        hdr = bytes([b0, mbit | (n & 0x7F)])
    elif length_form == 16:
        hdr = bytes([b0, mbit | 126]) + struct.pack("!H", n & 0xFFFF)
    else:
        hdr = bytes([b0, mbit | 127]) + struct.pack("!Q", n & 0xFFFFFFFFFFFFFFFF)
    if mask is not None:
        return hdr + bytes(mask) + xor_mask(payload, mask)
    return hdr + payload


def close_payload(code=None, reason=b""):
    if code is None:
        return b""
    if isinstance(reason, str):
        reason = reason.encode("utf-8")
    return struct.pack("!H", code) + reason


# Close codes that may appear in a close frame on the wire (RFC 6455 7.4 + IANA registry).
# 1012-1014 are grey: RFC 6455 reserves them, IANA assigned them later.
def close_code_class(code):
    """-> 'valid' | 'invalid' | 'grey'"""
    if code in (1000, 1001, 1002, 1003, 1007, 1008, 1009, 1010, 1011):
        return "valid"
    if code in (1012, 1013, 1014):
        return "grey"
    if 3000 <= code <= 4999:
        return "valid"
    return "invalid"    # <1000, 1004, 1005, 1006, 1015, 1016-2999, >=5000


class Frame:
    __slots__ = ("fin", "rsv", "opcode", "masked", "mask", "length", "length_form", "payload", "raw_payload", "start", "end")

    def __repr__(self):
        return "Frame(fin=%d rsv=%d op=%d masked=%d len=%d)" % (self.fin, self.rsv, self.opcode, self.masked, self.length)

    def to_json(self):
        return {"fin": self.fin, "rsv": self.rsv, "op": self.opcode, "masked": self.masked, "len": self.length,
                "form": self.length_form, "mask": self.mask.hex() if self.mask else None}


class ParseError(Exception):
    pass


def parse_frames(data, allow_partial=False):
    """Split an octet string into frames (header fields only judged structurally).
    Returns (frames, rest).  Raises ParseError on truncated input unless allow_partial."""
    frames = []
    i, n = 0, len(data)
    while i < n:
        start = i
        if n - i < 2:
            break
        b0, b1 = data[i], data[i + 1]
        f = Frame()
        f.fin = b0 >> 7
        f.rsv = (b0 >> 4) & 7
        f.opcode = b0 & 0x0F
        f.masked = b1 >> 7
        l7 = b1 & 0x7F
        j = i + 2
        if l7 <= 125:
            f.length, f.length_form = l7, 7
        elif l7 == 126:
            if n - j < 2:
                break
            f.length, f.length_form = struct.unpack("!H", data[j:j + 2])[0], 16
            j += 2
        else:
            if n - j < 8:
                break
            f.length, f.length_form = struct.unpack("!Q", data[j:j + 8])[0], 64
            j += 8
        if f.masked:
            if n - j < 4:
                break
            f.mask = bytes(data[j:j + 4])
            j += 4
        else:
            f.mask = None
        if n - j < f.length:
            break
        f.raw_payload = bytes(data[j:j + f.length])
        f.payload = xor_mask(f.raw_payload, f.mask) if f.masked else f.raw_payload
        f.start, f.end = start, j + f.length
        frames.append(f)
        i = f.end
    rest = bytes(data[i:])
    if rest and not allow_partial:
        raise ParseError("truncated frame at offset %d (%d trailing octets)" % (i, len(rest)))
    return frames, rest


def is_valid_utf8(b):
    try:
        bytes(b).decode("utf-8")
        return True
    except UnicodeDecodeError:
        return False


def check_sender_stream(frames, role, pmce=False, mask_expected=None):
    """Well-formedness of what a SENDER of the given role wrote (RFC 6455 5.x).
    Returns (problems, messages, controls): problems = list of (clause, frame index, text);
    messages = [(opcode, payload_bytes, rsv1, n_frames)] of complete data messages in order;
    controls = [(opcode, payload)].
    ``mask_expected``: None = by role (client masks, server does not); True/False to override."""
    problems, messages, controls = [], [], []
    if mask_expected is None:
        mask_expected = (role == "client")
    cur = None
    for k, f in enumerate(frames):
        if f.opcode not in (0, 1, 2, 8, 9, 10):
            problems.append(("reserved-opcode", k, repr(f)))
            continue
        minimal = 7 if f.length <= 125 else (16 if f.length <= 0xFFFF else 64)
        if f.length_form != minimal:
            problems.append(("non-minimal-length", k, repr(f)))
        if f.length_form == 64 and f.length >> 63:
            problems.append(("length-msb-set", k, repr(f)))
        if bool(f.masked) != bool(mask_expected):
            problems.append(("mask-bit-%s-for-%s" % ("set" if f.masked else "clear", role), k, repr(f)))
        if f.rsv & 3:
            problems.append(("rsv2-3-set", k, repr(f)))
        if f.opcode in CONTROL_OPS:
            if not f.fin:
                problems.append(("fragmented-control", k, repr(f)))
            if f.length > 125:
                problems.append(("control-too-long", k, repr(f)))
            if f.rsv:
                problems.append(("control-rsv", k, repr(f)))
            controls.append((f.opcode, f.payload))
            if f.opcode == OP_CLOSE:
                if f.length == 1:
                    problems.append(("close-1-byte", k, repr(f)))
                elif f.length >= 2:
                    code = struct.unpack("!H", f.payload[:2])[0]
                    if close_code_class(code) == "invalid":
                        problems.append(("close-code-invalid-%d" % code, k, repr(f)))
                    if not is_valid_utf8(f.payload[2:]):
                        problems.append(("close-reason-not-utf8", k, repr(f)))
            continue
        # data / continuation
        if f.opcode == OP_CONT:
            if cur is None:
                problems.append(("continuation-without-message", k, repr(f)))
                continue
            if f.rsv & 4:
                problems.append(("rsv1-on-continuation", k, repr(f)))
            cur[1].append(f.payload)
            cur[3] += 1
        else:
            if cur is not None:
                problems.append(("new-message-inside-fragmented", k, repr(f)))
            if (f.rsv & 4) and not pmce:
                problems.append(("rsv1-without-extension", k, repr(f)))
            cur = [f.opcode, [f.payload], bool(f.rsv & 4), 1]
        if f.fin and cur is not None:
            messages.append((cur[0], b"".join(cur[1]), cur[2], cur[3]))
            cur = None
    return problems, messages, controls, (cur is not None)


# -------------------------------------------------------------------------------------------------
# Receiver judge: what must an endpoint of ``role`` do with this incoming stream?
# -------------------------------------------------------------------------------------------------

class Verdict:
    """events: list of ('message', is_binary, payload) | ('ping', payload) | ('pong', payload)
    | ('close', code, reason_bytes)  in order, for the well-formed prefix.
    failure: None | ('protocol', clause) | ('payload', clause)     (1002 vs 1007)
    fail_at: octet offset after which the failure is decidable (end of the offending header, or the
             payload octet for invalid UTF-8)
    grey: True when the RFC leaves the outcome open for this stream (accept either)."""

    def __init__(self):
        self.events = []
        self.failure = None
        self.fail_at = None
        self.grey = False
        self.closed = False          # a valid close frame was received (stream ends for the judge)
        self.incomplete = False      # stream ends inside a frame/message: nothing more to assert


def judge(role, stream, pmce=False, inflate=None, require_masked=True, accept_masked_server=False):
    """Judge an incoming octet stream for a receiver of ``role`` ('server' receives client frames).
    Default options only: a server requires masked client frames; a client fails on masked server
    frames.  ``inflate(bytes)->bytes`` is required when pmce and RSV1 messages occur."""
    v = Verdict()
    data = bytes(stream)
    i, n = 0, len(data)
    msg = None       # [opcode, chunks, compressed]
    utf8_buf = b""

    def fail(kind, clause, at):
        v.failure = (kind, clause)
        v.fail_at = at
        return v

    while i < n:
        if n - i < 2:
            v.incomplete = True
            return v
        b0, b1 = data[i], data[i + 1]
        fin, rsv, op = b0 >> 7, (b0 >> 4) & 7, b0 & 0x0F
        masked, l7 = b1 >> 7, b1 & 0x7F
        hdr2 = i + 2
        # --- checks decidable from the first two octets
        if rsv:
            if not (pmce and rsv == 4):
                return fail("protocol", "rsv-set", hdr2)
        if role == "server" and not masked and require_masked:
            return fail("protocol", "unmasked-client-frame", hdr2)
        if role == "client" and masked and not accept_masked_server:
            return fail("protocol", "masked-server-frame", hdr2)
        if op > 7:
            if not fin:
                return fail("protocol", "fragmented-control", hdr2)
            if l7 > 125:
                return fail("protocol", "control-too-long", hdr2)
            if op not in (8, 9, 10):
                return fail("protocol", "reserved-control-opcode", hdr2)
            if op == 8 and l7 == 1:
                return fail("protocol", "close-1-byte", hdr2)
            if rsv == 4:
                return fail("protocol", "compressed-control", hdr2)
        else:
            if op not in (0, 1, 2):
                return fail("protocol", "reserved-data-opcode", hdr2)
            if msg is None and op == 0:
                return fail("protocol", "continuation-outside-message", hdr2)
            if msg is not None and op != 0:
                return fail("protocol", "data-frame-inside-message", hdr2)
            if rsv == 4 and op == 0:
                return fail("protocol", "rsv1-on-continuation", hdr2)
        # --- extended length
        j = hdr2
        if l7 == 126:
            if n - j < 2:
                v.incomplete = True
                return v
            ln = struct.unpack("!H", data[j:j + 2])[0]
            j += 2
            if ln < 126:
                return fail("protocol", "non-minimal-16", j)
        elif l7 == 127:
            if n - j < 8:
                v.incomplete = True
                return v
            ln = struct.unpack("!Q", data[j:j + 8])[0]
            j += 8
            if ln >> 63:
                return fail("protocol", "length-msb", j)
            if ln < 65536:
                return fail("protocol", "non-minimal-64", j)
        else:
            ln = l7
        if masked:
            if n - j < 4:
                v.incomplete = True
                return v
            key = data[j:j + 4]
            j += 4
        else:
            key = None
        avail = min(ln, n - j)
        raw = data[j:j + avail]
        payload = xor_mask(raw, key) if key else raw
        complete = (avail == ln)
        # --- payload
        if op > 7:
            if not complete:
                v.incomplete = True
                return v
            if op == 9:
                v.events.append(("ping", payload))
            elif op == 10:
                v.events.append(("pong", payload))
            else:
                code, reason = None, b""
                if ln >= 2:
                    code = struct.unpack("!H", payload[:2])[0]
                    reason = payload[2:]
                    cls = close_code_class(code)
                    if cls == "invalid":
                        return fail("protocol", "close-code-%d" % code, j + ln)
                    if cls == "grey":
                        v.grey = True
                    if not is_valid_utf8(reason):
                        return fail("payload", "close-reason-utf8", j + ln)
                v.events.append(("close", code, reason))
                v.closed = True
                v.fail_at = j + ln
                return v
        else:
            if op != 0:
                msg = [op, [], rsv == 4]
            msg[1].append(payload)
            if msg[0] == 1 and not msg[2]:
                # fail-fast UTF-8: find first offending byte in the text so far
                whole = b"".join(msg[1])
                bad = _utf8_first_bad(whole)
                if bad is not None:
                    # position in stream of that byte
                    off_in_frame = bad - (len(whole) - len(payload))
                    return fail("payload", "invalid-utf8", j + max(0, off_in_frame) + 1)
            if not complete:
                v.incomplete = True
                return v
            if fin:
                whole = b"".join(msg[1])
                if msg[2]:
                    try:
                        whole = inflate(whole)
                    except Exception:
                        return fail("payload", "inflate-error", j + ln)
                    v.grey_inflate = True
                if msg[0] == 1 and not is_valid_utf8(whole):
                    return fail("payload", "invalid-utf8-at-end", j + ln)
                v.events.append(("message", msg[0] == 2, whole))
                msg = None
        i = j + ln
    if msg is not None:
        v.incomplete = True
    return v


def _utf8_first_bad(b):
    from . import utf8_ref

    return utf8_ref.judge(b)[2]


# -------------------------------------------------------------------------------------------------
# Opening handshake helpers
# -------------------------------------------------------------------------------------------------

def new_key(rng=None):
    raw = bytes(rng.getrandbits(8) for _ in range(16)) if rng else os.urandom(16)
    return base64.b64encode(raw).decode("ascii")


def client_request(host="127.0.0.1", port=9000, resource="/", key=None, version=13, protocols=None,
                   origin=None, extensions=None, extra=None):
    key = key or new_key()
    hostport = host if port in (80, None) else "%s:%d" % (host, port)
    lines = ["GET %s HTTP/1.1" % resource, "Host: %s" % hostport, "Upgrade: websocket", "Connection: Upgrade",
             "Sec-WebSocket-Key: %s" % key, "Sec-WebSocket-Version: %d" % version]
    if protocols:
        lines.append("Sec-WebSocket-Protocol: %s" % ", ".join(protocols))
    if origin:
        lines.append("Origin: %s" % origin)
    if extensions:
        lines.append("Sec-WebSocket-Extensions: %s" % extensions)
    for k, val in (extra or []):
        lines.append("%s: %s" % (k, val))
    return ("\r\n".join(lines) + "\r\n\r\n").encode("utf-8"), key


def server_response(key, protocol=None, extensions=None, extra=None, status="101 Switching Protocols", accept=None):
    lines = ["HTTP/1.1 %s" % status, "Upgrade: websocket", "Connection: Upgrade",
             "Sec-WebSocket-Accept: %s" % (accept if accept is not None else accept_key(key))]
    if protocol:
        lines.append("Sec-WebSocket-Protocol: %s" % protocol)
    if extensions:
        lines.append("Sec-WebSocket-Extensions: %s" % extensions)
    for k, val in (extra or []):
        lines.append("%s: %s" % (k, val))
    return ("\r\n".join(lines) + "\r\n\r\n").encode("utf-8")


def parse_http_head(data):
    """-> (start_line, {lower-name: [values]}, rest) or None when no CRLFCRLF yet."""
    k = data.find(b"\r\n\r\n")
    if k < 0:
        return None
    head = data[:k].decode("latin-1")
    lines = head.split("\r\n")
    hdrs = {}
    for ln in lines[1:]:
        if ":" in ln:
            a, b = ln.split(":", 1)
            hdrs.setdefault(a.strip().lower(), []).append(b.strip())
    return lines[0], hdrs, data[k + 4:]


def selfcheck():
    # RFC 6455 section 1.3 example
    assert accept_key("dGhlIHNhbXBsZSBub25jZQ==") == "s3pPLMBiTxaQ9kYGzzhZRbK+xOo="
    # section 5.7 examples
    assert encode_frame(OP_TEXT, b"Hello") == bytes.fromhex("810548656c6c6f")
    assert encode_frame(OP_TEXT, b"Hello", mask=bytes.fromhex("37fa213d")) == bytes.fromhex("818537fa213d7f9f4d5158")
    assert encode_frame(OP_TEXT, b"Hel", fin=False) + encode_frame(OP_CONT, b"lo") == bytes.fromhex("010348656c80026c6f")
    assert encode_frame(OP_PING, b"Hello") == bytes.fromhex("890548656c6c6f")
    assert encode_frame(OP_BIN, b"\0" * 256)[:4] == bytes.fromhex("827e0100")
    assert encode_frame(OP_BIN, b"\0" * 65536)[:10] == bytes.fromhex("827f0000000000010000")
    fr, rest = parse_frames(bytes.fromhex("818537fa213d7f9f4d5158"))
    assert not rest and fr[0].payload == b"Hello" and fr[0].masked
    v = judge("server", bytes.fromhex("818537fa213d7f9f4d5158"))
    assert v.events == [("message", False, b"Hello")] and v.failure is None
    v = judge("server", bytes.fromhex("810548656c6c6f"))
    assert v.failure == ("protocol", "unmasked-client-frame")
    v = judge("client", bytes.fromhex("010348656c") + bytes.fromhex("890548656c6c6f") + bytes.fromhex("80026c6f"))
    assert v.events == [("ping", b"Hello"), ("message", False, b"Hello")]
    return True
