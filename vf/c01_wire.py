"""C01 helpers: fast frame parsing of large sender streams, the sender-side oracle (RFC 6455
well-formedness + RFC 7692 inflate + content equality), tagged payload construction and
segmentation planners.

Nothing in here imports autobahn.  ``rfc6455_ref`` stays the authority on what a frame is;
this module only (a) unmasks with a big-integer XOR because ``ref.xor_mask`` is a per-octet
Python loop (a 128 KiB payload would cost ~40 ms per frame) and (b) keeps the frame -> message
attribution that ``ref.check_sender_stream`` does not return.  ``selfcheck()`` cross-checks the
fast parser against ``ref.parse_frames`` before any verdict is produced.
"""

import hashlib
import random
import re
import struct
import zlib

from . import rfc6455_ref as ref


# ---------------------------------------------------------------------------------------------
# fast XOR / frame parsing
# ---------------------------------------------------------------------------------------------

def xor_fast(data, key, offset=0):
    n = len(data)
    if n == 0:
        return b""
    k = bytes(key)
    if offset & 3:
        o = offset & 3
        k = k[o:] + k[:o]
    ks = (k * (n // 4 + 1))[:n]
    return (int.from_bytes(data, "big") ^ int.from_bytes(ks, "big")).to_bytes(n, "big")


def scan_frame(buf, i):
    """Header fields of the frame starting at ``buf[i]`` -> (hdr_end, end, fields) or None when the
    header is incomplete.  ``end`` may lie beyond len(buf) (payload still missing)."""
    n = len(buf)
    if n - i < 2:
        return None
    b0, b1 = buf[i], buf[i + 1]
    l7 = b1 & 0x7F
    j = i + 2
    if l7 <= 125:
        ln, form = l7, 7
    elif l7 == 126:
        if n - j < 2:
            return None
        ln, form = struct.unpack("!H", bytes(buf[j:j + 2]))[0], 16
        j += 2
    else:
        if n - j < 8:
            return None
        ln, form = struct.unpack("!Q", bytes(buf[j:j + 8]))[0], 64
        j += 8
    masked = b1 >> 7
    key = None
    if masked:
        if n - j < 4:
            return None
        key = bytes(buf[j:j + 4])
        j += 4
    return j, j + ln, (b0 >> 7, (b0 >> 4) & 7, b0 & 0x0F, masked, key, ln, form)


def parse_frames(data):
    """Same contract as ``ref.parse_frames(data, allow_partial=True)`` (ref.Frame objects), but the
    unmasking is done with ``xor_fast``."""
    frames = []
    i, n = 0, len(data)
    data = bytes(data)
    while i < n:
        sc = scan_frame(data, i)
        if sc is None:
            break
        hdr_end, end, (fin, rsv, op, masked, key, ln, form) = sc
        if end > n:
            break
        f = ref.Frame()
        f.fin, f.rsv, f.opcode, f.masked, f.mask = fin, rsv, op, masked, key
        f.length, f.length_form = ln, form
        f.raw_payload = data[hdr_end:end]
        f.payload = xor_fast(f.raw_payload, key) if masked else f.raw_payload
        f.start, f.end = i, end
        frames.append(f)
        i = end
    return frames, data[i:]


def split_head(stream):
    """-> (http_head_including_CRLFCRLF, rest) or None."""
    k = bytes(stream).find(b"\r\n\r\n")
    if k < 0:
        return None
    return bytes(stream[:k + 4]), bytes(stream[k + 4:])


def negotiated_pmce(server_head):
    """What the SERVER's 101 response says about permessage-deflate (read from the wire, not from
    the library's objects).  -> None | {server_nct, client_nct, server_wbits, client_wbits}"""
    parsed = ref.parse_http_head(server_head)
    if not parsed:
        return None
    vals = parsed[1].get("sec-websocket-extensions") or []
    for v in vals:
        for ext in v.split(","):
            parts = [p.strip() for p in ext.split(";")]
            if parts and parts[0].lower() == "permessage-deflate":
                out = {"server_nct": False, "client_nct": False, "server_wbits": 15, "client_wbits": 15}
                for p in parts[1:]:
                    kv = [x.strip().strip('"') for x in p.split("=", 1)]
                    name = kv[0].lower()
                    if name == "server_no_context_takeover":
                        out["server_nct"] = True
                    elif name == "client_no_context_takeover":
                        out["client_nct"] = True
                    elif name == "server_max_window_bits" and len(kv) > 1:
                        out["server_wbits"] = int(kv[1])
                    elif name == "client_max_window_bits" and len(kv) > 1:
                        out["client_wbits"] = int(kv[1])
                return out
    return None


class Inflater:
    """RFC 7692 section 7.2.2 receiver, written against zlib only: raw deflate, append 00 00 ff ff,
    keep the LZ77 window between messages unless no_context_takeover was negotiated for this
    direction; the window is exactly the negotiated one (a sender that looks further back than
    negotiated makes zlib raise 'invalid distance too far back')."""

    def __init__(self, no_context_takeover, wbits):
        self.nct = no_context_takeover
        self.wbits = wbits
        self.d = None
        self.broken = False

    def inflate_partial(self, data):
        """What the first octets of the NEXT message's compressed payload inflate to (state untouched).
        Any prefix of a valid deflate stream inflates to a prefix of the plaintext; raises zlib.error."""
        d = zlib.decompressobj(-self.wbits) if (self.d is None or self.nct) else self.d.copy()
        return d.decompress(bytes(data))

    def inflate(self, data):
        if self.d is None or self.nct:
            self.d = zlib.decompressobj(-self.wbits)
        try:
            out = self.d.decompress(bytes(data) + b"\x00\x00\xff\xff")
        except zlib.error:
            self.broken = True
            raise
        if self.d.unused_data or self.d.eof:
            self.broken = True
            raise zlib.error("deflate stream ended inside a message (BFINAL block or trailing data)")
        # payload + 00 00 ff ff must be COMPLETE deflate blocks (RFC 7692 7.2.1: the sender removes the tail of
        # an empty stored block it has flushed).  zlib does not tell whether it stopped at a block boundary, so
        # a copy of the inflater is offered one more empty stored block: at a boundary that yields nothing; in
        # the middle of a block (e.g. an EMPTY payload with RSV1: '00 00 ff ff' is an unfinished stored-block
        # header that would swallow the next message) it yields data or an error.
        probe = self.d.copy()
        try:
            extra = probe.decompress(b"\x00\x00\x00\xff\xff")
        except zlib.error:
            extra = None
        if extra != b"" or probe.eof or probe.unused_data:
            self.broken = True
            raise zlib.error("message does not end at a deflate block boundary (payload %d octets)" % len(data))
        return out


# ---------------------------------------------------------------------------------------------
# sender-side oracle
# ---------------------------------------------------------------------------------------------

class WireMessage:
    __slots__ = ("opcode", "payload", "raw", "rsv1", "frames", "first_frame", "masked_flags", "forms", "lens")


def assemble(frames):
    """Data messages with frame attribution.  -> (messages, frame_msg, open_tail)
    ``frame_msg[k]`` = index of the message frame k belongs to (None for control frames and for
    frames the continuation discipline cannot attribute)."""
    msgs, frame_msg = [], []
    cur = None
    for k, f in enumerate(frames):
        if f.opcode in ref.CONTROL_OPS or f.opcode not in (0, 1, 2):
            frame_msg.append(len(msgs) if cur is not None and f.opcode not in ref.CONTROL_OPS else None)
            continue
        if f.opcode == ref.OP_CONT:
            if cur is None:
                frame_msg.append(None)
                continue
        else:
            if cur is not None:      # new message inside a fragmented one: close the old one as is
                msgs.append(cur)
            cur = WireMessage()
            cur.opcode, cur.rsv1 = f.opcode, bool(f.rsv & 4)
            cur.payload, cur.raw = [], []
            cur.frames, cur.first_frame = 0, k
            cur.masked_flags, cur.forms, cur.lens = [], [], []
        cur.payload.append(f.payload)
        cur.raw.append(f.raw_payload)
        cur.frames += 1
        cur.masked_flags.append(bool(f.masked))
        cur.forms.append(f.length_form)
        cur.lens.append(f.length)
        frame_msg.append(len(msgs))
        if f.fin:
            msgs.append(cur)
            cur = None
    for m in msgs:
        m.payload = b"".join(m.payload)
        m.raw = b"".join(m.raw)
    return msgs, frame_msg, cur is not None


def sha(b):
    return hashlib.sha256(bytes(b)).hexdigest()[:20]


# ---------------------------------------------------------------------------------------------
# tagged payloads
# ---------------------------------------------------------------------------------------------

TAG_RE = re.compile(rb"^([CS]\d{5})\|")
TAG_LEN = 7

_UNI = ["a", "Z", "0", " ", "é", "ß", "߿", "ࠀ", "€", "퟿", "", "￿",
        "\U00010000", "\U0001f600", "\U0010ffff", "\U0002a6d6"]


def make_tag(direction, idx):
    return ("%s%05d|" % ("C" if direction == "c2s" else "S", idx)).encode("ascii")


def make_payload(seed, direction, idx, length, binary, fill):
    """Deterministic payload of exactly ``length`` octets carrying a unique tag (when it fits).
    Text payloads are valid UTF-8 with 1..4-octet scalars spread all over, so that any fragment /
    segment border falls inside a code point now and then."""
    rng = random.Random("pl/%s/%s/%d/%d" % (seed, direction, idx, length))
    tag = make_tag(direction, idx)
    if binary:
        if length <= len(tag):
            return tag[:length]
        n = length - len(tag)
        if fill == "random":
            body = rng.randbytes(n)
        elif fill == "repeat":
            unit = rng.randbytes(rng.choice([1, 3, 16, 100]))
            body = (unit * (n // len(unit) + 1))[:n]
        else:
            parts, left = [], n
            while left > 0:
                k = min(left, rng.choice([1, 7, 64, 500, 4096]))
                if rng.random() < 0.5:
                    parts.append(rng.randbytes(k))
                else:
                    parts.append(bytes([rng.randrange(256)]) * k)
                left -= k
            body = b"".join(parts)
        return tag + body
    # text
    if length <= len(tag):
        # short texts: tag prefix, or a single multi-octet scalar of exactly that size
        if length in (2, 3, 4) and rng.random() < 0.5:
            return {2: "é", 3: "€", 4: "\U0001f600"}[length].encode("utf-8")
        return tag[:length]
    n = length - len(tag)
    if fill == "repeat":
        unit = "".join(rng.choice(_UNI) for _ in range(rng.choice([1, 2, 5]))).encode("utf-8")
    else:
        unit = "".join(rng.choice(_UNI) for _ in range(257 if fill == "random" else 31)).encode("utf-8")
    reps = n // len(unit)
    body = unit * reps
    left = n - len(body)
    tail = []
    while left > 0:
        cands = [c for c in _UNI if len(c.encode("utf-8")) <= left]
        c = rng.choice(cands)
        tail.append(c)
        left -= len(c.encode("utf-8"))
    out = tag + body + "".join(tail).encode("utf-8")
    assert len(out) == length
    return out


def echo_payload(direction, idx, length, binary, prev_body):
    """A payload of exactly ``length`` octets: new unique tag + the body of an EARLIER message (repeated / cut to
    fit), so that a compressor with context takeover back-references the earlier message.  Text stays valid
    UTF-8 (a code point cut at the end is replaced by ASCII filler)."""
    tag = make_tag(direction, idx)
    n = length - len(tag)
    assert n > 0 and prev_body
    body = (prev_body * (n // len(prev_body) + 1))[:n]
    if not binary:
        body = body.decode("utf-8", errors="ignore").encode("utf-8")
        body += b"a" * (n - len(body))
    out = tag + body
    assert len(out) == length
    return out


def tag_of(payload):
    m = TAG_RE.match(bytes(payload[:TAG_LEN]))
    return m.group(1).decode("ascii") if m else None


# ---------------------------------------------------------------------------------------------
# segmentation planners: next_n(avail) -> how many in-flight octets the next read event carries
# ---------------------------------------------------------------------------------------------

class Seg:
    """Per-direction segmentation.  ``ep`` is the SENDING endpoint (its all_out is scanned for frame
    borders by the 'edges' policy)."""

    def __init__(self, policy, rng, ep, link):
        self.policy = policy
        self.rng = rng
        self.ep = ep
        self.link = link
        self._scan_pos = None     # absolute offset in ep.all_out up to which frames were scanned
        self._cuts = []
        self._cut_i = 0
        self.reads = 0

    def _delivered(self):
        return self.link.delivered[id(self.ep)]

    def _scan(self):
        buf = self.ep.all_out
        if self._scan_pos is None:
            k = bytes(buf[:8192]).find(b"\r\n\r\n")
            if k < 0:
                return
            self._scan_pos = k + 4
            self._cuts.extend([k + 3, k + 4, k + 5])
        i = self._scan_pos
        while True:
            sc = scan_frame(buf, i)
            if sc is None:
                break
            hdr_end, end, _ = sc
            for c in (i + 1, i + 2, hdr_end - 1, hdr_end, hdr_end + 1, end - 1, end):
                if c > (self._cuts[-1] if self._cuts else 0):
                    self._cuts.append(c)
            if end > len(buf):
                break
            i = end
        self._scan_pos = i

    def _edge_n(self, avail, pos):
        """Octets up to the next frame-border cut after absolute stream offset ``pos``."""
        self._scan()
        i = self._cut_i
        while i < len(self._cuts) and self._cuts[i] <= pos:
            i += 1
        if pos == self._delivered():
            self._cut_i = i
        if i < len(self._cuts):
            return max(1, min(avail, self._cuts[i] - pos))
        return avail

    def next_burst(self, avail):
        """'tlsburst' policy: the sizes of k = 2..6 consecutive chunks that reach the protocol back to back
        inside ONE read event (cuts at frame borders +-1 / inside headers, tiny, or random sizes)."""
        rng = self.rng
        k = rng.randint(2, 6)
        mode = rng.choice(["edges", "edges", "small", "random", "mixed"])
        sizes, left, pos = [], avail, self._delivered()
        for _ in range(k):
            if left <= 0:
                break
            m = rng.choice(["edges", "small", "random"]) if mode == "mixed" else mode
            if m == "edges":
                n = self._edge_n(left, pos)
            elif m == "small":
                n = rng.randint(1, 4)
            else:
                n = rng.choice([1, 2, 3, 5, 8, 13, 64, 125, 126, 127, 1000, 4096, 65536, 70000])
            n = max(1, min(n, left))
            sizes.append(n)
            left -= n
            pos += n
        self.reads += 1
        return sizes

    def next_n(self, avail):
        self.reads += 1
        p, rng = self.policy, self.rng
        if p == "tlsburst":       # used where only one chunk can be delivered (e.g. the peer is a Twisted endpoint)
            return self.next_burst(avail)[0]
        if p == "whole":
            return avail
        if p == "bytewise":
            return 1
        if p == "small":
            return rng.randint(1, 4)
        if p == "random":
            return rng.choice([1, 1, 2, 3, 5, 8, 13, 64, 125, 126, 127, 1000, 4096, 65536, 70000])
        if p == "bursty":      # a trickle at the start of each burst, then the rest
            return 1 if rng.random() < 0.6 else rng.choice([2, 7, avail])
        if p == "edges":
            self._scan()
            pos = self._delivered()
            while self._cut_i < len(self._cuts) and self._cuts[self._cut_i] <= pos:
                self._cut_i += 1
            if self._cut_i < len(self._cuts):
                return max(1, min(avail, self._cuts[self._cut_i] - pos))
            return avail
        raise ValueError(p)


def selfcheck():
    ref.selfcheck()
    rng = random.Random(7)
    blob = b""
    for _ in range(60):
        n = rng.choice([0, 1, 2, 3, 4, 5, 124, 125, 126, 127, 300, 65535, 65536])
        key = rng.randbytes(4) if rng.random() < 0.6 else None
        blob += ref.encode_frame(rng.choice([0, 1, 2, 9, 10]), rng.randbytes(n), fin=rng.random() < 0.5,
                                 rsv=rng.choice([0, 0, 4]), mask=key)
    blob += b"\x81"
    a, ra = ref.parse_frames(blob, allow_partial=True)
    b, rb = parse_frames(blob)
    assert ra == rb and len(a) == len(b)
    for x, y in zip(a, b):
        for s in ref.Frame.__slots__:
            assert getattr(x, s) == getattr(y, s), s
    for off in range(4):
        d = rng.randbytes(37)
        assert xor_fast(d, b"abcd", off) == ref.xor_mask(d, b"abcd", off)
    # inflater: RFC 7692 7.2.3.1/7.2.3.2 examples ("Hello" twice with context takeover)
    inf = Inflater(False, 15)
    assert inf.inflate(bytes.fromhex("f248cdc9c90700")) == b"Hello"
    assert inf.inflate(bytes.fromhex("f200110000")) == b"Hello"
    inf2 = Inflater(True, 15)
    assert inf2.inflate(bytes.fromhex("f248cdc9c90700")) == b"Hello"
    try:
        inf2.inflate(bytes.fromhex("f200110000"))
        raise AssertionError("context must have been dropped")
    except zlib.error:
        pass
    inf3 = Inflater(False, 15)
    assert inf3.inflate(bytes.fromhex("00")) == b""            # RFC 7692 7.2.3.6: the empty message
    try:
        inf3.inflate(b"")
        raise AssertionError("an empty RSV1 payload is not a complete deflate block")
    except zlib.error:
        pass
    for ln in (16, 17, 40, 300):
        prev = make_payload(1, "s2c", 0, 37, False, "random")[TAG_LEN:]
        e = echo_payload("s2c", 4, ln, False, prev)
        e.decode("utf-8")
        assert len(e) == ln and tag_of(e) == "S00004"
    for ln in (0, 1, 2, 3, 4, 6, 7, 8, 100, 65536):
        for binary in (True, False):
            for fill in ("random", "repeat", "mixed"):
                p = make_payload(1, "c2s", 3, ln, binary, fill)
                assert len(p) == ln
                if not binary:
                    p.decode("utf-8")
                if ln >= TAG_LEN:
                    assert tag_of(p) == "C00003"
    return True
