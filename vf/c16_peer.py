"""Raw-octet peer used by checks/c16.py (payload limits).

Nothing in here imports autobahn.  Frame headers come from ``rfc6455_ref.encode_frame`` (with
``declared_length`` so a header can announce any size without the payload existing); payload masking
is an own big-integer XOR (the reference's per-byte generator is too slow for 1 MiB payloads and is used
to anchor this one at start-up); permessage-deflate is stdlib ``zlib`` driven exactly as RFC 7692 7.2.1
prescribes (raw deflate, Z_SYNC_FLUSH, strip the trailing 00 00 ff ff; the receiver appends it again).
"""

import random
import zlib

from . import rfc6455_ref as ref

HUGE = 1 << 40                 # declared in a 64-bit header, never supplied
HUGE_MAX = (1 << 63) - 1       # largest length RFC 6455 allows in a header


def fast_xor(data, key):
    n = len(data)
    if n == 0:
        return b""
    k = (bytes(key) * (n // 4 + 1))[:n]
    return (int.from_bytes(data, "big") ^ int.from_bytes(k, "big")).to_bytes(n, "big")


def selfcheck():
    ref.selfcheck()
    rng = random.Random(7)
    for n in (0, 1, 2, 3, 4, 5, 7, 125, 126, 1000):
        d, k = rng.randbytes(n), rng.randbytes(4)
        assert fast_xor(d, k) == ref.xor_mask(d, k), n
    # header helper against the RFC examples
    assert frame_header(ref.OP_BIN, 256, True, 0, None) == bytes.fromhex("827e0100")
    assert frame_header(ref.OP_BIN, 65536, True, 0, None) == bytes.fromhex("827f0000000000010000")
    assert frame_header(ref.OP_TEXT, 5, True, 0, bytes.fromhex("37fa213d")) == bytes.fromhex("818537fa213d")
    assert len(frame_header(ref.OP_BIN, HUGE, True, 0, b"abcd")) == 14
    # RFC 7692 7.2.3.1 example: "Hello" compressed
    p = PeerDeflate(takeover=True)
    w1 = p.compress(b"Hello")
    assert w1 == bytes.fromhex("f248cdc9c90700"), w1.hex()
    w2 = p.compress(b"Hello")
    assert w2 == bytes.fromhex("f200110000"), w2.hex()
    q = PeerInflate(takeover=True)
    assert q.inflate(w1) == b"Hello" and q.inflate(w2) == b"Hello"
    return True


def length_form(n):
    return 7 if n <= 125 else (16 if n <= 0xFFFF else 64)


def frame_header(opcode, n, fin, rsv, mask):
    """Header (2/4/10 octets, minimal form) + the 4 mask octets when ``mask`` is given; no payload."""
    return ref.encode_frame(opcode, b"", fin=fin, rsv=rsv, mask=mask, declared_length=n)


def content(kind, size, seed):
    """Deterministic payload.  rand = incompressible octets; text = ASCII (valid UTF-8, compresses ~2:1);
    rep = highly compressible (a decompression-bomb shape); every payload starts with a seed-derived tag so
    two messages of a case never have equal payloads."""
    rng = random.Random(seed)
    if size == 0:
        return b""
    if kind == "rand":
        return rng.randbytes(size)
    if kind == "text":
        return rng.randbytes(size // 2 + 1).hex().encode("ascii")[:size]
    if kind == "rep":
        tag = ("%08x" % rng.getrandbits(32)).encode("ascii")
        return (tag + b"x" * size)[:size]
    raise ValueError(kind)


class PeerDeflate:
    def __init__(self, takeover=True, wbits=15):
        self.takeover, self.wbits, self.c = takeover, wbits, None

    def compress(self, data):
        if self.c is None or not self.takeover:
            self.c = zlib.compressobj(zlib.Z_DEFAULT_COMPRESSION, zlib.DEFLATED, -self.wbits)
        out = self.c.compress(data) + self.c.flush(zlib.Z_SYNC_FLUSH)
        if not out.endswith(b"\x00\x00\xff\xff"):
            raise RuntimeError("peer deflate: no sync-flush trailer (empty message after a flush?)")
        return out[:-4]


class PeerInflate:
    def __init__(self, takeover=True, wbits=15):
        self.takeover, self.wbits, self.d = takeover, wbits, None

    def inflate(self, wire):
        if self.d is None or not self.takeover:
            self.d = zlib.decompressobj(-self.wbits)
        return self.d.decompress(wire + b"\x00\x00\xff\xff")


# ---------------------------------------------------------------------------------------------------
# fragment layouts: how a wire payload of ``total`` octets is spread over frames.
# ``lim`` is the limit the case is about (0 = none); all functions are pure and deterministic.
# ---------------------------------------------------------------------------------------------------

def split_equal(total, k):
    k = max(1, k)
    q, r = divmod(total, k)
    return [q + (1 if i < r else 0) for i in range(k)]


def fragment_sizes(total, layout, lim):
    """-> list of fragment sizes summing to ``total``."""
    L = lim if lim > 0 else max(1, total // 2)
    if layout == "single":
        return [total]
    if layout.startswith("eq"):
        return split_equal(total, int(layout[2:]))
    if layout == "bytes1":                       # 1-octet fragments (at most 300 of them, then the rest)
        n1 = min(total, 300)
        out = [1] * n1
        if total > n1:
            out.append(total - n1)
        return out or [0]
    if layout == "bytes1tail":                   # big first fragment, then 1-octet fragments up to / across the limit
        tail = min(total, 40)
        head = total - tail
        return ([head] if head else []) + [1] * tail or [0]
    if layout == "cross_last":                   # everything up to the limit, the rest in the last fragment
        a = min(total, L)
        return [a, total - a] if total > a else [max(a - 1, 0), total - max(a - 1, 0)]
    if layout == "cross_mid":                    # the fragment that crosses is followed by another one
        a = min(total, L) // 2
        c = 1 if total - a >= 2 else 0
        return [a, total - a - c, c]
    if layout == "zero_frags":                   # empty first and last fragments
        return [0, total, 0]
    if layout == "by_limit":                     # frames of exactly ``lim`` octets (at most 12, then the rest)
        out, left = [], total
        while left > L and len(out) < 12:
            out.append(L)
            left -= L
        out.append(left)
        return out
    if layout == "one_over_mid":                 # [L, L+1, rest]: a continuation frame one octet above the frame limit
        if total >= 2 * L + 1:
            return [L, L + 1, total - 2 * L - 1]
        return [total]
    raise ValueError(layout)


LAYOUTS = ["single", "eq2", "eq3", "eq7", "bytes1", "bytes1tail", "cross_last", "cross_mid", "zero_frags",
           "by_limit", "one_over_mid"]


def parse_out(data):
    """Fast structural parse of what an endpoint wrote (own header parser + big-integer unmasking).
    -> (frames, rest) with frames = [dict(fin, rsv, op, masked, n, form, payload)]."""
    import struct

    frames, i, n = [], 0, len(data)
    while n - i >= 2:
        b0, b1 = data[i], data[i + 1]
        l7, j = b1 & 0x7F, i + 2
        if l7 <= 125:
            ln, form = l7, 7
        elif l7 == 126:
            if n - j < 2:
                break
            ln, form = struct.unpack("!H", data[j:j + 2])[0], 16
            j += 2
        else:
            if n - j < 8:
                break
            ln, form = struct.unpack("!Q", data[j:j + 8])[0], 64
            j += 8
        key = None
        if b1 & 0x80:
            if n - j < 4:
                break
            key = bytes(data[j:j + 4])
            j += 4
        if n - j < ln:
            break
        raw = bytes(data[j:j + ln])
        frames.append({"fin": b0 >> 7, "rsv": (b0 >> 4) & 7, "op": b0 & 0x0F, "masked": bool(key), "n": ln,
                       "form": form, "payload": fast_xor(raw, key) if key else raw})
        i = j + ln
    return frames, bytes(data[i:])
