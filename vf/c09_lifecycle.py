"""C09 - object-lifecycle dimension of the UTF-8 validator monitor.

Sections A-D of ``checks/c09.py`` drive ONE long-lived validator object per implementation and
call ``reset()`` before every case.  The library itself does not use validators that way only:
``WebSocketProtocol`` keeps one object per connection (reset at the start of a text message,
*not* after a failed one) and ``onCloseFrame`` judges the close reason with a one-shot
``Utf8Validator().validate(reason)`` that is never reset.  Connections - and with them their
validators - die in every possible state, many are alive at the same time.

What is driven here is therefore a *lifecycle program*: a sequence of operations on a handful of
slots holding validator OBJECTS of one implementation

    ["new", s]          construct a validator into slot s (used WITHOUT reset() unless a reset op follows)
    ["feed", s, hex]    validate(chunk) on the object in slot s          -> return compared
    ["reset", s]        reset() of that object
    ["drop", s]         drop the last reference (finalised at once by reference counting)
    ["cycle-drop", s]   drop it inside a reference cycle (finalised only by a later garbage collection)
    ["gc"]              gc.collect()
    ["tmp", hex]        one-shot temporary: Utf8Validator().validate(chunk)  -> return compared

Oracle (independent of the code under test): every object is an incremental validator of ITS OWN
octets since ITS OWN construction / last reset() - ``RefStream`` predicts the quad from
``vf.utf8_ref`` for exactly those octets, whatever other objects (alive or dead) have seen.  After
a rejection only stickiness is asserted (same reading as sections A-D).  All implementations run
the same program and must return the same sequences.

A deviating call is re-run *in isolation* (the same chunks on the long-lived, reset() validator of
sections A-D): if that agrees with the reference the mechanism is the object's history/neighbours
(key ``C09/<impl>/lifecycle/...``), otherwise it is an ordinary DFA/position defect and is filed
under the ordinary key.
"""

import gc

from vf import utf8_ref
from vf.runner import h

# ------------------------------------------------------------------------------------------------
# reference side


class RefStream:
    """What an incremental validator must answer for its own octets since construction/reset()."""

    __slots__ = ("whole", "bad", "chunks", "resets", "calls", "birth")

    def __init__(self):
        self.whole = b""
        self.bad = None
        self.chunks = []       # chunks since construction / last reset (for isolation + replay)
        self.resets = 0
        self.calls = 0         # validate() calls since construction (not cleared by reset)
        self.birth = (0, None)  # (objects finalised in a non-start state before construction, state of the last one)

    def reset(self):
        self.whole = b""
        self.bad = None
        self.chunks = []
        self.resets += 1

    def feed(self, c):
        """-> predicted quad, or None when an earlier chunk was rejected (only stickiness applies)."""
        self.chunks.append(c)
        self.calls += 1
        if self.bad is not None:
            return None
        s = len(self.whole)
        w = self.whole + c
        _, ends, bad = utf8_ref.judge(w)
        if bad is not None:
            self.bad = bad
            return (False, False, bad - s, bad)
        self.whole = w
        return (True, ends, len(c), len(w))

    def end_state(self):
        """Class of the state the object is in right now (what a successor must NOT inherit)."""
        if self.bad is not None:
            return "reject-at-0" if self.bad == 0 else "reject-later"
        if not self.whole:
            return "start"
        return "complete" if utf8_ref.judge(self.whole)[1] else "incomplete"


# ------------------------------------------------------------------------------------------------
# programs

FIRST_ILLEGAL = [b"\x80", b"\xbf", b"\xc0", b"\xc1", b"\xf5", b"\xf8", b"\xfe", b"\xff"]

PROBES = [[b"bye"], [b""], [b"gr\xc3", b"\xbc\xc3\x9f"], [b"\xa9"], [b"\x80"], [b"ab\xe2\x82", b"\xac"],
          [b"\xf0\x9f\x98\x80"], [b"\xed\xa0\x80"]]


def histories(prefixes, ill):
    """What a validator went through before it was discarded: op tails for slot 0 (after "new")."""
    out = []
    for p in prefixes:                      # every DFA state as the end state (b"" = untouched, b"\xff" = reject at 0)
        out.append([["feed", 0, p.hex()]])
    for s in ill:                           # every ill-formed class, in one chunk and octet by octet
        out.append([["feed", 0, s.hex()]])
        if len(s) > 1:
            out.append([["feed", 0, bytes([b]).hex()] for b in s])
    for f in FIRST_ILLEGAL:                 # rejected on the very first octet: directly, after an empty chunk,
        out.append([["feed", 0, (f + b"abc").hex()]])                         # with a tail,
        out.append([["feed", 0, ""], ["feed", 0, f.hex()]])
        out.append([["feed", 0, "616263"], ["reset", 0], ["feed", 0, f.hex()]])   # after reset() of a used validator,
        out.append([["feed", 0, f.hex()], ["feed", 0, "6d6f7265"]])              # and fed again after the rejection
    out.append([["feed", 0, b"hello".hex()]])
    out.append([["feed", 0, b"caf\xc3".hex()]])
    out.append([["feed", 0, b"\xf0\x9f".hex()], ["feed", 0, b"\x98".hex()]])
    out.append([["feed", 0, b"abc\xff".hex()]])
    out.append([["reset", 0], ["feed", 0, b"\xc3\xa9".hex()], ["reset", 0]])
    out.append([["feed", 0, (b"x" * 300).hex()]])
    return out


def matrix_programs(prefixes, ill):
    """Systematic part: (history of the discarded object) x (how it is discarded) x (is the successor reset
    before use) x (probe).  Yields (kind, ops)."""
    for hi, hist in enumerate(histories(prefixes, ill)):
        for pi, probe in enumerate(PROBES):
            for discard in ("drop", "cycle"):
                for use in ("noreset", "reset", "tmp"):
                    if use == "tmp" and len(probe) != 1:
                        continue
                    ops = [["new", 0]] + [list(o) for o in hist]
                    ops += [["drop", 0]] if discard == "drop" else [["cycle-drop", 0], ["gc"]]
                    if use == "tmp":
                        ops.append(["tmp", probe[0].hex()])
                    else:
                        ops.append(["new", 1])
                        if use == "reset":
                            ops.append(["reset", 1])
                        ops += [["feed", 1, c.hex()] for c in probe]
                        ops.append(["drop", 1])
                    yield "lifecycle-matrix/%s/%s" % (discard, use), ops


def batch_program(rng, prefixes, ill, k):
    """k validators alive together reach k different end states, all are discarded (random order), k new ones are
    constructed and probed without reset(), interleaved."""
    hs = histories(prefixes, ill)
    ops = []
    for s in range(k):
        ops.append(["new", s])
    pend = []
    for s in range(k):
        pend.append([[o[0], s] + o[2:] for o in rng.choice(hs)])
    while any(pend):                         # interleave the histories
        s = rng.choice([i for i in range(k) if pend[i]])
        ops.append(pend[s].pop(0))
    order = list(range(k))
    rng.shuffle(order)
    for s in order:
        ops.append(["drop", s] if rng.random() < 0.7 else ["cycle-drop", s])
    if rng.random() < 0.7:
        ops.append(["gc"])
    for s in range(k):
        ops.append(["new", s])
    pend = [[["feed", s, c.hex()] for c in rng.choice(PROBES)] for s in range(k)]
    while any(pend):
        s = rng.choice([i for i in range(k) if pend[i]])
        ops.append(pend[s].pop(0))
    return ops


def _chunk(rng, well, ill):
    r = rng.random()
    if r < 0.30:
        return "".join(rng.choice(well) for _ in range(rng.randint(1, 4))).encode("utf-8")
    if r < 0.50:                              # a code point cut somewhere (the next chunk may or may not complete it)
        e = rng.choice(well).encode("utf-8") + chr(rng.choice([0xe9, 0x20ac, 0x1f600, 0x10ffff])).encode("utf-8")
        return e[:rng.randint(1, len(e))]
    if r < 0.60:
        return bytes([rng.randint(0x80, 0xbf)]) * rng.randint(1, 3)     # continuation octets (complete or reject)
    if r < 0.72:
        return rng.choice(FIRST_ILLEGAL) + b"xy"[:rng.randint(0, 2)]
    if r < 0.84:
        return rng.choice(ill)
    if r < 0.90:
        return b""
    return b"abcdefgh"[:rng.randint(1, 8)]


def random_program(rng, well, ill, nslots=5, nops=48):
    ops = []
    live = set()
    for _ in range(nops):
        r = rng.random()
        free = [s for s in range(nslots) if s not in live]
        if (r < 0.16 or not live) and free:
            s = rng.choice(free)
            ops.append(["new", s])
            live.add(s)
            if rng.random() < 0.35:
                ops.append(["reset", s])
        elif r < 0.66 and live:
            ops.append(["feed", rng.choice(sorted(live)), _chunk(rng, well, ill).hex()])
        elif r < 0.72 and live:
            ops.append(["reset", rng.choice(sorted(live))])
        elif r < 0.84 and live:
            s = rng.choice(sorted(live))
            ops.append(["drop", s] if rng.random() < 0.75 else ["cycle-drop", s])
            live.discard(s)
        elif r < 0.88:
            ops.append(["gc"])
        else:
            ops.append(["tmp", _chunk(rng, well, ill).hex()])
    return ops


# ------------------------------------------------------------------------------------------------
# execution + monitor


def execute(factory, ops):
    """Run ``ops`` on real validator objects made by ``factory``; -> list (one entry per op: quad or None)."""
    slots = {}
    out = []
    for op in ops:
        kind = op[0]
        res = None
        if kind == "new":
            slots[op[1]] = factory()
        elif kind == "feed":
            res = tuple(slots[op[1]].validate(bytes.fromhex(op[2])))
        elif kind == "reset":
            slots[op[1]].reset()
        elif kind == "drop":
            del slots[op[1]]
        elif kind == "cycle-drop":
            holder = [slots.pop(op[1])]
            holder.append(holder)
            del holder
        elif kind == "gc":
            gc.collect()
        elif kind == "tmp":
            res = tuple(factory().validate(bytes.fromhex(op[1])))
        else:
            raise ValueError(op)
        out.append(res)
    slots.clear()
    return out


class LifecycleMonitor:
    """``factories``: {impl name: callable -> fresh validator object};  ``isolated(name, chunks)`` -> list of quads
    from a long-lived validator that is reset() first (None = not available)."""

    def __init__(self, R, factories, flavour, isolated=None):
        self.R = R
        self.factories = factories
        self.flavour = flavour
        self.isolated = isolated
        self.recent = []          # ops of the preceding programs (part of the replay: dead objects matter)

    # -- reference pass: annotate every compared op with prediction + situation -------------------
    def _annotate(self, ops):
        refs = {}
        pending_gc = []           # end states of cycle-dropped objects, finalised at the next gc
        dead_dirty = 0            # objects finalised so far in a non-start state
        last_dead = None          # end-state class of the most recently finalised object
        last_called = None        # slot of the most recent validate() call
        ann = []
        for op in ops:
            kind = op[0]
            a = None
            if kind == "new":
                r = refs[op[1]] = RefStream()
                r.birth = (dead_dirty, last_dead)
            elif kind == "reset":
                refs[op[1]].reset()
            elif kind in ("drop", "cycle-drop"):
                st = refs.pop(op[1]).end_state()
                if kind == "drop":
                    last_dead = st
                    dead_dirty += st != "start"
                else:
                    pending_gc.append(st)
            elif kind == "gc":
                for st in pending_gc:
                    last_dead = st
                    dead_dirty += st != "start"
                pending_gc = []
            elif kind == "feed":
                r = refs[op[1]]
                first_fresh = r.calls == 0 and r.resets == 0
                others_dirty = any(o is not r and o.end_state() != "start" for o in refs.values())
                interleaved = last_called is not None and last_called != op[1] and last_called in refs and r.calls > 0
                c = bytes.fromhex(op[2])
                after = r.bad is not None
                e = r.feed(c)
                a = {"want": e, "after": after, "chunk": c, "fresh": r.resets == 0, "first_fresh": first_fresh,
                     "birth": r.birth, "others_dirty": others_dirty, "interleaved": interleaved,
                     "stream": list(r.chunks)}
                last_called = op[1]
            elif kind == "tmp":
                c = bytes.fromhex(op[1])
                r = RefStream()
                e = r.feed(c)
                a = {"want": e, "after": False, "chunk": c, "fresh": True, "first_fresh": True,
                     "birth": (dead_dirty, last_dead), "others_dirty": any(o.end_state() != "start" for o in refs.values()),
                     "interleaved": False, "stream": [c], "tmp": True}
                # the temporary dies right after the call
                st = r.end_state()
                last_dead = st
                dead_dirty += st != "start"
            ann.append(a)
        return ann

    def run_program(self, ops, kind):
        R = self.R
        R.count("evaluations")
        R.count("lifecycle_programs")
        ann = self._annotate(ops)
        case = {"lifecycle": ops, "prelude": list(self.recent)}
        results = {}
        for name, factory in self.factories.items():
            got = execute(factory, ops)
            gc.collect()
            results[name] = got
            for j, (g, a) in enumerate(zip(got, ann)):
                if a is None:
                    continue
                R.count("lifecycle_returns_compared")
                if a["first_fresh"]:
                    R.count("lifecycle_fresh_first_calls")
                    if a.get("tmp"):
                        R.count("lifecycle_tmp_calls")
                    if a["birth"][0]:
                        R.count("lifecycle_fresh_after_dirty_dead")
                    if a["birth"][1] is not None:
                        R.seen("lifecycle_dead_states", a["birth"][1])
                if a["interleaved"] or a["others_dirty"]:
                    R.count("lifecycle_interleaved_calls")
                situation = "fresh-object" if a["fresh"] else "reused-object"
                if a["after"]:
                    if len(a["chunk"]) > 0:
                        R.count("lifecycle_sticky_calls")
                        if g[0] is not False:
                            self._report(name, situation, "accepts-after-reject", g, None, a, j, case)
                    continue
                e = a["want"]
                if e[0] is False:
                    R.count("lifecycle_rejections_observed")
                if tuple(g) != tuple(e):
                    clause = "accept-reject" if g[0] != e[0] else ("ends-on-code-point" if g[1] != e[1] else "position")
                    self._report(name, situation, clause, g, e, a, j, case)
        names = sorted(results)
        for n in names[1:]:
            R.count("lifecycle_agreement_compared")
            if results[n] != results[names[0]]:
                j = next(i for i, (x, y) in enumerate(zip(results[names[0]], results[n])) if x != y)
                R.violation("C09/disagree-lifecycle/%s-vs-%s" % (names[0], n),
                            "implementations return different sequences for the same lifecycle program (first difference at op %d: %r vs %r)"
                            % (j, results[names[0]][j], results[n][j]),
                            {"ops": ops, "op": j, names[0]: results[names[0]][j], n: results[n][j], "flavour": self.flavour}, case)
        if any(a and (a["want"] is None or a["want"][0] is False or any(b >= 0x80 for b in a["chunk"])) for a in ann):
            R.seen("nontrivial", h([kind, ops]))
        R.seen("kinds", kind.split("/")[0])
        R.sample({"ops": ops, "returns": {k: [list(x) if x else None for x in v] for k, v in results.items()}},
                 kind=kind.split("/")[0], every=211)
        self.recent.append(ops)
        del self.recent[:-2]

    def _report(self, name, situation, clause, g, e, a, j, case):
        iso = None
        if self.isolated is not None:
            try:
                iso = self.isolated(name, a["stream"])
            except Exception as ex:       # the isolation run only classifies; it never decides
                iso = "isolation failed: %r" % (ex,)
        detail = {"op": j, "got": g, "want": e, "own_chunks_since_construction_or_reset": [c.hex() for c in a["stream"]],
                  "situation": situation, "predecessors_finalised_dirty": a["birth"][0], "last_finalised_state": a["birth"][1],
                  "other_live_objects_dirty": a["others_dirty"], "isolated_rerun": iso, "flavour": self.flavour,
                  "ops": case["lifecycle"]}
        same_in_isolation = isinstance(iso, list) and iso and tuple(iso[-1]) == tuple(g)
        if same_in_isolation:
            # not caused by the object's history or its neighbours: the ordinary key of sections A-D
            self.R.violation("C09/%s/%s" % (name, clause),
                             "validate() returned %r, reference predicts %r (also on an isolated, reset() validator)" % (g, e),
                             detail, {"chunks": [c.hex() for c in a["stream"]], "align": None})
            return
        if clause == "accepts-after-reject":
            what = "validate() reports valid=True for a non-empty chunk after an earlier chunk of the SAME object was rejected"
        else:
            what = ("validate() of a %s returned %r, the reference predicts %r for the octets this object has seen since its "
                    "construction/reset() %r; the same chunks on an isolated reset() validator give %r"
                    % (situation, g, e, [c.hex() for c in a["stream"]], iso[-1] if isinstance(iso, list) and iso else iso))
        self.R.violation("C09/%s/lifecycle/%s/%s" % (name, situation, clause), what, detail, case)
