"""Helpers of check C18: application payload generator, JSON-able case encoding, type-aware deep
comparison, and a factory for exception classes of every constructor kind the property quantifies
over.  Nothing here imports autobahn at module level (the coordinator imports the check module
without a framework selected)."""

import re

MAXINT = 2 ** 53
RUNTIME_ERROR = "wamp.error.runtime_error"

# keyword names ApplicationError / CallResult reserve (documented exclusion of the property)
RESERVED_KW = ("enc_algo", "callee", "callee_authid", "callee_authrole", "forward_for")
# keyword names that collide with the *positional* parameters of ApplicationError.__init__(self, error, ..)
COLLIDING_KW = ("error", "self")

INT_BOUNDARY = [0, 1, -1, 127, 128, 255, 256, -128, -129, 65535, 65536, 2 ** 31 - 1, 2 ** 31, -2 ** 31 - 1,
                2 ** 32, 2 ** 53 - 1, 2 ** 53, -2 ** 53 + 1, -2 ** 53]
FLOATS = [0.0, 1.5, -2.25, 0.1, 1e10, -1e-5, 3.141592653589793, 1e22, 123456.789, 2.0 ** 60, 1e300, -1e-300]
STRINGS = ["", "a", "hello world", "é", "日本語", "\U0001f600", "\U00010000", "\U0010ffff",
           "￿", "é", "الع", "\x7f", "\x01\x02", "a\x18b", "tab\there\nnl", 'q"uote\\',
           "a\x00b", "null", "x" * 300, "€" * 70, "\U0001f468‍\U0001f469‍\U0001f467", "  ",
           "﻿bom", "Traceback (most recent call last):"]
BYTES = [b"", b"\x00", b"a", b"\xff\xfe\x00", b"\x18", bytes(range(256)), b"[1,2]", b"\xc3\x28", b"x" * 70]
KEYS = ["a", "b", "key", "", "é", "\U0001f600", "a.b", "with space", "K" * 40, "0", "é",
        "args", "kwargs", "message", "cls", "uri", "exception", "code2", "details", "payload"]

# error URIs valid under the (loose, non-empty components) rule the receiving session applies
URI_POOL = ["com.myapp.error", "com.myapp.error.not_found", "a", "wamp.error.runtime_error", "wamp.error.not_authorized",
            "wamp.error.canceled", "com.Mixed-Case.ERR_1", "com.myapp.é.\U0001f600", "1.2.3", "com.myapp.err-with-dash",
            "x" * 120 + ".e", "com.myapp.<name>.err", "org.example.very.deep.uri.with.many.components.e1",
            "wamp.error.invalid_payload", "wamp.error.payload_size_exceeded"]
_URI_LOOSE = re.compile(r"^([^\s\.#]+\.)*([^\s\.#]+)$")
for _u in URI_POOL:
    assert _URI_LOOSE.match(_u), _u

# URIs a class can be *registered* under: uri.Pattern (used by @wamp.error and define()) documents components
# [a-z0-9][a-z0-9_-]* or a <name> placeholder - registering anything else is refused by the API, not by the property
_REG_COMPONENT = re.compile(r"^([a-z0-9][a-z0-9_\-]*|<[a-z][a-z0-9_]*>)$")
REG_URI_POOL = ["com.myapp.error", "com.myapp.error.not_found", "com.myapp.error.not_found.deep", "a", "a.b",
                "wamp.error.runtime_error", "wamp.error.not_authorized", "wamp.error.canceled", "1.2.3",
                "com.myapp.err-with-dash", "com.myapp.<name>.err", "org.example.very.deep.uri.with.many.components.e1",
                "wamp.error.invalid_payload", "wamp.error.payload_size_exceeded", "com.myapp.err", "com.myapp.erro",
                "wamp.error", "com", "com.myapp", "x" * 120 + ".e"]
for _u in REG_URI_POOL:
    assert _URI_LOOSE.match(_u) and all(_REG_COMPONENT.match(c) for c in _u.split(".")), _u


def related_uris(u):
    """URIs that an inexact (prefix / suffix / case-folding / truncating) registry lookup would confuse with ``u``."""
    out = [u + ".sub", u + "x", u + ".0", "x." + u, u.upper() if u.upper() != u else u + ".U"]
    if "." in u:
        out.append(u.rsplit(".", 1)[0])
        out.append(u.split(".", 1)[1])
    if len(u) > 1 and not u[:-1].endswith("."):
        out.append(u[:-1])
    return [x for x in out if x != u and _URI_LOOSE.match(x)]


class PayloadGen:
    """Values in the property's claim: ints up to 2^53, floats, bool, None, unicode (BMP, astral, controls),
    bytes, nested lists (sometimes tuples) / dicts with str keys to depth 3.  Strings starting with U+0000 are
    not produced (reserved prefix of the WAMP JSON binary convention - documented grey zone)."""

    def __init__(self, rng, max_depth=3):
        self.rng = rng
        self.max_depth = max_depth
        self.kinds = set()

    def scalar(self):
        r = self.rng
        k = r.randrange(8)
        if k == 0:
            self.kinds.add("int")
            return r.choice(INT_BOUNDARY) if r.random() < 0.6 else r.randint(-MAXINT, MAXINT)
        if k == 1:
            self.kinds.add("float")
            return r.choice(FLOATS) if r.random() < 0.5 else r.uniform(-1e6, 1e6)
        if k == 2:
            self.kinds.add("bool")
            return r.random() < 0.5
        if k == 3:
            self.kinds.add("none")
            return None
        if k in (4, 5):
            if r.random() < 0.7:
                s = r.choice(STRINGS)
            else:
                s = "".join(chr(r.choice([r.randint(0x20, 0x7e), r.randint(0xa0, 0xd7ff), r.randint(0xe000, 0xfffd),
                                          r.randint(0x10000, 0x10ffff)])) for _ in range(r.randint(1, 12)))
            self.kinds.add("astral" if any(ord(c) > 0xffff for c in s) else "str")
            return s
        self.kinds.add("bytes")
        return r.choice(BYTES) if r.random() < 0.6 else bytes(r.getrandbits(8) for _ in range(r.randint(1, 40)))

    def key(self):
        r = self.rng
        return r.choice(KEYS) if r.random() < 0.8 else "k%d" % r.randrange(1000)

    def value(self, depth=1):
        r = self.rng
        if depth >= self.max_depth or r.random() < 0.5:
            return self.scalar()
        if r.random() < 0.5:
            self.kinds.add("list@%d" % (depth + 1))
            v = [self.value(depth + 1) for _ in range(r.choice([0, 1, 2, 3]))]
            if r.random() < 0.15:
                self.kinds.add("tuple")
                return tuple(v)
            return v
        self.kinds.add("dict@%d" % (depth + 1))
        return {self.key(): self.value(depth + 1) for _ in range(r.choice([0, 1, 2, 3]))}

    def args(self, n=None):
        if n is None:
            n = self.rng.choice([0, 1, 1, 2, 3, 5])
        return [self.value(1) for _ in range(n)]

    def kwargs(self, n=None):
        if n is None:
            n = self.rng.choice([0, 1, 2, 3])
        out = {}
        for _ in range(n):
            out[self.key()] = self.value(1)
        return out

    def deep(self):
        self.kinds.update(["list@2", "dict@3", "bytes", "astral", "int"])
        return [{"l2": [b"\x00\xffbin", "\U0001f600é", -2 ** 53, 2 ** 53, 0.1], "n": None, "t": True}, [], {}]


# ---------------------------------------------------------------------------------------------
# JSON-able encoding of payloads (replay files)
# ---------------------------------------------------------------------------------------------

def enc(v):
    if isinstance(v, (bytes, bytearray)):
        return {"$b": bytes(v).hex()}
    if isinstance(v, tuple):
        return {"$t": [enc(x) for x in v]}
    if isinstance(v, list):
        return [enc(x) for x in v]
    if isinstance(v, dict):
        return {"$d": [[k, enc(x)] for k, x in v.items()]}
    if isinstance(v, float):
        return {"$f": v.hex()}
    return v


def dec(v):
    if isinstance(v, list):
        return [dec(x) for x in v]
    if isinstance(v, dict):
        if "$b" in v:
            return bytes.fromhex(v["$b"])
        if "$t" in v:
            return tuple(dec(x) for x in v["$t"])
        if "$f" in v:
            return float.fromhex(v["$f"])
        return {k: dec(x) for k, x in v["$d"]}
    return v


# ---------------------------------------------------------------------------------------------
# comparison: tuple == list is the only admitted normalisation
# ---------------------------------------------------------------------------------------------

def norm(v):
    if isinstance(v, (list, tuple)):
        return [norm(x) for x in v]
    if isinstance(v, dict):
        return {k: norm(x) for k, x in v.items()}
    if isinstance(v, (bytearray, memoryview)):
        return bytes(v)
    return v


def same(a, b):
    """Type-aware deep equality of normalised payloads."""
    if isinstance(a, bool) or isinstance(b, bool):
        return type(a) is type(b) and a == b
    if isinstance(a, int) and isinstance(b, int):
        return a == b
    if isinstance(a, float) and isinstance(b, float):
        return a == b or (a != a and b != b)
    if isinstance(a, str) and isinstance(b, str):
        return a == b
    if isinstance(a, bytes) and isinstance(b, bytes):
        return a == b
    if a is None or b is None:
        return a is None and b is None
    if isinstance(a, list) and isinstance(b, list):
        return len(a) == len(b) and all(same(x, y) for x, y in zip(a, b))
    if isinstance(a, dict) and isinstance(b, dict):
        return set(a) == set(b) and all(same(a[k], b[k]) for k in a)
    return False


def brief(v, n=300):
    s = repr(v)
    return s if len(s) <= n else s[:n] + "...(%d chars)" % len(s)


# ---------------------------------------------------------------------------------------------
# exception classes of every constructor kind
# ---------------------------------------------------------------------------------------------

CTOR_KINDS = ["plain", "kw", "arity0", "arity2", "kwonly", "picky", "raising", "falsy", "formatting", "appsub", "appfixed"]
# kinds whose instances carry keyword arguments (an ``kwargs`` dict attribute, the library's convention)
KW_KINDS = ("kw", "kwonly", "picky", "raising", "appsub", "appfixed")
RAISING_WITH = ["RuntimeError", "TypeError", "KeyError", "ApplicationError", "ZeroDivisionError"]


def make_class(kind, env, base=None, fixed_uri=None, raising_with="RuntimeError", name=None):
    """A fresh exception class.  ``env`` is the per-case switch board: ``env['allow_ctor']`` lets the
    'raising' kind be constructed on the raising side only."""
    from autobahn.wamp.exception import ApplicationError

    B = base or Exception
    if kind == "plain":
        class X(B):
            pass
    elif kind == "kw":
        class X(B):
            def __init__(self, *a, **kw):
                Exception.__init__(self, *a)
                self.kwargs = kw
    elif kind == "arity0":
        class X(B):
            def __init__(self):
                Exception.__init__(self)
    elif kind == "arity2":
        class X(B):
            def __init__(self, first, second):
                Exception.__init__(self, first, second)
    elif kind == "kwonly":
        class X(B):
            def __init__(self, *, code=None, msg=None):
                Exception.__init__(self)
                self.kwargs = {}
                if code is not None:
                    self.kwargs["code"] = code
                if msg is not None:
                    self.kwargs["msg"] = msg
    elif kind == "picky":
        class X(B):
            def __init__(self, code, msg="", **kw):
                if type(code) is not int:
                    raise TypeError("code must be an int")
                if code < 0:
                    raise ValueError("code must not be negative")
                Exception.__init__(self, code, msg)
                self.kwargs = kw
    elif kind == "raising":
        class X(B):
            def __init__(self, *a, **kw):
                if not env.get("allow_ctor"):
                    env["ctor_raised"] = env.get("ctor_raised", 0) + 1
                    if raising_with == "ApplicationError":
                        raise ApplicationError("com.myapp.ctor_refuses", "constructor refuses")
                    if raising_with == "ZeroDivisionError":
                        1 / 0
                    raise {"RuntimeError": RuntimeError, "TypeError": TypeError, "KeyError": KeyError}[raising_with](
                        "constructor refuses")
                Exception.__init__(self, *a)
                self.kwargs = kw
    elif kind == "formatting":
        class X(B):                     # the classic: structured parameters, formatted message as the only arg
            def __init__(self, code, detail):
                Exception.__init__(self, "error %r: %r" % (code, detail))
    elif kind == "falsy":
        class X(B):
            def __len__(self):          # e.g. a multi-error container: empty == falsy
                return len(self.args)
    elif kind == "appsub":
        class X(base or ApplicationError):
            pass
    elif kind == "appfixed":
        class X(base or ApplicationError):
            def __init__(self, *a, **kw):
                ApplicationError.__init__(self, fixed_uri, *a, **kw)
    else:
        raise ValueError(kind)
    X.__name__ = X.__qualname__ = name or ("C18_" + kind)
    X.c18_kind = kind
    return X


def decorate(cls, uri):
    from autobahn.wamp import error as wamp_error
    return wamp_error(uri)(cls)
