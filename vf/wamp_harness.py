"""WAMP layer on top of vf.world / vf.ws: a REAL client session (ApplicationSession subclass of
the test) behind a REAL client transport (WAMP-over-WebSocket or WAMP-over-RawSocket, Twisted or
asyncio - by the process' txaio framework), talking to a *scripted router* played by the harness.

The router side never uses autobahn's message classes: it sees and sends plain WAMP lists
(``[48, 1, {}, "com.x", [1]]``) encoded/decoded with the plain serializer libraries (json,
msgpack, cbor2, bjdata), framed by vf.rfc6455_ref (WebSocket) or a 4-octet length prefix
(RawSocket).  So everything the session under test sends is observed AFTER the real
transport's ``send()`` (serialization, size limits, framing), at the wire.

    rp = RouterPeer(session_factory, transport="websocket", serializer="json")
    rp.connect()                     # transport handshake; session.onOpen -> HELLO
    rp.recv()                        # -> [[1, "realm1", {...}]]   (plain lists, in order)
    rp.send([2, 1234, {"roles": {"broker": {}, "dealer": {}}}])    # WELCOME
    rp.lose(clean=False)             # peer TCP loss;  rp.finish()  # deliver our own close
"""

import json
import struct

import txaio

from . import rfc6455_ref as ref
from .world import make_world

WELCOME_ROLES = {"broker": {"features": {}}, "dealer": {"features": {"progressive_call_results": True, "call_canceling": True}}}


# ---------------------------------------------------------------------------------------
# plain codecs (router side) - independent of autobahn.wamp.serializer
# ---------------------------------------------------------------------------------------

def _json_default(o):
    if isinstance(o, (bytes, bytearray)):
        import base64
        return "\x00" + base64.b64encode(bytes(o)).decode("ascii")
    raise TypeError(repr(o))


def _json_unbin(o):
    """WAMP JSON convention: strings starting with NUL are base64 binaries."""
    import base64
    if isinstance(o, str):
        if o.startswith("\x00"):
            return base64.b64decode(o[1:])
        return o
    if isinstance(o, list):
        return [_json_unbin(x) for x in o]
    if isinstance(o, dict):
        return {k: _json_unbin(v) for k, v in o.items()}
    return o


def _codec(name):
    if name == "json":
        return (lambda o: json.dumps(o, separators=(",", ":"), ensure_ascii=False, default=_json_default).encode("utf8"),
                lambda b: _json_unbin(json.loads(b.decode("utf8"))), False, 1)
    if name == "msgpack":
        import msgpack
        return (lambda o: msgpack.packb(o, use_bin_type=True), lambda b: msgpack.unpackb(b, raw=False, strict_map_key=False), True, 2)
    if name == "cbor":
        import cbor2
        return (cbor2.dumps, cbor2.loads, True, 3)
    if name == "ubjson":
        import bjdata
        return (bjdata.dumpb, bjdata.loadb, True, 4)
    raise ValueError(name)


def make_serializer(name, batched=False):
    """The library's serializer object for the transport under test."""
    from autobahn.wamp import serializer as S
    cls = {"json": S.JsonSerializer, "msgpack": S.MsgPackSerializer, "cbor": S.CBORSerializer,
           "ubjson": S.UBJSONSerializer}[name]
    return cls(batched=batched)


SERIALIZERS = ["json", "msgpack", "cbor", "ubjson"]


# ---------------------------------------------------------------------------------------

class RouterPeer:
    """One real client transport + session; the harness is the router."""

    def __init__(self, session_factory, transport="websocket", serializer="json", world=None,
                 ws_options=None, rs_max_size=None, url="ws://127.0.0.1:9000/ws", router_max_len_exp=24):
        self.world = world or make_world()
        self.kind = transport
        self.ser_name = serializer
        self.dumps, self.loads, self.binary, self.rs_id = _codec(serializer)
        self.session_factory = session_factory
        self.ws_options = ws_options or {}
        self.rs_max_size = rs_max_size
        self.url = url
        self.router_max_len_exp = router_max_len_exp    # RawSocket: what the router announces (2**exp)
        self.ep = None
        self.inbuf = bytearray()      # octets from the client not yet parsed into frames
        self.received = []            # every WAMP list ever received (wire order)
        self._unread = []
        self.raw_frames = []          # (opcode|None, payload bytes) as seen on the wire
        self.ws_close_frames = []     # (code, reason) of close frames written by the client
        self.handshake_ok = False
        self.http_request = None
        self.sessions = []
        self.frag_msg = None

    # -- set-up ------------------------------------------------------------------------
    def _factory(self):
        def make_session():
            s = self.session_factory()
            self.sessions.append(s)
            return s

        tx = self.world.fw == "tx"
        ser = make_serializer(self.ser_name)
        if self.kind == "websocket":
            if tx:
                from autobahn.twisted.websocket import WampWebSocketClientFactory
                f = WampWebSocketClientFactory(make_session, url=self.url, serializers=[ser], reactor=self.world.clock)
            else:
                from autobahn.asyncio.websocket import WampWebSocketClientFactory
                f = WampWebSocketClientFactory(make_session, url=self.url, serializers=[ser], loop=self.world.loop)
            if self.ws_options:
                f.setProtocolOptions(**self.ws_options)
            return f
        if tx:
            from autobahn.twisted.rawsocket import WampRawSocketClientFactory
            f = WampRawSocketClientFactory(make_session, serializer=ser)
            if self.rs_max_size:
                f.setProtocolOptions(maxMessagePayloadSize=self.rs_max_size)
        else:
            from autobahn.asyncio.rawsocket import WampRawSocketClientFactory
            f = WampRawSocketClientFactory(make_session, serializer=ser)
        return f

    def connect(self, complete_handshake=True):
        self.factory = self._factory()
        self.ep = self.world.attach(self.factory, "client")
        self.world.settle()
        if complete_handshake:
            self.complete_handshake()
        return self

    def complete_handshake(self):
        out = self.ep.take_output()
        if self.kind == "websocket":
            parsed = ref.parse_http_head(out)
            assert parsed, "client did not send an HTTP request: %r" % out[:80]
            self.http_request = parsed
            key = parsed[1]["sec-websocket-key"][0]
            self.inbuf += parsed[2]
            self.ep.feed(ref.server_response(key, protocol="wamp.2." + self.ser_name))
        else:
            assert len(out) >= 4 and out[0] == 0x7F, "client did not send a RawSocket handshake: %r" % out[:8]
            self.client_hs = bytes(out[:4])
            self.client_max_len = 2 ** (9 + (out[1] >> 4))
            self.inbuf += out[4:]
            self.ep.feed(bytes([0x7F, ((self.router_max_len_exp - 9) << 4) | self.rs_id, 0, 0]))
        self.world.settle()
        self.handshake_ok = True

    @property
    def session(self):
        return self.sessions[-1] if self.sessions else None

    @property
    def proto(self):
        return self.ep.proto

    # -- wire -> router ------------------------------------------------------------------
    def _pull(self):
        self.world.settle()
        self.inbuf += self.ep.take_output()
        if self.kind == "websocket":
            frames, rest = ref.parse_frames(bytes(self.inbuf), allow_partial=True)
            self.inbuf = bytearray(rest)
            for f in frames:
                self.raw_frames.append((f.opcode, f.payload, f.masked))
                if f.opcode in (1, 2, 0):
                    if f.opcode != 0:
                        self.frag_msg = [f.opcode, []]
                    self.frag_msg[1].append(f.payload)
                    if f.fin:
                        op, chunks = self.frag_msg
                        self.frag_msg = None
                        self._on_wamp_payload(b"".join(chunks), op == 2)
                elif f.opcode == 8:
                    code = struct.unpack("!H", f.payload[:2])[0] if len(f.payload) >= 2 else None
                    self.ws_close_frames.append((code, f.payload[2:].decode("utf8", "replace")))
        else:
            while len(self.inbuf) >= 4:
                ftype = self.inbuf[0]
                ln = (self.inbuf[1] << 16) | (self.inbuf[2] << 8) | self.inbuf[3]
                if len(self.inbuf) < 4 + ln:
                    break
                payload = bytes(self.inbuf[4:4 + ln])
                del self.inbuf[:4 + ln]
                self.raw_frames.append((ftype, payload, None))
                if ftype == 0:
                    self._on_wamp_payload(payload, self.binary)

    def _on_wamp_payload(self, payload, is_binary):
        try:
            m = self.loads(payload)
        except Exception as e:
            m = ["UNDECODABLE", repr(e), payload.hex()[:200]]
        self.last_payload_len = len(payload)
        self.received.append(m)
        self._unread.append(m)
        self.received_meta = getattr(self, "received_meta", [])
        self.received_meta.append({"len": len(payload), "binary": is_binary})

    def recv(self):
        """WAMP lists the client has sent since the last recv()."""
        self._pull()
        out, self._unread = self._unread, []
        return out

    # -- router -> wire ------------------------------------------------------------------
    def encode(self, wamp_list):
        payload = self.dumps(wamp_list)
        if self.kind == "websocket":
            return ref.encode_frame(ref.OP_BIN if self.binary else ref.OP_TEXT, payload)
        return bytes([0, (len(payload) >> 16) & 0xFF, (len(payload) >> 8) & 0xFF, len(payload) & 0xFF]) + payload

    def send(self, wamp_list, seg=None):
        """Deliver one WAMP message to the client (optionally cut into reads by seg(data)->[chunks])."""
        data = self.encode(wamp_list)
        self.send_raw(data, seg)

    def send_raw(self, data, seg=None):
        for chunk in (seg(data) if seg else [data]):
            self.ep.feed(chunk)
        self.world.settle()

    def welcome(self, session_id=7001, details=None):
        d = {"roles": WELCOME_ROLES, "realm": "realm1", "authid": "anon", "authrole": "anonymous"}
        d.update(details or {})
        self.send([2, session_id, d])

    def join(self, session_id=7001):
        """connect + consume HELLO + WELCOME.  Returns the HELLO list."""
        if self.ep is None:
            self.connect()
        msgs = self.recv()
        hello = msgs[0] if msgs else None
        self.welcome(session_id)
        return hello

    # -- transport events ------------------------------------------------------------------
    def lose(self, clean=False):
        """The router side drops TCP."""
        r = self.ep.peer_close(clean)
        self.world.settle()
        return r

    def finish(self):
        """Deliver connection-lost for a close the client asked for (loseConnection/abort/close)."""
        r = self.ep.finish_close()
        self.world.settle()
        return r

    def ws_reply_close(self, code=1000, reason=""):
        """WebSocket closing handshake from the router side: reply/initiate close frame, then drop TCP."""
        self.ep.feed(ref.encode_frame(ref.OP_CLOSE, ref.close_payload(code, reason)))
        self.world.settle()
        self._pull()

    def teardown(self):
        """Bring the transport down whatever state it is in (end of a case)."""
        self._pull()
        if not self.ep.lost:
            if self.ep.close_requested:
                self.finish()
            else:
                self.lose(clean=False)
        self.world.settle()

    def close_world(self):
        if hasattr(self.world, "close"):
            self.world.close()


# ---------------------------------------------------------------------------------------
# future helpers (Deferred / asyncio.Future) - completion observation without the loop
# ---------------------------------------------------------------------------------------

class Outcome:
    """Records every completion of a Deferred/Future (value or failure)."""

    def __init__(self, fut, world=None, tag=None):
        self.tag = tag
        self.results = []      # ('ok', value) | ('err', exception)
        self.fut = fut
        if txaio.using_twisted:
            def ok(v):
                self.results.append(("ok", v))
                return None

            def err(f):
                self.results.append(("err", f.value))
                return None
            fut.addCallbacks(ok, err)
        else:
            def done(f):
                if f.cancelled():
                    self.results.append(("err", RuntimeError("cancelled")))
                elif f.exception() is not None:
                    self.results.append(("err", f.exception()))
                else:
                    self.results.append(("ok", f.result()))
            fut.add_done_callback(done)

    @property
    def done(self):
        return bool(self.results)


def is_future(x):
    if txaio.using_twisted:
        from twisted.internet.defer import Deferred
        return isinstance(x, Deferred)
    import asyncio
    return asyncio.isfuture(x)
