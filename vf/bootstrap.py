"""Make sure the code under test is /repo's CURRENT working tree.

Import this module first in every worker.  It

* puts ``<repo>/src`` first on ``sys.path`` (``VERIF_REPO_SRC`` overrides the root for the
  self-test runner, which works on scratch copies outside /repo and /verif),
* puts ``/verif/.deps`` (icontract, deal; installed offline by setup.sh) on the path,
* optionally puts a freshly built NVX directory first (``VERIF_NVX_DIR``),
* refuses to continue (exit code 2 = "cannot run", never a verdict) when ``autobahn`` does
  not resolve below the requested root.
"""

import os
import sys

VERIF_ROOT = os.path.dirname(os.path.dirname(os.path.abspath(__file__)))
REPO_SRC = os.path.abspath(os.environ.get("VERIF_REPO_SRC", "/repo/src"))
REPO_ROOT = os.path.dirname(REPO_SRC)
DEPS = os.path.join(VERIF_ROOT, ".deps")


def _setup():
    # never keep a cwd inside src/autobahn/wamp (types.py shadows the stdlib)
    for p in (REPO_SRC,):
        while p in sys.path:
            sys.path.remove(p)
    sys.path.insert(0, REPO_SRC)
    nvx_dir = os.environ.get("VERIF_NVX_DIR")
    if nvx_dir:
        sys.path.insert(0, nvx_dir)
    if VERIF_ROOT not in sys.path:
        sys.path.append(VERIF_ROOT)
    if os.path.isdir(DEPS) and DEPS not in sys.path:
        sys.path.append(DEPS)


_setup()


def ensure_deps():
    """Install icontract/deal offline on demand (a restore of committed files only has no .deps)."""
    if os.path.isdir(os.path.join(DEPS, "icontract")):
        return True
    import subprocess

    env = dict(os.environ, PIP_NO_INDEX="1")
    try:
        subprocess.run(
            ["/venv/bin/pip", "install", "--quiet", "--no-index", "--find-links",
             "/opt/veriftools/wheels", "--target", DEPS, "icontract", "deal"],
            env=env, check=True, stdout=subprocess.DEVNULL, stderr=subprocess.DEVNULL, timeout=300)
    except Exception:
        return False
    if DEPS not in sys.path:
        sys.path.append(DEPS)
    return os.path.isdir(os.path.join(DEPS, "icontract"))


def assert_repo():
    import autobahn

    f = os.path.abspath(autobahn.__file__)
    if not f.startswith(REPO_SRC + os.sep):
        sys.stderr.write("CANNOT-RUN: autobahn resolves to %s, not below %s\n" % (f, REPO_SRC))
        sys.exit(2)
    return f


def use_framework(name):
    """Select txaio's framework for this process ('tx' | 'aio').  Process-global."""
    import txaio

    if name == "tx":
        txaio.use_twisted()
    elif name == "aio":
        txaio.use_asyncio()
    else:
        raise ValueError(name)
    return txaio
