"""C13 engine: real WAMP transports (RawSocket / WebSocket, Twisted or asyncio - by the process'
txaio framework) with *recording stub sessions* on fake transports of one vf.world, plus the
independent references the oracle needs:

* the RawSocket handshake table written from the WAMP specification (magic 0x7F, length nibble
  -> 2**(9+n), serializer ids 1 JSON / 2 MsgPack / 3 CBOR / 4 UBJSON, 24-bit length framing),
* plain codecs (json / msgpack / cbor2 / bjdata) and batched-mode unwrapping to read what a
  transport put on the wire without autobahn's serializers,
* message specs with unique tags and a builder for messages of an exact serialized length.

Nothing in here decides a verdict; checks/c13.py does.
"""

import json
import struct

import txaio

from . import rfc6455_ref as ref
from .world import make_world

RS_IDS = {"json": 1, "msgpack": 2, "cbor": 3, "ubjson": 4}
RS_NAMES = {v: k for k, v in RS_IDS.items()}
BASE_SERIALIZERS = ["json", "msgpack", "cbor", "ubjson"]
WS_SERIALIZER_IDS = ["json", "json.batched", "msgpack", "msgpack.batched", "cbor", "cbor.batched",
                     "ubjson", "ubjson.batched", "flatbuffers"]


# ---------------------------------------------------------------------------------------------
# library serializer objects (configuration of the transports under test)
# ---------------------------------------------------------------------------------------------

def make_serializer(ser_id):
    from autobahn.wamp import serializer as S
    base, _, mode = ser_id.partition(".")
    cls = {"json": S.JsonSerializer, "msgpack": S.MsgPackSerializer, "cbor": S.CBORSerializer,
           "ubjson": S.UBJSONSerializer, "flatbuffers": getattr(S, "FlatBuffersSerializer", None)}[base]
    if base == "flatbuffers":
        return cls()
    return cls(batched=(mode == "batched"))


# ---------------------------------------------------------------------------------------------
# plain codecs - independent of autobahn.wamp.serializer
# ---------------------------------------------------------------------------------------------

def plain_codec(base):
    """(dumps, loads, is_binary)"""
    if base == "json":
        return (lambda o: json.dumps(o, separators=(",", ":"), ensure_ascii=False).encode("utf8"),
                lambda b: json.loads(b.decode("utf8")), False)
    if base == "msgpack":
        import msgpack
        return (lambda o: msgpack.packb(o, use_bin_type=True),
                lambda b: msgpack.unpackb(b, raw=False, strict_map_key=False), True)
    if base == "cbor":
        import cbor2
        return (cbor2.dumps, cbor2.loads, True)
    if base == "ubjson":
        import bjdata
        return (bjdata.dumpb, bjdata.loadb, True)
    raise ValueError(base)


def unbatch(ser_id, payload):
    """Split a transport payload into serialized messages per the WAMP batched-mode definition
    (JSON: each message followed by 0x18; binary serializers: 32-bit big-endian length prefix)."""
    base, _, mode = ser_id.partition(".")
    if mode != "batched":
        return [payload]
    out = []
    if base == "json":
        parts = payload.split(b"\x18")
        if parts[-1] != b"":
            raise ValueError("json.batched payload does not end with the record separator")
        return parts[:-1]
    i = 0
    while i < len(payload):
        if i + 4 > len(payload):
            raise ValueError("batched payload: truncated length prefix")
        (ln,) = struct.unpack("!L", payload[i:i + 4])
        if i + 4 + ln > len(payload):
            raise ValueError("batched payload: truncated record")
        out.append(payload[i + 4:i + 4 + ln])
        i += 4 + ln
    return out


def batch(ser_id, records):
    base, _, mode = ser_id.partition(".")
    if mode != "batched":
        assert len(records) == 1
        return records[0]
    if base == "json":
        return b"".join(r + b"\x18" for r in records)
    return b"".join(struct.pack("!L", len(r)) + r for r in records)


def decode_payload(ser_id, payload):
    """Transport payload -> list of plain WAMP lists (raises when undecodable)."""
    base = ser_id.partition(".")[0]
    loads = plain_codec(base)[1]
    return [loads(r) for r in unbatch(ser_id, payload)]


# ---------------------------------------------------------------------------------------------
# RawSocket wire reference (WAMP spec, "RawSocket Transport")
# ---------------------------------------------------------------------------------------------

def rs_handshake(ser_rs_id, max_exp, magic=0x7F, r2=0, r3=0):
    return bytes([magic, ((max_exp - 9) << 4) | (ser_rs_id & 0x0F), r2, r3])


def rs_frame(payload, ftype=0, length=None):
    n = len(payload) if length is None else length
    return bytes([ftype & 0xFF, (n >> 16) & 0xFF, (n >> 8) & 0xFF, n & 0xFF]) + payload


def rs_parse_stream(data):
    """Octets written by a RawSocket endpoint AFTER its 4 handshake octets -> ([(type_octet, payload)], rest)."""
    out = []
    i = 0
    while len(data) - i >= 4:
        t = data[i]
        n = (data[i + 1] << 16) | (data[i + 2] << 8) | data[i + 3]
        if len(data) - i - 4 < n:
            break
        out.append((t, bytes(data[i + 4:i + 4 + n])))
        i += 4 + n
    return out, bytes(data[i:])


class RsHandshakeView:
    """What 4 handshake octets mean according to the specification."""

    def __init__(self, octets):
        self.octets = bytes(octets)
        self.magic_ok = octets[0] == 0x7F
        self.ser = octets[1] & 0x0F
        self.max_len = 2 ** (9 + (octets[1] >> 4))
        self.reserved_zero = octets[2] == 0 and octets[3] == 0


# ---------------------------------------------------------------------------------------------
# recording stub sessions
# ---------------------------------------------------------------------------------------------

class SessionScript:
    """Behaviour of the stub sessions produced by one factory."""

    def __init__(self, raise_in_open=None, raise_on_message=None, raise_exc="runtime", raise_in_ctor=False,
                 send_on_open=None, on_message=None, try_on_open=None, try_on_message=None):
        self.raise_in_open = raise_in_open
        self.raise_on_message = raise_on_message      # index of the onMessage call that raises
        self.raise_exc = raise_exc                    # 'runtime' | 'protocol'
        self.raise_in_ctor = raise_in_ctor
        self.send_on_open = send_on_open              # list of message objects
        self.on_message = on_message
        # sends issued from INSIDE a session callback, each guarded like careful session code would (try/except around
        # transport.send()); outcome per message in StubSession.site_results = [(site, index, exception | None)]
        self.try_on_open = try_on_open                # list of message objects, sent from inside onOpen()
        self.try_on_message = try_on_message          # (k, [message objects]): sent from inside the k-th onMessage()


class BoomError(RuntimeError):
    """Raised on purpose by session code."""


def _make_exc(kind, where):
    if kind == "protocol":
        from autobahn.wamp.exception import ProtocolError
        return ProtocolError("vf: out-of-phase message (%s)" % where)
    return BoomError("vf: session code failed (%s)" % where)


class StubSession:
    """ISession-like recorder (onOpen / onMessage / onClose) - not an ApplicationSession."""

    # attributes the WebSocket transport's trace logging reads eagerly
    _authid = None
    _session_id = None
    _transport = None

    def __init__(self, book, script):
        self.book = book
        self.script = script
        self.opens = 0
        self.closes = []
        self.msgs = []
        self.events = []
        self.transport = None
        self.send_errors = []
        self.site_results = []
        book.sessions.append(self)
        if script.raise_in_ctor:
            raise _make_exc(script.raise_exc, "constructor")

    def onOpen(self, transport):
        # raise_in_open: 'early' = before the transport is stored, True/'late' = after storing it,
        # 'sent' = after storing it AND sending a first message on it (a session that got as far as HELLO)
        self.opens += 1
        self.events.append(("open",))
        mode = self.script.raise_in_open
        if mode == "early":
            raise _make_exc(self.script.raise_exc, "onOpen, before storing the transport")
        self.transport = transport
        if mode == "sent":
            transport.send(build_message({"k": "call", "id": 1, "tag": "hello-before-raise"}))
        if mode:
            raise _make_exc(self.script.raise_exc, "onOpen")
        for m in self.script.send_on_open or ():
            transport.send(m)
        if self.script.try_on_open:
            self._try_sends("open", self.script.try_on_open)

    def _try_sends(self, site, msgs):
        for i, m in enumerate(msgs):
            try:
                self.transport.send(m)
            except Exception as e:      # noqa - recorded, judged by the oracle
                self.site_results.append((site, i, e))
            else:
                self.site_results.append((site, i, None))

    def onMessage(self, msg):
        idx = len(self.msgs)
        self.msgs.append(msg)
        self.events.append(("msg", idx, bool(self.closes)))
        tom = self.script.try_on_message
        if tom and idx == tom[0]:
            self._try_sends("message", tom[1])
        if self.script.raise_on_message is not None and idx == self.script.raise_on_message:
            raise _make_exc(self.script.raise_exc, "onMessage")
        if self.script.on_message:
            self.script.on_message(self, msg)

    def onClose(self, wasClean):
        self.closes.append(bool(wasClean))
        self.events.append(("close", bool(wasClean)))


class Book:
    """Sessions created by one factory."""

    def __init__(self, script=None):
        self.script = script or SessionScript()
        self.sessions = []

    def __call__(self):
        return StubSession(self, self.script)

    @property
    def opens(self):
        return sum(s.opens for s in self.sessions)

    @property
    def closes(self):
        return sum(len(s.closes) for s in self.sessions)

    @property
    def last(self):
        return self.sessions[-1] if self.sessions else None


def real_session_book():
    """A factory of REAL ApplicationSession objects with counting onOpen/onMessage/onClose (used for
    the out-of-phase corruption: the library's own session raises ProtocolError)."""
    from autobahn.wamp.protocol import ApplicationSession
    from autobahn.wamp.types import ComponentConfig

    book = Book()

    class CountingSession(ApplicationSession):
        def __init__(self, *a, **kw):
            ApplicationSession.__init__(self, *a, **kw)
            self.opens = 0
            self.closes = []
            self.msgs = []
            self.events = []
            self.send_errors = []
            book.sessions.append(self)

        def onOpen(self, transport):
            self.opens += 1
            self.events.append(("open",))
            return ApplicationSession.onOpen(self, transport)

        def onMessage(self, msg):
            self.msgs.append(msg)
            self.events.append(("msg", len(self.msgs) - 1, bool(self.closes)))
            return ApplicationSession.onMessage(self, msg)

        def onClose(self, wasClean):
            self.closes.append(bool(wasClean))
            self.events.append(("close", bool(wasClean)))
            return ApplicationSession.onClose(self, wasClean)

        def onConnect(self):
            self.join("realm1")

    def make():
        return CountingSession(ComponentConfig("realm1", {}))

    book.make = make
    return book


# ---------------------------------------------------------------------------------------------
# environment: world + factories
# ---------------------------------------------------------------------------------------------

class Env:
    def __init__(self, world=None):
        self.world = world or make_world()
        self.tx = self.world.fw == "tx"

    def close(self):
        if hasattr(self.world, "close"):
            self.world.close()

    # -- RawSocket ------------------------------------------------------------------------
    def rs_server_factory(self, session_factory, ser_ids, max_size=None):
        sers = [make_serializer(s) for s in ser_ids]
        if self.tx:
            from autobahn.twisted.rawsocket import WampRawSocketServerFactory
            f = WampRawSocketServerFactory(session_factory, serializers=sers)
            if max_size:
                f.setProtocolOptions(maxMessagePayloadSize=max_size)
        else:
            from autobahn.asyncio.rawsocket import WampRawSocketServerFactory
            f = WampRawSocketServerFactory(session_factory, serializers=sers)
        return f

    def rs_client_factory(self, session_factory, ser_id, max_size=None):
        ser = make_serializer(ser_id)
        if self.tx:
            from autobahn.twisted.rawsocket import WampRawSocketClientFactory
            f = WampRawSocketClientFactory(session_factory, serializer=ser)
            if max_size:
                f.setProtocolOptions(maxMessagePayloadSize=max_size)
        else:
            from autobahn.asyncio.rawsocket import WampRawSocketClientFactory
            f = WampRawSocketClientFactory(session_factory, serializer=ser)
        return f

    # -- WebSocket ------------------------------------------------------------------------
    def ws_server_factory(self, session_factory, ser_ids, options=None, url="ws://127.0.0.1:9000/ws"):
        sers = [make_serializer(s) for s in ser_ids]
        if self.tx:
            from autobahn.twisted.websocket import WampWebSocketServerFactory
            f = WampWebSocketServerFactory(session_factory, url=url, serializers=sers, reactor=self.world.clock)
        else:
            from autobahn.asyncio.websocket import WampWebSocketServerFactory
            f = WampWebSocketServerFactory(session_factory, url=url, serializers=sers, loop=self.world.loop)
        if options:
            f.setProtocolOptions(**options)
        return f

    def ws_client_factory(self, session_factory, ser_ids, options=None, url="ws://127.0.0.1:9000/ws"):
        sers = [make_serializer(s) for s in ser_ids]
        if self.tx:
            from autobahn.twisted.websocket import WampWebSocketClientFactory
            f = WampWebSocketClientFactory(session_factory, url=url, serializers=sers, reactor=self.world.clock)
        else:
            from autobahn.asyncio.websocket import WampWebSocketClientFactory
            f = WampWebSocketClientFactory(session_factory, url=url, serializers=sers, loop=self.world.loop)
        if options:
            f.setProtocolOptions(**options)
        return f

    def attach(self, factory, name):
        return self.world.attach(factory, name)


def ws_wire(ep):
    """Everything a WebSocket endpoint wrote: (http_head bytes, [Frame], rest)."""
    data = bytes(ep.all_out)
    i = data.find(b"\r\n\r\n")
    if i < 0:
        return data, [], b""
    head, body = data[:i + 4], data[i + 4:]
    try:
        frames, rest = ref.parse_frames(body, allow_partial=True)
    except ref.ParseError:
        frames, rest = [], body
    return head, frames, rest


def ws_close_codes(ep):
    _, frames, _ = ws_wire(ep)
    out = []
    for f in frames:
        if f.opcode == ref.OP_CLOSE:
            out.append(struct.unpack("!H", f.payload[:2])[0] if len(f.payload) >= 2 else None)
    return out


def ws_data_messages(ep):
    """[(opcode, payload)] of the complete data messages an endpoint wrote (fragments joined)."""
    _, frames, _ = ws_wire(ep)
    out, cur = [], None
    for f in frames:
        if f.opcode in (ref.OP_TEXT, ref.OP_BIN):
            cur = [f.opcode, [f.payload]]
        elif f.opcode == 0 and cur is not None:
            cur[1].append(f.payload)
        else:
            continue
        if f.fin and cur is not None:
            out.append((cur[0], b"".join(cur[1])))
            cur = None
    return out


# ---------------------------------------------------------------------------------------------
# tagged messages
# ---------------------------------------------------------------------------------------------

MSG_KINDS = ["publish", "event", "call", "result", "invocation", "yield", "error", "subscribe", "subscribed"]


def build_message(spec):
    """spec = {"k": kind, "id": int, "tag": str, "fill": str, "fill2": str} -> autobahn message object."""
    from autobahn.wamp import message as M
    k, i, tag = spec["k"], spec["id"], spec["tag"]
    args = [tag, spec.get("fill", ""), spec.get("fill2", "")]
    kw = {"t": tag}
    if k == "publish":
        return M.Publish(i, "com.vf.topic", args=args, kwargs=kw)
    if k == "event":
        return M.Event(i, i + 1, args=args, kwargs=kw)
    if k == "call":
        return M.Call(i, "com.vf.proc", args=args, kwargs=kw)
    if k == "result":
        return M.Result(i, args=args, kwargs=kw)
    if k == "invocation":
        return M.Invocation(i, i + 1, args=args, kwargs=kw)
    if k == "yield":
        return M.Yield(i, args=args, kwargs=kw)
    if k == "error":
        return M.Error(M.Call.MESSAGE_TYPE, i, "com.vf.error", args=args, kwargs=kw)
    if k == "subscribe":
        return M.Subscribe(i, "com.vf.topic." + tag)
    if k == "subscribed":
        return M.Subscribed(i, i + 1)
    raise ValueError(k)


def plain_message(spec):
    """The same message as a plain WAMP list (WAMP spec message layouts), for the raw-octet peer."""
    k, i, tag = spec["k"], spec["id"], spec["tag"]
    args = [tag, spec.get("fill", ""), spec.get("fill2", "")]
    kw = {"t": tag}
    if k == "publish":
        return [16, i, {}, "com.vf.topic", args, kw]
    if k == "event":
        return [36, i, i + 1, {}, args, kw]
    if k == "call":
        return [48, i, {}, "com.vf.proc", args, kw]
    if k == "result":
        return [50, i, {}, args, kw]
    if k == "invocation":
        return [68, i, i + 1, {}, args, kw]
    if k == "yield":
        return [70, i, {}, args, kw]
    if k == "error":
        return [8, 48, i, {}, "com.vf.error", args, kw]
    if k == "subscribe":
        return [32, i, {}, "com.vf.topic." + tag]
    if k == "subscribed":
        return [33, i, i + 1]
    raise ValueError(k)


_CLASS_OF = {"publish": "Publish", "event": "Event", "call": "Call", "result": "Result", "invocation": "Invocation",
             "yield": "Yield", "error": "Error", "subscribe": "Subscribe", "subscribed": "Subscribed"}


def describe_received(msg):
    """What a received message object says about itself (read through public attributes only)."""
    d = {"cls": type(msg).__name__}
    for a in ("request", "subscription", "publication", "registration", "topic", "procedure", "error", "args", "kwargs"):
        if hasattr(msg, a):
            v = getattr(msg, a)
            if a == "args" and v is not None:
                v = list(v)
            d[a] = v
    return d


def expected_description(spec):
    k, i, tag = spec["k"], spec["id"], spec["tag"]
    args = [tag, spec.get("fill", ""), spec.get("fill2", "")]
    kw = {"t": tag}
    d = {"cls": _CLASS_OF[k]}
    if k == "publish":
        d.update(request=i, topic="com.vf.topic", args=args, kwargs=kw)
    elif k == "event":
        d.update(subscription=i, publication=i + 1, args=args, kwargs=kw)
    elif k == "call":
        d.update(request=i, procedure="com.vf.proc", args=args, kwargs=kw)
    elif k == "result":
        d.update(request=i, args=args, kwargs=kw)
    elif k == "invocation":
        d.update(request=i, registration=i + 1, args=args, kwargs=kw)
    elif k == "yield":
        d.update(request=i, args=args, kwargs=kw)
    elif k == "error":
        d.update(request=i, error="com.vf.error", args=args, kwargs=kw)
    elif k == "subscribe":
        d.update(request=i, topic="com.vf.topic." + tag)
    elif k == "subscribed":
        d.update(request=i, subscription=i + 1)
    return d


def same_message(spec, msg):
    """True when the received message object carries exactly what ``spec`` describes."""
    want = expected_description(spec)
    got = describe_received(msg)
    for key, v in want.items():
        if got.get(key) != v:
            return False, {"field": key, "want": _short(v), "got": _short(got.get(key))}
    return True, None


def _short(v):
    s = repr(v)
    return s if len(s) < 160 else s[:80] + "...(%d chars)..." % len(s) + s[-40:]


def sized_spec(measure, kind, ident, tag, target):
    """A spec whose serialization (``measure(spec) -> int``) is exactly ``target`` octets long, or None."""
    spec = {"k": kind, "id": ident, "tag": tag, "fill": "", "fill2": ""}
    base = measure(spec)
    if base > target:
        return None
    for k2 in range(0, 12):
        spec["fill2"] = "y" * k2
        n = max(0, target - base - k2)
        for _ in range(12):
            spec["fill"] = "x" * n
            got = measure(spec)
            if got == target:
                return spec
            n2 = n + (target - got)
            if n2 < 0 or n2 == n:
                break
            n = n2
    return None


# ---------------------------------------------------------------------------------------------
# segmentation
# ---------------------------------------------------------------------------------------------

SEG_POLICIES = ["whole", "bytewise", "random", "halves", "small", "edges"]


def cut(rng, data, policy):
    """Cut ``data`` into reads.  'bytewise'/'small' degrade to 'edges' for long streams (cost)."""
    n = len(data)
    if n == 0:
        return []
    if policy in ("bytewise", "small") and n > 6000:
        policy = "edges"
    if policy == "burst":
        policy = "random"
    if policy == "whole":
        return [data]
    if policy == "bytewise":
        return [data[i:i + 1] for i in range(n)]
    if policy == "halves":
        c = rng.randint(0, n)
        return [x for x in (data[:c], data[c:]) if x]
    if policy == "small":
        out, i = [], 0
        while i < n:
            k = rng.randint(1, 4)
            out.append(data[i:i + k])
            i += k
        return out
    if policy == "random":
        out, i = [], 0
        while i < n:
            k = rng.choice([1, 1, 2, 3, 5, 8, 13, 64, 1000, 70000, 1 << 20]) if (n < 300000 or i < 64) else rng.choice([70000, 1 << 20, 1 << 22])
            out.append(data[i:i + k])
            i += k
        return out
    if policy == "edges":
        # octet by octet over the first and last 12 octets (headers / boundaries), coarse in between
        head, tail = min(12, n), min(12, max(0, n - 12))
        out = [data[i:i + 1] for i in range(head)]
        mid = data[head:n - tail]
        i = 0
        while i < len(mid):
            k = rng.choice([3, 500, 4096, 65536, 1 << 20]) if len(mid) < 300000 else rng.choice([1 << 19, 1 << 20, 1 << 22])
            out.append(mid[i:i + k])
            i += k
        out += [data[i:i + 1] for i in range(n - tail, n)]
        return [c for c in out if c]
    raise ValueError(policy)


def link_seg(policy):
    """seg(rng, available) -> n for vf.ws.Link.pump_all.  Octet-sized reads are kept for what matters (headers,
    boundaries: the first octets of every burst); bulk data of long bursts moves in large reads (cost)."""
    big = [4096, 65536, 1 << 20, 1 << 22]

    def wrap(f):
        def seg(rng, n):
            if n > 20000:
                return rng.choice(big + [n, f(rng, 16)])
            return f(rng, n)
        return seg
    if policy in ("whole", "burst"):
        return lambda rng, n: n
    if policy == "bytewise":
        return wrap(lambda rng, n: 1)
    if policy == "halves":
        return lambda rng, n: max(1, rng.randint(1, n))
    if policy == "small":
        return wrap(lambda rng, n: rng.randint(1, 4))
    if policy in ("random", "edges"):
        return wrap(lambda rng, n: rng.choice([1, 1, 2, 3, 5, 8, 13, 64, 1000, 70000]))
    raise ValueError(policy)


def feed_burst(ep, chunks):
    """Several data_received() calls back to back inside ONE read event, the loop settles once afterwards
    (vf.world.AioEndpoint.feed_burst: what a transport does that hands over one chunk per record / internal buffer).
    Twisted has no such notion (dataReceived is synchronous): the chunks are simply fed one after the other."""
    if hasattr(ep, "feed_burst"):
        return ep.feed_burst(chunks)
    n = 0
    for ch in chunks:
        if ep.lost or ep.close_requested is not None:
            break
        if ch:
            ep.feed(ch)
            n += 1
    return n


def burst_cut(rng, data, boundaries, mode=None):
    """Cut ``data`` into bursts (lists of 2..6 chunks).  ``boundaries`` = offsets where a unit (frame / handshake) ends.
    mode 'boundaries': cuts only between units; 'inside': only inside units (headers, payloads); 'mixed': both."""
    n = len(data)
    if n < 2:
        return [[data]] if data else []
    mode = mode or rng.choice(["boundaries", "inside", "mixed"])
    inner_b = sorted(b for b in set(boundaries) if 0 < b < n)
    bset = set(inner_b)
    inside = [o for o in range(1, n) if o not in bset]
    # offsets right after the first octets of each unit (headers) are the interesting 'inside' cuts
    near = [b + d for b in [0] + inner_b for d in (1, 2, 3, 4, 5) if 0 < b + d < n and (b + d) not in bset]
    cuts = set()
    if mode in ("boundaries", "mixed") and inner_b:
        cuts.update(rng.sample(inner_b, rng.randint(1, min(len(inner_b), 10))))
    if mode in ("inside", "mixed") and inside:
        k = rng.randint(1, min(len(inside), 10))
        pool = near if (near and rng.random() < 0.5) else inside
        cuts.update(rng.sample(pool, min(k, len(pool))))
    if not cuts:
        cuts.add(rng.randint(1, n - 1))
    offs = [0] + sorted(cuts) + [n]
    chunks = [data[a:b] for a, b in zip(offs, offs[1:])]
    bursts, i = [], 0
    while i < len(chunks):
        k = rng.randint(2, 6)
        bursts.append(chunks[i:i + k])
        i += k
    return bursts


def compositions4():
    """Every way to cut 4 octets into consecutive reads: list of chunk-length lists (8 of them)."""
    out = []
    for mask in range(8):
        parts, start = [], 0
        for i in range(3):
            if mask >> i & 1:
                parts.append(i + 1 - start)
                start = i + 1
        parts.append(4 - start)
        out.append(parts)
    return out


# ---------------------------------------------------------------------------------------------
# fast endpoints: vf.world builds a new transport CLASS per endpoint (zope.interface declaration
# included: ~350 us); the exhaustive handshake space needs millions of connections.  These are
# the same fake transports (semantics copied from vf.world._make_tx_transport /
# _make_aio_transport) with the class defined once; the endpoint classes are vf.world's.
# ---------------------------------------------------------------------------------------------

_FAST = {}


def _fast_tx_class():
    if "tx" in _FAST:
        return _FAST["tx"]
    from twisted.internet.interfaces import ITransport
    from zope.interface import implementer

    @implementer(ITransport)
    class FastTxTransport:
        disconnecting = False
        connected = True

        def __init__(self, ep, host, peer):
            self._ep, self._host, self._peer = ep, host, peer

        def write(self, data):
            ep = self._ep
            if not isinstance(data, (bytes, bytearray, memoryview)):
                raise TypeError("Data must be bytes")
            if ep.close_requested is not None:
                ep.writes_after_close_request += 1
            if ep.close_requested == "abort":
                ep.log("write-after-abort", len(data))
                return
            if ep._record_write(data):
                ep.out += data
                ep.all_out += data

        def writeSequence(self, seq):
            for d in seq:
                self.write(d)

        def loseConnection(self):
            ep = self._ep
            ep.log("loseConnection")
            if ep.close_requested is None and not ep.lost:
                ep.close_requested = "lose"
                ep.close_requested_at = ep.world.now()
                self.disconnecting = True

        def abortConnection(self):
            ep = self._ep
            ep.log("abortConnection")
            if ep.close_requested != "abort" and not ep.lost:
                ep.close_requested = "abort"
                ep.close_requested_at = ep.world.now()
                self.disconnecting = True
                del ep.out[:]

        def getPeer(self):
            return self._peer

        def getHost(self):
            return self._host

        def setTcpNoDelay(self, enabled):
            pass

        def setTcpKeepAlive(self, enabled):
            pass

        def registerProducer(self, producer, streaming):
            self._ep.log("registerProducer")

        def unregisterProducer(self):
            pass

        def pauseProducing(self):
            pass

        def resumeProducing(self):
            pass

        def stopProducing(self):
            pass

    _FAST["tx"] = FastTxTransport
    return FastTxTransport


def _fast_aio_class():
    if "aio" in _FAST:
        return _FAST["aio"]
    import asyncio

    class FastAioTransport(asyncio.Transport):
        def __init__(self, ep, host, peer):
            super().__init__(extra={"peername": peer, "sockname": host})
            self._ep = ep
            self._closing = False

        def write(self, data):
            ep = self._ep
            if not isinstance(data, (bytes, bytearray, memoryview)):
                raise TypeError("data argument must be a bytes-like object, not %r" % type(data).__name__)
            if ep.close_requested is not None:
                ep.writes_after_close_request += 1
                ep.log("write-after-close", len(data))
                if ep.lost:
                    ep.writes_after_lost += 1
                return
            if ep._record_write(data):
                ep.out += data
                ep.all_out += data

        def writelines(self, seq):
            for d in seq:
                self.write(d)

        def can_write_eof(self):
            return True

        def write_eof(self):
            self._ep.log("write_eof")

        def is_closing(self):
            return self._closing

        def close(self):
            ep = self._ep
            ep.log("close")
            if ep.close_requested is None and not ep.lost:
                ep.close_requested = "lose"
                ep.close_requested_at = ep.world.now()
                self._closing = True

        def abort(self):
            ep = self._ep
            ep.log("abort")
            if ep.close_requested != "abort" and not ep.lost:
                ep.close_requested = "abort"
                ep.close_requested_at = ep.world.now()
                self._closing = True
                del ep.out[:]

        def pause_reading(self):
            pass

        def resume_reading(self):
            pass

        def set_write_buffer_limits(self, high=None, low=None):
            pass

        def get_write_buffer_size(self):
            return 0

    _FAST["aio"] = FastAioTransport
    return FastAioTransport


_TX_ADDR = []


def fast_attach(world, factory, name="ep"):
    """world.attach() with the transport class defined once (and without growing world.endpoints)."""
    from . import world as W

    if world.fw == "tx":
        if not _TX_ADDR:
            from twisted.internet.address import IPv4Address
            _TX_ADDR.extend([IPv4Address("TCP", "127.0.0.1", 9000), IPv4Address("TCP", "127.0.0.1", 50000)])
        ep = W.TxEndpoint.__new__(W.TxEndpoint)
        W.EndpointBase.__init__(ep, world, name)
        ep.transport = _fast_tx_class()(ep, _TX_ADDR[0], _TX_ADDR[1])
        proto = factory.buildProtocol(_TX_ADDR[1])
        ep.proto = proto
        try:
            proto.makeConnection(ep.transport)
        except Exception as e:
            ep._escaped("connectionMade", e)
        return ep
    ep = W.AioEndpoint.__new__(W.AioEndpoint)
    W.EndpointBase.__init__(ep, world, name)
    ep.transport = _fast_aio_class()(ep, ("127.0.0.1", 9000), ("127.0.0.1", 50000))
    proto = factory()
    ep.proto = proto
    try:
        proto.connection_made(ep.transport)
    except Exception as e:
        ep._escaped("connection_made", e)
    world.settle()
    return ep
