"""C03 thorough-tier extensions (the shared vf/wamp_grammar.py is not modified; everything here builds on it).

* ``DeepPayloadGen``  - larger / deeper application payloads than ``wamp_grammar.PayloadGen``: depth up to 8, containers up
  to 21 elements (bounded by a node budget), strings/bytes up to several KiB, integers at every width boundary of the
  binary formats (all within +-2^53: the statement's claim), floats at the edges of binary64.  Values whose transport is NOT
  specified for a format are flagged so that the check keeps them away from that format (``skip_bases``):
    - NaN / +-inf: RFC 8259 has no such tokens (JSON out); UBJSON says "encode as null" while BJData says IEEE 754
      (ubjson out: unspecified); MessagePack float64 and CBOR major type 7 are IEEE 754 (msgpack, cbor in).
    - subnormal doubles and the smallest normal double: binary64 values, carried by JSON text (shortest repr round-trips),
      MessagePack and CBOR; the bjdata encoder switches to its high-precision (Decimal) type there (ubjson out).
    - text starting with U+0000 (reserved prefix of the WAMP JSON binary convention): JSON out (as in the quick tier).
* ``gen_deep_cases``  - the enumeration of ``wamp_grammar.gen_cases`` (option subsets x payload modes x draws) re-seeded per
  sub-seed ("several seeds' worth"), with ``DeepPayloadGen`` and larger opaque payloads.
* ``huge_*``          - parametric messages whose serialized size is just below / above 2^16, >= 1 MiB, and > 2^24 octets
  (a 16-bit or 24-bit slip in the 32-bit length prefix of batched framing shows); regenerated from their parameters on replay.
* ``CacheSequencer``  - serialize / mutate+uncache / receive (unserialize -> continue with the received object) programs over
  3..8 serializer instances; oracle = what a FRESH object with the current field values yields through the same serializer.
"""

import random

from vf import wamp_grammar as G

MAXID = G.MAXID

# ------------------------------------------------------------------------------------------------
# value pools
# ------------------------------------------------------------------------------------------------

_w = [7, 8, 15, 16, 23, 24, 31, 32, 52, 53]
INT_EDGES = sorted(set(
    list(G.INT_BOUNDARY) + [23, 24, 25, -23, -24, -25, -31, -32, -33, 2 ** 24 - 1, 2 ** 24, 2 ** 53 - 2, -2 ** 53 + 2, 2 ** 52, -2 ** 52,
                            2 ** 52 + 1, 10 ** 15, -10 ** 15, 999999999999999, 4294967297, -4294967297] +
    [s * (2 ** b + d) for b in _w for d in (-1, 0, 1) for s in (1, -1) if abs(2 ** b + d) <= MAXID]))
assert all(type(x) is int and -MAXID <= x <= MAXID for x in INT_EDGES)

FLOAT_EDGES = [1.7976931348623157e308, -1.7976931348623157e308, 4.450147717014403e-308, -4.450147717014403e-308, 1.0, -1.0, 2.0 ** 53,
               2.0 ** 53 + 2, -2.0 ** 53, 1e15, 1e16, 0.1 + 0.2, 1.0 / 3, 2.0 ** 63, 2.0 ** 64, 1e-7, 123456789.125, 1e-300,
               65504.0, 65505.0, 3.4028234663852886e38, 3.4028235e38, 1.401298464324817e-45, 0.5, 0.333251953125, 100000.0, -0.0,
               9007199254740993.0, 1e21, 1e-6, 1.5e-5, 2.5e-308]
# (bjdata's encoder leaves binary64 below 2.23e-308 - slightly ABOVE the smallest normal double - hence the 'tiny' class)
FLOAT_TINY = [5e-324, -5e-324, 2.2250738585072009e-308, -2.2250738585072009e-308, 2.2250738585072014e-308, 2.2250738585072024e-308,
              1e-320, 2.5e-315]
FLOAT_NONFINITE = [float("nan"), float("inf"), float("-inf")]

_ALPHABETS = ["abcdefghijklmnopqrstuvwxyz0123456789 ", "\u00e9\u00fc\u00df\u00f1\u0142", "\u65e5\u672c\u8a9e\u6f22\u5b57",
              "\U0001f600\U0001f4a9\U00010348\U0010fffd", "e\u0301a\u0308\u0323", "\x01\x02\x18\x1f\x7f\t\n\r", '"\\/ \u2028\u2029',
              "\ud7ff\ufffd\ufeff\uffff"]

BASES = ("json", "msgpack", "cbor", "ubjson")


def skip_bases(pg):
    """Serializer families (by base name) a generated case must not be sent through."""
    out = set()
    if getattr(pg, "nul_prefix", False):
        out.add("json")
    if getattr(pg, "nonfinite", False):
        out.update(("json", "ubjson"))
    if getattr(pg, "tiny", False):
        out.add("ubjson")
    return out


class DeepPayloadGen(G.PayloadGen):
    def __init__(self, rng, allow_nul_prefix=True, max_depth=8, budget=260):
        G.PayloadGen.__init__(self, rng, allow_nul_prefix, max_depth)
        self.nonfinite = False
        self.tiny = False
        self.budget = budget

    def long_text(self, n):
        r = self.rng
        al = r.choice(_ALPHABETS) if r.random() < 0.6 else "".join(_ALPHABETS)
        s = "".join(r.choice(al) for _ in range(min(n, 64)))
        return (s * (n // len(s) + 1))[:n]

    def scalar(self):
        r = self.rng
        self.budget -= 1
        x = r.random()
        if x < 0.16:
            self.kinds.add("int-edge")
            return r.choice(INT_EDGES)
        if x < 0.26:
            self.kinds.add("float-edge")
            return r.choice(FLOAT_EDGES)
        if x < 0.29:
            self.kinds.add("float-nonfinite")
            self.nonfinite = True
            return r.choice(FLOAT_NONFINITE)
        if x < 0.32:
            self.kinds.add("float-tiny")
            self.tiny = True
            return r.choice(FLOAT_TINY)
        if x < 0.39:
            self.kinds.add("str-long")
            return self.long_text(r.choice([127, 128, 255, 256, 257, 1000, 4095, 4096, 6000]))
        if x < 0.45:
            self.kinds.add("bytes-long")
            n = r.choice([23, 24, 255, 256, 257, 1000, 4096, 8191])
            return bytes(r.getrandbits(8) for _ in range(64)) * (n // 64) + bytes(range(n % 64))
        if x < 0.47:
            self.kinds.add("float-random-bits")
            import struct
            while True:
                v = struct.unpack("<d", struct.pack("<Q", r.getrandbits(64)))[0]
                if v == v and v not in (float("inf"), float("-inf")) and abs(v) > 4.5e-308:
                    return v
        return G.PayloadGen.scalar(self)

    def key(self):
        r = self.rng
        x = r.random()
        if x < 0.08:
            return self.long_text(r.choice([31, 32, 255, 256, 300]))
        if x < 0.14:
            return r.choice(["0", "-1", "1.5", "true", "null", "__proto__", "$b", "$d", "a b", "é" * 20, "\U0001f600" * 3])
        return G.PayloadGen.key(self)

    def value(self, depth=0):
        r = self.rng
        if depth >= self.max_depth or self.budget <= 0 or r.random() < 0.30 + 0.05 * depth:
            return self.scalar()
        self.budget -= 1
        n = r.choice([0, 1, 2, 3, 5, 8, 13, 21]) if depth < 3 else r.choice([0, 1, 2, 3])
        if r.random() < 0.5:
            self.kinds.add("list@%d" % (depth + 1))
            v = [self.value(depth + 1) for _ in range(n)]
            return tuple(v) if r.random() < 0.1 else v
        self.kinds.add("dict@%d" % (depth + 1))
        return {self.key(): self.value(depth + 1) for _ in range(n)}

    def args(self, nonempty=True):
        n = self.rng.choice([1, 1, 2, 3, 6, 12]) if nonempty else 0
        return [self.value(1) for _ in range(n)]

    def kwargs(self, nonempty=True):
        if not nonempty:
            return {}
        out = {}
        while not out:
            out = {self.key(): self.value(1) for _ in range(self.rng.choice([1, 2, 4, 9, 16]))}
        return out

    def deep(self):
        """A chain nested 24 levels deep (alternating list/dict) with a binary, an astral string and +-2^53 at the bottom,
        and a wide level on the way."""
        self.kinds.update(["list@1", "dict@2", "list@3", "dict@4", "depth-24", "bytes", "str", "int"])
        v = {"bin": b"\x00\xff\x18bin", "u": "\U0001f600é", "i": -2 ** 53, "j": 2 ** 53, "f": 1.5, "n": None, "t": True}
        for d in range(24):
            v = [v, d] if d % 2 else {"k%d" % d: v, "w": list(range(d))}
        return [v]


# ------------------------------------------------------------------------------------------------
# deep cases: same enumeration as wamp_grammar.gen_cases, other payload generator, re-seeded subsets
# ------------------------------------------------------------------------------------------------

PAYLOADS_DEEP = [b"\x00", b"\x18" * 3, bytes(range(256)) * 4, b"p" * 255, b"q" * 256, b"r" * 65535, b"s" * 65536, b"\xa5\x5a" * 35000,
                 b"ciphertext\xff\x00\x18", b"[1,2,{}]", b"\xc3\x28\xf0\x28\x8c\x28"]


def apply_mode_deep(f, mode, rng, pg, k):
    if mode in ("none", "args0", "args", "args-tuple", "kwargs-only", "args+kwargs", "args0+kwargs", "args+kwargs0", "deep"):
        G.apply_payload_mode(f, mode, rng, pg, k)
        return
    G.apply_payload_mode(f, mode, rng, pg, k)
    if mode != "payload-empty":
        f["payload"] = PAYLOADS_DEEP[k % len(PAYLOADS_DEEP)]


def gen_deep_cases(spec, subseed, draws, part, parts, subsets_tier="quick"):
    """Yield (k, label, mode, fields, pg) like wamp_grammar.gen_cases; ``subseed`` (a string) re-seeds the random option
    subsets, the value rotation and the payload draws."""
    rng = random.Random("%s/%s/subsets-deep" % (subseed, spec.name))
    opts, subsets = G.option_subsets(spec, rng, subsets_tier)
    modes = G.PAYLOAD_MODES if spec.payload else ["none"]
    roles_opt = spec.opt_by_key.get("roles")
    k = 0
    if len(subsets) * len(modes) < 12:
        draws = draws * (12 // (len(subsets) * len(modes)) + 1)
    for si, sub in enumerate(subsets):
        for mode in modes:
            for d in range(draws):
                k += 1
                if k % parts != part:
                    continue
                crng = random.Random("%s/%s/deep/%d" % (subseed, spec.name, k))
                kk = k + crng.randrange(1000)
                pg = DeepPayloadGen(crng)
                f = G.required_fields(spec, kk, sub)
                for i in sub:
                    o = opts[i]
                    pl = G.pool(spec, o)
                    f[o.attr] = pl[(kk + i) % len(pl)]
                if roles_opt is not None:
                    pl = G.pool(spec, roles_opt)
                    f["roles"] = pl[kk % len(pl)]
                if spec.custom and kk % 3 == 0:
                    f["custom"] = [{"x_abc": 1}, {"x_": None, "x_a1": {"n": [1, 2]}}][kk % 2]
                if spec.name in ("Subscribe", "Register"):
                    m = f.get("match")
                    if m == "prefix" and kk % 2:
                        f[spec.layout[-1].attr] = G.URIS_PREFIX[kk % len(G.URIS_PREFIX)]
                    elif m == "wildcard" and kk % 2:
                        f[spec.layout[-1].attr] = G.URIS_WILDCARD[kk % len(G.URIS_WILDCARD)]
                if spec.name in ("Unsubscribed", "Unregistered"):
                    key = "subscription" if spec.name == "Unsubscribed" else "registration"
                    if f.get(key) is not None:
                        f["request"] = 0
                for o in spec.opts:
                    if o.requires and f.get(o.attr) and f.get(o.requires) is None:
                        ro = spec.opt_by_attr[o.requires]
                        f[o.requires] = G.pool(spec, ro)[kk % len(G.pool(spec, ro))]
                # free dicts (authextra / extra) get a generated value now and then
                for a in ("authextra", "extra"):
                    if a in f and f[a] is not None and crng.random() < 0.3:
                        f[a] = pg.kwargs()
                apply_mode_deep(f, mode, crng, pg, kk)
                if not G.admissible(spec, f):
                    continue
                label = "%s/%s" % (spec.name, "+".join(opts[i].key for i in sub) or "-")
                yield k, label, mode, f, pg


# ------------------------------------------------------------------------------------------------
# huge messages (parametric: rebuilt from their parameters on replay, never stored)
# ------------------------------------------------------------------------------------------------

PAYLOAD_CLASSES = ["Publish", "Event", "Call", "Invocation", "Result", "Yield", "Error"]
HUGE_SHAPES = ["bytes", "str", "list", "kwargs-many", "payload", "nested"]
OTHER_HUGE = [("Hello", "authextra"), ("Welcome", "authextra"), ("Challenge", "extra"), ("Authenticate", "extra"), ("Abort", "message"),
              ("Goodbye", "message"), ("Subscribe", "topic"), ("Register", "procedure"), ("Welcome", "custom"), ("Publish", "exclude"),
              ("Publish", "eligible_authid"), ("Call", "forward_for")]
# sizes are the size of the big element; the serialized message is a few dozen octets longer (so 65500 / 65536 bracket 2^16)
HUGE_SIZES_16 = [65470, 65500, 65520, 65536, 70000, 131072]
HUGE_SIZES_20 = [(1 << 20) - 40, 1 << 20, (1 << 20) + 4097, 3 << 20]
HUGE_SIZE_24 = (1 << 24) + (1 << 20)


def _big_text(n, flavour):
    unit = ["abcdefghij", "héllo wörld ", "日本語\U0001f600", "q\"\\\x18\x01z"][flavour % 4]
    return (unit * (n // len(unit) + 1))[:n]


def _big_bytes(n, flavour):
    unit = [bytes(range(256)), b"\xa5", b"\x00\x18\xff\x00\x00\x01\x00", b"\xc3\x28abc"][flavour % 4]
    return (unit * (n // len(unit) + 1))[:n]


def huge_fields(p):
    """p = {"class", "shape", "size", "flavour"} -> (spec, fields, mode)."""
    spec = G.BY_NAME[p["class"]]
    n, fl = p["size"], p.get("flavour", 0)
    f = G.required_fields(spec, 7 + fl, ())
    if spec.opt_by_key.get("roles") is not None:
        f["roles"] = G.pool(spec, spec.opt_by_key["roles"])[fl % 3]
    shape = p["shape"]
    mode = "huge-" + shape
    if shape == "bytes":
        f["args"] = [fl, _big_bytes(n, fl), "tail"]
    elif shape == "str":
        f["args"] = [_big_text(n, fl)]
        f["kwargs"] = {"after": [1, 2, 3]}
    elif shape == "list":
        # (few hundred to ~16k elements of ~64 octets: the oracle walks every element in Python)
        f["args"] = [[("%06d-" % i) + "abcdefghijklmnopqrstuvwxyz0123456789ABCDEFGHIJKLMNOPQRSTU"[:55 + i % 3] if i % 5 else i * 7919 - 50000
                      for i in range(n // 60)], {"k": b"\x01"}]
    elif shape == "kwargs-many":
        f["kwargs"] = {"key%06d" % i: (i if i % 3 == 0 else "v%d-" % i + "x" * 80) for i in range(n // 72)}
    elif shape == "payload":
        f["payload"] = _big_bytes(n, fl)
        f["enc_algo"] = G.ENC_ALGO_POOL[fl % len(G.ENC_ALGO_POOL)]
        f["enc_key"] = "k%d" % fl
    elif shape == "nested":
        row = {"id": 2 ** 53, "name": "é\U0001f600" * 20, "bin": bytes(range(100)), "tags": ["a", "b"], "v": -1.5}
        f["args"] = [[dict(row, n=i) for i in range(n // 250)]]
    elif shape == "authextra":
        f["authextra"] = {"blob": _big_bytes(n, fl), "t": _big_text(100, fl)}
    elif shape == "extra":
        f["extra"] = {"challenge": _big_text(n, fl), "n": 1}
    elif shape == "message":
        f["message"] = _big_text(n, fl)
    elif shape in ("topic", "procedure"):
        comp = "abcdefghijklmnopqrstuvwxyz_0123456789"
        f[shape] = ".".join([comp] * (n // (len(comp) + 1) + 1))[:n].rstrip(".") + "z"
    elif shape == "custom":
        f["custom"] = {"x_big": [_big_text(n, fl)], "x_b1": 1}
    elif shape == "exclude":
        f["exclude"] = [MAXID - (i * 7919) for i in range(n // 9)]
    elif shape == "eligible_authid":
        f["eligible_authid"] = ["user%05d@example.com" % i for i in range(n // 24)]
    elif shape == "forward_for":
        f["forward_for"] = [{"session": i + 1, "authid": "a%d" % i, "authrole": "r"} for i in range(n // 48)]
    else:
        raise ValueError(shape)
    return spec, f, mode


def huge_plan(tier, seed, part, parts):
    """Parameter sets of the huge messages of one shard.  -> [(params, only_bases or None)]"""
    rng = random.Random("%s/c03/huge/%d" % (seed, part))
    out = []
    if tier == "quick":
        cls = PAYLOAD_CLASSES[part % 7]
        out.append(({"class": cls, "shape": HUGE_SHAPES[part % 5], "size": HUGE_SIZES_16[part % len(HUGE_SIZES_16)], "flavour": part}, None))
        out.append(({"class": PAYLOAD_CLASSES[(part + 3) % 7], "shape": ["bytes", "payload", "str", "list"][part % 4],
                     "size": HUGE_SIZES_20[part % 3], "flavour": part + 1}, None))
        return out
    combos = [(c, s, z) for c in PAYLOAD_CLASSES for s in HUGE_SHAPES for z in HUGE_SIZES_16 + HUGE_SIZES_20]
    combos += [(c, s, z) for (c, s) in OTHER_HUGE for z in (65500, 65536, 70000, 1 << 20)]
    rng2 = random.Random("%s/c03/huge-order" % (seed,))
    rng2.shuffle(combos)
    for i, (c, s, z) in enumerate(combos):
        if i % parts == part:
            out.append(({"class": c, "shape": s, "size": z + rng.choice([0, 0, 1, -1, 3]), "flavour": rng.randrange(8)}, None))
    # one message beyond 2^24 octets per shard, through ONE serializer family only (memory: the object caches its octets)
    out.append(({"class": PAYLOAD_CLASSES[part % 7], "shape": ["bytes", "payload", "str"][(part // 4) % 3], "size": HUGE_SIZE_24 + part,
                 "flavour": part}, (BASES[part % 4],)))
    return out


def enc_fields(f, huge=None):
    return {"$huge": huge} if huge is not None else G.jenc(f)


def dec_fields(x):
    if type(x) is dict and "$huge" in x:
        return huge_fields(x["$huge"])[1]
    return G.jdec(x)


# ------------------------------------------------------------------------------------------------
# cache sequences
# ------------------------------------------------------------------------------------------------

def mutation_candidates(spec, f):
    """Attributes of a message with field values ``f`` that can be given another admissible value."""
    if spec.name in ("Unsubscribed", "Unregistered") and f.get("request") == 0:
        return ["reason"]
    out = []
    for p in spec.layout:
        if p.kind in ("id", "uri", "str") and p.attr:
            out.append(p.attr)
    if spec.name in ("Unsubscribed", "Unregistered"):
        return [a for a in out if a == "request"]
    for o in spec.opts:
        if o.typ in ("bool", "str", "text", "int", "nat", "posint", "list-int", "list-str", "forward_for") and not o.requires \
                and o.key not in ("subscription", "registration", "resume-token", "resume_token", "resume-session"):
            out.append(o.attr)
    if spec.payload:
        out += ["payload"] if f.get("payload") is not None else ["args", "kwargs"]
    return out


def mutate_value(spec, f, attr, rng, counter):
    if attr == "payload":
        return b"mutated-%d-" % counter + bytes(rng.getrandbits(8) for _ in range(rng.choice([0, 1, 40])))
    if attr == "args":
        return ["mutated", counter, b"\x00m", {"n": [counter]}]
    if attr == "kwargs":
        return {"mutated": counter, "ké": [None, 1.5]}
    if attr == "reason":
        return "mutated.reason%d" % counter
    for p in spec.layout:
        if p.attr == attr:
            if p.kind == "id":
                return 4242 + counter if f.get(attr) != 4242 + counter else 1
            if p.kind == "uri":
                return "mutated.uri%d" % counter
            return "mutated%d" % counter
    o = spec.opt_by_attr[attr]
    pl = [v for v in G.pool(spec, o) if G.canon(v) != G.canon(f.get(attr))]
    if o.typ in ("str", "text"):
        pl.append("mutated%d" % counter)
    return rng.choice(pl)


# ------------------------------------------------------------------------------------------------
# Unicode overlay: URI-typed fields, string-typed options, kwargs keys with text that is NOT stable under Unicode
# normalisation (the oracle compares code point by code point and never normalises; ``unicodedata`` is used only to
# CLASSIFY generated inputs for the evidence counters)
# ------------------------------------------------------------------------------------------------

import unicodedata

# every entry is one URI component under the loose grammar: no whitespace, no '.', no '#'
UNI_UNSTABLE = [
    "café",                       # NFD: base letter + combining acute
    "Ångström",             # NFD
    "Å", "Ω", "K",       # ANGSTROM / OHM / KELVIN SIGN (canonical singletons)
    "한글",   # Hangul conjoining jamo
    "豈", "兀塚",            # CJK compatibility ideographs (singletons)
    "\U0002f800",                       # astral CJK compatibility supplement (singleton)
    "\U0001d15e\U0001d15f",             # musical symbols excluded from composition (NFC decomposes them)
    "क़य़",                     # Devanagari composition exclusions
    "⫝̸",                           # FORKING (composition exclusion)
    "q̣̇",                    # combining marks in non-canonical order (NFC reorders)
    "̈́", "à́", "ʹ", ";", "·", "ι", "〈〉",
    "à֮̀̕b",   # the reordering example of UAX #15
    "ḍ̇", "ḍ̇", "ṩ", "ṩ",
    "Ą́", "ぱ゚" if False else "ぱ", "ガ",   # kana + combining (semi-)voiced mark
    "אַּ", "אַ", "أ", "أ",
]
UNI_STABLE = [
    "é", "café", "ﬁ", "ﬃx", "①", "µ", "ſ",          # precomposed / compatibility (NFC-stable)
    "\U0001f600", "\U00010348", "\U0010fffd", "\U0001f1e9\U0001f1ea",
    "\U0001f468‍\U0001f469‍\U0001f467", "a‍b", "x‌y", "‍", "﻿b",   # zero-width joiners
    "abcдеж漢字ال", "αβaб", "กิน", "한글",
    "日本語", "İ", "İ", "ß", "ẞ", "ǅ",
]
# (classification of the INPUTS only: entries of either list are filed by what NFC would do to them)
_all = UNI_UNSTABLE + UNI_STABLE
UNI_UNSTABLE = [c for c in _all if unicodedata.normalize("NFC", c) != c]
UNI_STABLE = [c for c in _all if unicodedata.normalize("NFC", c) == c]
assert len(UNI_UNSTABLE) >= 25 and len(UNI_STABLE) >= 25
for _c in UNI_UNSTABLE + UNI_STABLE:
    assert _c and not any(ch.isspace() or ch in ".#" for ch in _c), _c.encode("unicode_escape")


def nfc_unstable(s):
    return type(s) is str and unicodedata.normalize("NFC", s) != s


def _uni_component(rng, unstable):
    if unstable:
        c = rng.choice(UNI_UNSTABLE)
        return c if rng.random() < 0.6 else rng.choice(["x", "", rng.choice(UNI_STABLE)]) + c + rng.choice(["", "z", "9"])
    return rng.choice(UNI_STABLE + UNI_UNSTABLE + ["abc", "x_1"])


def uni_uri(rng, template=None):
    """A URI with the component structure of ``template`` (empty components kept) whose components are Unicode text; at
    least one component is not NFC-stable."""
    parts = template.split(".") if template else ["a"] * rng.choice([1, 2, 3])
    if len(parts) > 6:
        parts = parts[:6] if parts[-1] else parts[:5] + [""]
    idx = [i for i, p in enumerate(parts) if p]
    if not idx:
        return template
    hot = rng.choice(idx)
    return ".".join(("" if not p else _uni_component(rng, i == hot or rng.random() < 0.3)) for i, p in enumerate(parts))


_STR_OPT_SKIP = ("enc_algo", "enc_key", "enc_serializer")


def unicode_overlay(spec, f, rng):
    """Replace, in place, URI-typed fields, string-typed option values and (when present) add kwargs keys / an args element
    with Unicode text that is not NFC-stable.  -> {"uri": [...attrs], "opt": [...attrs], "keys": n}"""
    info = {"uri": [], "opt": [], "keys": 0}
    for p in spec.layout:
        if p.kind == "uri" and type(f.get(p.attr)) is str:
            f[p.attr] = uni_uri(rng, f[p.attr])
            if nfc_unstable(f[p.attr]):
                info["uri"].append(p.attr)
    for o in spec.opts:
        v = f.get(o.attr)
        if v is None or o.typ in _STR_OPT_SKIP:
            continue
        if o.typ == "uri":
            f[o.attr] = uni_uri(rng, v)
            if nfc_unstable(f[o.attr]):
                info["uri"].append(o.attr)
        elif o.typ in ("str", "text") and v != "":
            f[o.attr] = uni_uri(rng)
            info["opt"].append(o.attr)
        elif o.typ == "list-str" and v:
            f[o.attr] = [uni_uri(rng) for _ in v]
            info["opt"].append(o.attr)
        elif o.typ == "forward_for" and v:
            f[o.attr] = [dict(ff, authid=(uni_uri(rng) if ff["authid"] is not None else None), authrole=uni_uri(rng)) for ff in v]
            info["opt"].append(o.attr)
    if spec.payload and f.get("payload") is None:
        if f.get("kwargs"):
            kw = dict(f["kwargs"])
            for _ in range(rng.choice([1, 2])):
                s = uni_uri(rng)
                kw[s] = s
                info["keys"] += 1
            if f.get(spec.layout[-1].attr) and spec.layout[-1].kind == "uri":
                kw["same-as-uri"] = f[spec.layout[-1].attr]
            f["kwargs"] = kw
        if f.get("args"):
            extra = [uni_uri(rng)] + [f[a] for a in info["uri"][:1]]
            f["args"] = (tuple if type(f["args"]) is tuple else list)(list(f["args"]) + extra)
    return info


# ------------------------------------------------------------------------------------------------
# pattern URIs per match policy (SUBSCRIBE.topic / REGISTER.procedure): exact -> no empty component; prefix -> also a
# trailing empty component; wildcard -> empty components at leading / inner / trailing positions, several of them
# ------------------------------------------------------------------------------------------------

PATTERN_CLASSES = {"Subscribe": "topic", "Register": "procedure"}
PATTERN_SHAPES = {
    None: ["none"],
    "exact": ["none"],
    "prefix": ["none", "trailing", "only-empty"],
    "wildcard": ["none", "leading", "inner", "trailing", "multiple", "leading+trailing", "all-empty", "only-empty"],
}
_ASCII_COMPONENTS = ["a", "com", "myapp", "x_1", "create", "B-c", "z9", "topic1"]


def pattern_uri(rng, shape):
    c = lambda: rng.choice(_ASCII_COMPONENTS)   # noqa: E731
    if shape == "none":
        return ".".join(c() for _ in range(rng.choice([1, 2, 3, 4])))
    if shape == "trailing":
        return ".".join(c() for _ in range(rng.choice([1, 2, 3]))) + "."
    if shape == "only-empty":
        return ""
    if shape == "leading":
        return "." + ".".join(c() for _ in range(rng.choice([1, 2, 3])))
    if shape == "inner":
        return rng.choice(["{}..{}", "{}.{}..{}", "{}..{}.{}"]).format(c(), c(), c())
    if shape == "multiple":
        return rng.choice(["{}...{}..{}", "{}..{}..{}", ".{}..{}", "{}..{}...{}"]).format(c(), c(), c())
    if shape == "leading+trailing":
        return rng.choice([".{}.", ".{}.{}.", ".{}..{}.", "..{}.."]).format(c(), c())
    if shape == "all-empty":
        return rng.choice([".", "..", "...", "....."])
    raise ValueError(shape)


def match_overlay(spec, f, rng):
    """Give the pattern URI of a SUBSCRIBE / REGISTER a shape that is admissible under its match policy (in place).
    -> (match, shape) or None"""
    attr = PATTERN_CLASSES.get(spec.name)
    if attr is None:
        return None
    m = f.get("match")
    shape = rng.choice(PATTERN_SHAPES[m])
    f[attr] = pattern_uri(rng, shape)
    return [m or "absent", shape]


def pattern_cases(seed, part, parts, reps=4):
    """Every (class, match policy, admissible URI shape) x {no other option, all other options} x {ASCII, Unicode components}
    at least once per run.  Yields (k, label, fields, [match, shape]); even k => the Unicode overlay is applied on top."""
    k = 0
    for name in PATTERN_CLASSES:
        spec = G.BY_NAME[name]
        others = [o for o in spec.opts if o.key != "match"]
        for m in (None, "exact", "prefix", "wildcard"):
            for shape in PATTERN_SHAPES[m]:
                for with_opts in (False, True):
                    for rep in range(reps):
                        k += 1
                        if k % parts != part:
                            continue
                        rng = random.Random("%s/c03/pattern/%s/%d" % (seed, name, k))
                        f = G.required_fields(spec, k, ())
                        if m is not None:
                            f["match"] = m
                        if with_opts:
                            for i, o in enumerate(others):
                                pl = G.pool(spec, o)
                                f[o.attr] = pl[(k + i) % len(pl)]
                        f[PATTERN_CLASSES[name]] = pattern_uri(rng, shape)
                        yield k, "%s/pattern-%s-%s%s" % (name, m or "absent", shape, "+opts" if with_opts else ""), f, [m or "absent", shape]


# ------------------------------------------------------------------------------------------------
# serializer CONFIGURATIONS (constructor options besides ``batched``) and the fan-out of ONE message object over several
# transports (= several serializer instances: other formats, other configurations of the same format, other instances of
# the same configuration)
# ------------------------------------------------------------------------------------------------

# (config tag, serializer class, constructor kwargs besides batched).  A variant id is  <family><tag>[.batched]
SER_CONFIGS = [
    ("", "JsonSerializer", {}),
    # the second JSON binary convention of the anchors: "0x" + hex instead of "\0" + base64
    ("+hex", "JsonSerializer", {"use_binary_hex_encoding": True}),
    # Decimal handling of the anchors: strings that look like decimal numbers are delivered as Decimal (such strings are
    # kept away from this configuration, see config_skips); everything else must come through unchanged
    ("+dec", "JsonSerializer", {"use_decimal_from_str": True}),
    ("", "MsgPackSerializer", {}),
    ("", "CBORSerializer", {}),
    ("", "UBJSONSerializer", {}),
]
KNOWN_CTOR_OPTIONS = {"JsonSerializer": {"batched", "use_binary_hex_encoding", "use_decimal_from_str"},
                      "MsgPackSerializer": {"batched"}, "CBORSerializer": {"batched"}, "UBJSONSerializer": {"batched"}}


def variant_parts(sid):
    """'json+hex.batched' -> ('json', '+hex', True)"""
    base, _, b = sid.partition(".")
    fam, plus, cfg = base.partition("+")
    return fam, plus + cfg, b == "batched"


def plain_sid(sid):
    fam, _cfg, batched = variant_parts(sid)
    return fam + (".batched" if batched else "")


def skipped(sid, skip):
    """``skip`` holds serializer families ('json') and/or configuration tags ('+hex')."""
    if not skip:
        return False
    fam, cfg, _b = variant_parts(sid)
    return fam in skip or (cfg != "" and cfg in skip)


def serializer_variants(S):
    """-> [(sid, class, kwargs incl. batched)] for every installed serializer class x configuration x batching, and the
    constructor options the table does not know (reported as a note)."""
    import inspect
    out, unknown = [], []
    for tag, name, kw in SER_CONFIGS:
        cls = getattr(S, name, None)
        if cls is None:
            continue
        for batched in (False, True):
            out.append((cls.SERIALIZER_ID + tag + (".batched" if batched else ""), cls, dict(kw, batched=batched)))
    for name, known in KNOWN_CTOR_OPTIONS.items():
        cls = getattr(S, name, None)
        if cls is not None:
            try:
                params = [p for p in inspect.signature(cls.__init__).parameters if p != "self"]
            except (TypeError, ValueError):
                params = []
            unknown += ["%s(%s)" % (name, p) for p in params if p not in known]
    return out, unknown


import re

# text a "parse strings as Decimals" option may legitimately turn into a Decimal (deliberately wider than any one
# implementation: everything made of sign / digit (any script) / '.' / '_' / exponent characters, and the NaN / Infinity
# spellings decimal.Decimal accepts)
_DECIMAL_LOOKING = re.compile(r"^[\s+\-.\d_eE]+$|^\s*[+\-]?s?(nan|inf|infinity)\d*\s*$", re.I)


def _walk_scalars(root):
    """All scalar leaves AND dict keys of a (possibly deep) value, iteratively."""
    stack = [root]
    while stack:
        v = stack.pop()
        t = type(v)
        if t in (list, tuple):
            stack.extend(v)
        elif t is dict:
            for k, x in v.items():
                yield k
                stack.append(x)
        else:
            yield v


def config_skips(f):
    """Configuration tags a message with field values ``f`` must not be sent through, because it contains text that the
    configuration RESERVES (documented by the option itself):
      '+hex'  a string starting with "0x"  (prefix of the hex binary convention, the counterpart of U+0000 for base64)
      '+dec'  a string that looks like a decimal number (use_decimal_from_str delivers it as Decimal)"""
    out = set()
    for v in _walk_scalars(f):
        if type(v) is str:
            if v[:2] == "0x":
                out.add("+hex")
            if len(v) <= 4096 and _DECIMAL_LOOKING.match(v):
                out.add("+dec")
            elif len(v) > 4096 and _DECIMAL_LOOKING.match(v[:64]) and _DECIMAL_LOOKING.match(v[-64:]):
                out.add("+dec")
    return out


def has_bytes(f):
    for v in _walk_scalars(f):
        if type(v) in (bytes, bytearray, memoryview):
            return True
    return False


RELATIONS = ("other-config", "other-batching", "same-config-other-instance", "same-instance", "other-format", "first")


def fanout_plan(rng, sids):
    """Order in which ONE message object is sent out over 2..6 links.  -> [(sid, instance kind)], instance kind in
    pool0 / pool1 (instances that live as long as the shard) / fresh (created for this delivery, dropped afterwards).
    Half of the plans contain two CONFIGURATIONS of one format with the same batching mode, others the same
    configuration twice (separate instances) or both batching modes of one configuration."""
    groups = {}
    for s in sids:
        fam, cfg, b = variant_parts(s)
        groups.setdefault((fam, b), []).append(s)
    multi = [g for g in groups.values() if len(g) > 1]
    n = rng.randint(2, 6)
    plan = []
    x = rng.random()
    if multi and x < 0.5:
        plan += rng.sample(rng.choice(multi), 2)
    elif x < 0.65:
        plan += [rng.choice(sids)] * 2
    elif x < 0.8:
        s = rng.choice(sids)
        fam, cfg, b = variant_parts(s)
        o = fam + cfg + ("" if b else ".batched")
        plan += [s, o] if o in sids else [s]
    while len(plan) < n:
        plan.append(rng.choice(sids))
    rng.shuffle(plan)
    return [(s, rng.choice(("pool0", "pool1", "fresh"))) for s in plan]


def fanout_relation(sid, inst, earlier):
    """Strongest relation of the link (sid, instance object) to the links the message object went out over before."""
    fam, cfg, b = variant_parts(sid)
    found = set()
    for sid2, inst2 in earlier:
        fam2, cfg2, b2 = variant_parts(sid2)
        if fam2 != fam:
            found.add("other-format")
        elif cfg2 != cfg and b2 == b:
            found.add("other-config")
        elif sid2 != sid:
            found.add("other-batching")
        elif inst2 is not inst:
            found.add("same-config-other-instance")
        else:
            found.add("same-instance")
    for r in RELATIONS:
        if r in found:
            return r
    return "first"
