"""Execution worlds: virtual clock + fake transports for Twisted and asyncio.

One framework per process (txaio is process-global): ``make_world()`` returns the world
matching the framework selected by ``bootstrap.use_framework``.  Nothing here knows about
WebSocket or WAMP: an *endpoint* is any real Twisted ``Protocol`` / asyncio ``Protocol``
instance attached to a fake transport; the harness owns

* every octet the protocol writes (``ep.take_output()``),
* every octet it receives (``ep.feed(data)``) and how the stream is cut,
* the transport close requests of the protocol (``ep.close_requested`` = None | 'lose' |
  'abort') and *when* the resulting connection-lost notification is delivered
  (``ep.finish_close()``), peer EOF / reset (``ep.peer_close(clean)``),
* virtual time (``world.advance(dt)``, ``world.next_deadline()``).

Fidelity rules are those of DESIGN.md section 2.2: an exception escaping the protocol's data
callback is recorded (``ep.escaped``) and then handled the way the real reactor / selector
transport does.  ``events`` is the per-endpoint log: (virtual time, kind, payload).
"""

import heapq

import txaio


class Escaped:
    """An exception that reached the networking framework."""

    def __init__(self, where, exc, vt):
        self.where = where
        self.exc = exc
        self.vt = vt

    def __repr__(self):
        return "Escaped(%s, %s: %s)" % (self.where, type(self.exc).__name__, str(self.exc)[:200])


class EndpointBase:
    def __init__(self, world, name):
        self.world = world
        self.name = name
        self.proto = None
        self.out = bytearray()        # written, not yet taken by the harness
        self.all_out = bytearray()    # everything ever written
        self.events = []
        self.escaped = []
        self.close_requested = None   # None | 'lose' | 'abort'
        self.close_requested_at = None
        self.lost = False             # connection-lost delivered to the protocol
        self.lost_reason = None
        self.writes_after_close_request = 0
        self.writes_after_lost = 0
        self.on_write = None          # optional hook(ep, data)

    def log(self, kind, payload=None):
        self.events.append((self.world.now(), kind, payload))

    def _record_write(self, data):
        data = bytes(data)
        if self.lost:
            self.writes_after_lost += 1
            self.log("write-after-lost", len(data))
            return False
        self.log("write", len(data))
        if self.on_write:
            self.on_write(self, data)
        return True

    def take_output(self):
        d = bytes(self.out)
        del self.out[:]
        return d

    def _escaped(self, where, exc):
        e = Escaped(where, exc, self.world.now())
        self.escaped.append(e)
        self.world.escaped.append((self.name, e))
        self.log("escaped", repr(e))
        return e


# =====================================================================================
# Twisted
# =====================================================================================

class TxWorld:
    fw = "tx"

    def __init__(self):
        from twisted.internet import task

        self.clock = task.Clock()
        txaio.config.loop = self.clock
        self.escaped = []
        self.endpoints = []

    # -- time -----------------------------------------------------------------------
    def now(self):
        return self.clock.seconds()

    def next_deadline(self):
        calls = [c for c in self.clock.getDelayedCalls() if c.active()]
        return min((c.getTime() for c in calls), default=None)

    def pending_timers(self):
        return sorted(c.getTime() for c in self.clock.getDelayedCalls() if c.active())

    def settle(self):
        """Run everything that is due *now* (callLater(0) chains), bounded."""
        for _ in range(10000):
            nd = self.next_deadline()
            if nd is None or nd > self.now():
                return
            self._advance_guarded(0)
        raise RuntimeError("settle: livelock (timer re-arming at the current instant)")

    def _advance_guarded(self, dt):
        try:
            self.clock.advance(dt)
        except Exception as e:      # an exception out of a timer callback reaches the reactor (logged there)
            self.escaped.append(("timer", Escaped("timer", e, self.now())))

    def advance_to(self, t):
        """Fire timers in deadline order up to virtual time ``t``."""
        for _ in range(100000):
            nd = self.next_deadline()
            if nd is None or nd > t:
                break
            self._advance_guarded(max(0.0, nd - self.now()))
        else:
            raise RuntimeError("advance_to: too many timers")
        if t > self.now():
            self._advance_guarded(t - self.now())

    def advance(self, dt):
        self.advance_to(self.now() + dt)

    def fire_next_timer(self):
        nd = self.next_deadline()
        if nd is None:
            return False
        self._advance_guarded(max(0.0, nd - self.now()))
        return True

    # -- endpoints --------------------------------------------------------------------
    def attach(self, factory, name="ep", addr=("127.0.0.1", 9000), peer=("127.0.0.1", 50000)):
        """Build a protocol from a Twisted factory and connect it to a fake transport."""
        from twisted.internet.address import IPv4Address

        ep = TxEndpoint(self, name, IPv4Address("TCP", *addr), IPv4Address("TCP", *peer))
        proto = factory.buildProtocol(ep.transport.getPeer())
        ep.proto = proto
        self.endpoints.append(ep)
        try:
            proto.makeConnection(ep.transport)
        except Exception as e:
            ep._escaped("connectionMade", e)
        return ep

    def attach_protocol(self, proto, name="ep", addr=("127.0.0.1", 9000), peer=("127.0.0.1", 50000)):
        from twisted.internet.address import IPv4Address

        ep = TxEndpoint(self, name, IPv4Address("TCP", *addr), IPv4Address("TCP", *peer))
        ep.proto = proto
        self.endpoints.append(ep)
        try:
            proto.makeConnection(ep.transport)
        except Exception as e:
            ep._escaped("connectionMade", e)
        return ep


class TxEndpoint(EndpointBase):
    def __init__(self, world, name, host, peer):
        EndpointBase.__init__(self, world, name)
        self.transport = _make_tx_transport(self, host, peer)

    def feed(self, data):
        """Deliver octets to dataReceived as the reactor would."""
        if self.lost or not data:
            return
        if self.close_requested == "abort":
            return
        self.log("feed", len(data))
        try:
            self.proto.dataReceived(bytes(data))
        except Exception as e:
            # reactor: log, then connectionLost(Failure(exc))
            self._escaped("dataReceived", e)
            self._lose_with(e)

    def _lose_with(self, exc):
        from twisted.python.failure import Failure

        if self.lost:
            return
        self.lost = True
        self.lost_reason = exc
        self.log("connection_lost", type(exc).__name__)
        try:
            self.proto.connectionLost(Failure(exc))
        except Exception as e:
            self._escaped("connectionLost", e)

    def finish_close(self):
        """Deliver the connection-lost notification for the protocol's own close request."""
        from twisted.internet.error import ConnectionAborted, ConnectionDone

        if self.lost or self.close_requested is None:
            return False
        self._lose_with(ConnectionDone() if self.close_requested == "lose" else ConnectionAborted())
        return True

    def peer_close(self, clean=True):
        from twisted.internet.error import ConnectionDone, ConnectionLost

        if self.lost:
            return False
        self._lose_with(ConnectionDone() if clean else ConnectionLost())
        return True


def _make_tx_transport(ep, host, peer):
    from twisted.internet.interfaces import ITransport
    from zope.interface import implementer

    @implementer(ITransport)
    class FakeTxTransport:
        disconnecting = False
        connected = True

        def write(self, data):
            if not isinstance(data, (bytes, bytearray, memoryview)):
                raise TypeError("Data must be bytes")   # as twisted's _dataMustBeBytes
            if ep.close_requested is not None:
                ep.writes_after_close_request += 1
            if ep.close_requested == "abort":
                ep.log("write-after-abort", len(data))
                return
            if ep._record_write(data):
                ep.out += data
                ep.all_out += data

        def writeSequence(self, seq):
            for d in seq:
                self.write(d)

        def loseConnection(self):
            ep.log("loseConnection")
            if ep.close_requested is None and not ep.lost:
                ep.close_requested = "lose"
                ep.close_requested_at = ep.world.now()
                self.disconnecting = True

        def abortConnection(self):
            ep.log("abortConnection")
            if ep.close_requested != "abort" and not ep.lost:
                ep.close_requested = "abort"
                ep.close_requested_at = ep.world.now()
                self.disconnecting = True
                del ep.out[:]

        def getPeer(self):
            return peer

        def getHost(self):
            return host

        def setTcpNoDelay(self, enabled):
            pass

        def setTcpKeepAlive(self, enabled):
            pass

        def registerProducer(self, producer, streaming):
            ep.log("registerProducer")

        def unregisterProducer(self):
            pass     # a real TCP transport tolerates this without a registered producer

        def pauseProducing(self):
            pass

        def resumeProducing(self):
            pass

        def stopProducing(self):
            pass

    return FakeTxTransport()


# =====================================================================================
# asyncio
# =====================================================================================

def _make_virtual_loop():
    import asyncio
    import selectors

    class _NeverBlock(selectors.SelectSelector):
        def select(self, timeout=None):
            return super().select(0)

    class VirtualLoop(asyncio.SelectorEventLoop):
        def __init__(self):
            super().__init__(_NeverBlock())
            self._vtime = 1000.0

        def time(self):
            return self._vtime

    return VirtualLoop()


class AioWorld:
    fw = "aio"

    def __init__(self):
        import asyncio

        self.loop = _make_virtual_loop()
        asyncio.set_event_loop(self.loop)
        txaio.config.loop = self.loop
        self.escaped = []
        self.endpoints = []
        self.loop.set_exception_handler(self._exc_handler)

    def _exc_handler(self, loop, context):
        exc = context.get("exception")
        if exc is None:
            exc = RuntimeError(context.get("message"))
        self.escaped.append(("loop", Escaped("loop:" + str(context.get("message"))[:80], exc, self.now())))

    def close(self):
        try:
            self.loop.close()
        except Exception:
            pass

    # -- time ---------------------------------------------------------------------
    def now(self):
        return self.loop.time()

    def _timers(self):
        return [h for h in self.loop._scheduled if not h.cancelled()]

    def next_deadline(self):
        return min((h.when() for h in self._timers()), default=None)

    def pending_timers(self):
        return sorted(h.when() for h in self._timers())

    def settle(self):
        """Run the loop until no callback is ready (timers due now included)."""
        for _ in range(10000):
            self.loop.call_soon(self.loop.stop)
            self.loop.run_forever()
            if not self.loop._ready:
                nd = self.next_deadline()
                if nd is None or nd > self.now():
                    return
        raise RuntimeError("settle: livelock")

    def advance_to(self, t):
        self.settle()
        for _ in range(100000):
            nd = self.next_deadline()
            if nd is None or nd > t:
                break
            if nd > self.loop._vtime:
                self.loop._vtime = nd
            self.settle()
        else:
            raise RuntimeError("advance_to: too many timers")
        if t > self.loop._vtime:
            self.loop._vtime = t
        self.settle()

    def advance(self, dt):
        self.advance_to(self.now() + dt)

    def fire_next_timer(self):
        self.settle()
        nd = self.next_deadline()
        if nd is None:
            return False
        if nd > self.loop._vtime:
            self.loop._vtime = nd
        self.settle()
        return True

    # -- endpoints ------------------------------------------------------------------
    def attach(self, factory, name="ep", addr=("127.0.0.1", 9000), peer=("127.0.0.1", 50000)):
        """``factory`` is an asyncio protocol factory (callable returning a protocol)."""
        ep = AioEndpoint(self, name, addr, peer)
        proto = factory()
        ep.proto = proto
        self.endpoints.append(ep)
        try:
            proto.connection_made(ep.transport)
        except Exception as e:
            ep._escaped("connection_made", e)
        self.settle()
        return ep

    def attach_protocol(self, proto, name="ep", addr=("127.0.0.1", 9000), peer=("127.0.0.1", 50000)):
        ep = AioEndpoint(self, name, addr, peer)
        ep.proto = proto
        self.endpoints.append(ep)
        try:
            proto.connection_made(ep.transport)
        except Exception as e:
            ep._escaped("connection_made", e)
        self.settle()
        return ep


class AioEndpoint(EndpointBase):
    def __init__(self, world, name, host, peer):
        EndpointBase.__init__(self, world, name)
        self.transport = _make_aio_transport(self, host, peer)

    def feed(self, data):
        """One read event of the selector transport, then the loop runs until idle."""
        if self.lost or not data or self.close_requested is not None:
            # a closing asyncio transport has removed its reader: nothing more is delivered
            return
        self.log("feed", len(data))
        try:
            self.proto.data_received(bytes(data))
        except Exception as e:
            # _SelectorSocketTransport._read_ready__data_received -> _fatal_error -> _force_close(exc)
            self._escaped("data_received", e)
            self._lose_with(e)
        self.world.settle()

    def feed_burst(self, chunks):
        """Several ``data_received()`` calls back to back inside ONE read event - what a transport does that
        hands over one chunk per decrypted record / internal buffer - and only THEN the loop runs until idle
        (so the protocol's consumer callback finds more than one chunk queued).  The asyncio.Protocol contract
        allows it; ``feed`` (one call per read event, as the plain selector TCP transport does) is untouched.
        Returns the number of chunks handed over."""
        n = 0
        for data in chunks:
            if self.lost or self.close_requested is not None:
                break
            if not data:
                continue
            self.log("feed", len(data))
            try:
                self.proto.data_received(bytes(data))
                n += 1
            except Exception as e:
                self._escaped("data_received", e)
                self._lose_with(e)
                break
        self.world.settle()
        return n

    def _lose_with(self, exc):
        if self.lost:
            return
        self.lost = True
        self.lost_reason = exc
        self.log("connection_lost", type(exc).__name__ if exc is not None else None)
        # a real selector transport is marked closing (_force_close / close) before connection_lost() is delivered
        try:
            self.transport._closing = True
        except Exception:
            pass
        try:
            self.proto.connection_lost(exc)
        except Exception as e:
            self._escaped("connection_lost", e)
        self.world.settle()

    def finish_close(self):
        if self.lost or self.close_requested is None:
            return False
        self._lose_with(None)
        return True

    def peer_close(self, clean=True):
        if self.lost:
            return False
        if clean:
            # EOF: protocol.eof_received(); falsy result -> transport closes itself
            keep = None
            try:
                eof = getattr(self.proto, "eof_received", None)
                keep = eof() if eof else None
            except Exception as e:
                self._escaped("eof_received", e)
            if keep:
                self.world.settle()
                return True
            self._lose_with(None)
        else:
            self._lose_with(ConnectionResetError("Connection reset by peer"))
        return True


def _make_aio_transport(ep, host, peer):
    import asyncio

    class FakeAioTransport(asyncio.Transport):
        def __init__(self):
            super().__init__(extra={"peername": peer, "sockname": host})
            self._closing = False

        def write(self, data):
            if not isinstance(data, (bytes, bytearray, memoryview)):
                raise TypeError("data argument must be a bytes-like object, not %r" % type(data).__name__)
            if ep.close_requested is not None:
                # selector transport: _conn_lost > 0 after close()/abort(): data is dropped
                ep.writes_after_close_request += 1
                ep.log("write-after-close", len(data))
                if ep.lost:
                    ep.writes_after_lost += 1
                return
            if ep._record_write(data):
                ep.out += data
                ep.all_out += data

        def writelines(self, seq):
            for d in seq:
                self.write(d)

        def can_write_eof(self):
            return True

        def write_eof(self):
            ep.log("write_eof")

        def is_closing(self):
            return self._closing

        def close(self):
            ep.log("close")
            if ep.close_requested is None and not ep.lost:
                ep.close_requested = "lose"
                ep.close_requested_at = ep.world.now()
                self._closing = True

        def abort(self):
            ep.log("abort")
            if ep.close_requested != "abort" and not ep.lost:
                ep.close_requested = "abort"
                ep.close_requested_at = ep.world.now()
                self._closing = True
                del ep.out[:]

        def pause_reading(self):
            pass

        def resume_reading(self):
            pass

        def set_write_buffer_limits(self, high=None, low=None):
            pass

        def get_write_buffer_size(self):
            return 0

    return FakeAioTransport()


# =====================================================================================

def make_world():
    if txaio.using_twisted:
        return TxWorld()
    return AioWorld()


def segmentations(rng, data, policy):
    """Cut ``data`` into reads according to a named policy."""
    n = len(data)
    if n == 0:
        return []
    if policy == "whole":
        return [data]
    if policy == "bytewise":
        return [data[i:i + 1] for i in range(n)]
    if policy == "random":
        out, i = [], 0
        while i < n:
            k = rng.choice([1, 1, 2, 3, 5, 8, 13, 64, 1000, 70000])
            out.append(data[i:i + k])
            i += k
        return out
    if policy == "halves":
        c = rng.randint(0, n)
        return [x for x in (data[:c], data[c:]) if x]
    if policy == "small":
        out, i = [], 0
        while i < n:
            k = rng.randint(1, 4)
            out.append(data[i:i + k])
            i += k
        return out
    raise ValueError(policy)


SEG_POLICIES = ["whole", "bytewise", "random", "halves", "small"]
