"""WebSocket layer on top of vf.world: real autobahn factories/protocols (Twisted or asyncio
adapters, chosen by the process' txaio framework) wired to the virtual clock, with recording
application callbacks and a recording ``state`` attribute.

Only boundary observation: application callbacks, transport octets, transport close calls,
and every assignment the library makes to ``protocol.state`` (seen through a data descriptor
on the harness subclass - the library code is unmodified).
"""

import txaio

from . import rfc6455_ref as ref
from .world import make_world

STATE_NAMES = {0: "CLOSED", 1: "CONNECTING", 2: "CLOSING", 3: "OPEN", 4: "PROXY_CONNECTING"}


def _adapters():
    if txaio.using_twisted:
        from autobahn.twisted import websocket as m
    else:
        from autobahn.asyncio import websocket as m
    return m


class _StateDescriptor:
    """Records every assignment the (unmodified) library code makes to ``self.state``."""

    def __get__(self, obj, objtype=None):
        if obj is None:
            return self
        return obj.__dict__.get("_vf_state")

    def __set__(self, obj, value):
        old = obj.__dict__.get("_vf_state")
        obj.__dict__["_vf_state"] = value
        rec = obj.__dict__.setdefault("vf_state_log", [])
        rec.append((old, value))
        cb = obj.__dict__.get("vf_on_state")
        if cb:
            cb(obj, old, value)


class RecorderMixin:
    """Application-level recording; mixed in FRONT of the real adapter protocol class."""

    state = _StateDescriptor()

    def _vf_log(self, kind, *data):
        log = self.__dict__.setdefault("vf_app", [])
        now = txaio.config.loop.seconds() if txaio.using_twisted else txaio.config.loop.time()
        log.append((now, kind) + data)
        hook = self.__dict__.get("vf_on_app")
        if hook:
            hook(self, kind, data)

    def onConnect(self, r):
        self._vf_log("onConnect", type(r).__name__)
        script = getattr(self.factory, "vf_on_connect", None)
        if script:
            return script(self, r)
        return super().onConnect(r)

    def onConnecting(self, td):
        self._vf_log("onConnecting")
        return super().onConnecting(td)

    def onOpen(self):
        self._vf_log("onOpen")
        script = getattr(self.factory, "vf_on_open", None)
        if script:
            script(self)

    def onMessage(self, payload, isBinary):
        self._vf_log("onMessage", bytes(payload), bool(isBinary))
        script = getattr(self.factory, "vf_on_message", None)
        if script:
            script(self, payload, isBinary)

    def onPing(self, payload):
        self._vf_log("onPing", bytes(payload))
        return super().onPing(payload)

    def onPong(self, payload):
        self._vf_log("onPong", bytes(payload))
        return super().onPong(payload)

    def onClose(self, wasClean, code, reason):
        self._vf_log("onClose", wasClean, code, reason)
        script = getattr(self.factory, "vf_on_close", None)
        if script:
            script(self, wasClean, code, reason)


_CLASS_CACHE = {}


def recording_protocol(role, base=None):
    """The real adapter protocol class of this framework with the recorder mixed in."""
    m = _adapters()
    base = base or (m.WebSocketServerProtocol if role == "server" else m.WebSocketClientProtocol)
    key = (role, base)
    if key not in _CLASS_CACHE:
        _CLASS_CACHE[key] = type("Rec" + base.__name__, (RecorderMixin, base), {})
    return _CLASS_CACHE[key]


class WS:
    """A world plus helpers to create WebSocket endpoints in it."""

    def __init__(self, world=None):
        self.world = world or make_world()
        self.m = _adapters()

    # -- factories --------------------------------------------------------------------
    def _kw(self):
        if self.world.fw == "tx":
            return {"reactor": self.world.clock}
        return {"loop": self.world.loop}

    def server_factory(self, url="ws://127.0.0.1:9000", options=None, protocol_base=None, **kw):
        kw.update(self._kw())
        f = self.m.WebSocketServerFactory(url, **kw)
        f.protocol = recording_protocol("server", protocol_base)
        if options:
            f.setProtocolOptions(**options)
        return f

    def client_factory(self, url="ws://127.0.0.1:9000", options=None, protocol_base=None, **kw):
        kw.update(self._kw())
        f = self.m.WebSocketClientFactory(url, **kw)
        f.protocol = recording_protocol("client", protocol_base)
        if options:
            f.setProtocolOptions(**options)
        return f

    def attach(self, factory, name):
        if self.world.fw == "tx":
            return self.world.attach(factory, name)
        return self.world.attach(factory, name)   # asyncio factories are callables returning a protocol

    # -- openers ----------------------------------------------------------------------
    def open_pair(self, server_factory, client_factory, seg=None, max_rounds=50):
        """Connect the library's client to the library's server and pump the handshake."""
        s = self.attach(server_factory, "server")
        c = self.attach(client_factory, "client")
        link = Link(self.world, c, s)
        for _ in range(max_rounds):
            moved = link.pump_all(seg)
            self.world.settle()
            if not moved and not c.out and not s.out:
                break
        return link

    def open_server(self, server_factory, request=None, **req_kw):
        """One real server endpoint; the harness plays the client.  Returns (ep, response_head, key)."""
        s = self.attach(server_factory, "server")
        if request is None:
            request, key = ref.client_request(**req_kw)
        else:
            key = None
        s.feed(request)
        self.world.settle()
        out = s.take_output()
        return s, out, key

    def open_client(self, client_factory, respond=True, **resp_kw):
        """One real client endpoint; the harness plays the server.  Returns (ep, request_bytes, key)."""
        c = self.attach(client_factory, "client")
        self.world.settle()
        req = c.take_output()
        key = None
        parsed = ref.parse_http_head(req)
        if parsed:
            key = (parsed[1].get("sec-websocket-key") or [None])[0]
        if respond and key:
            c.feed(ref.server_response(key, **resp_kw))
            self.world.settle()
        return c, req, key


class Link:
    """Byte pipes between two real endpoints; the harness decides segmentation and order."""

    def __init__(self, world, a, b):
        self.world = world
        self.a, self.b = a, b
        self.inflight = {id(a): bytearray(), id(b): bytearray()}   # bytes written by X, not yet delivered to peer
        self.delivered = {id(a): 0, id(b): 0}

    def peer_of(self, ep):
        return self.b if ep is self.a else self.a

    def collect(self):
        for ep in (self.a, self.b):
            d = ep.take_output()
            if d:
                self.inflight[id(ep)] += d

    def pending(self, ep):
        self.collect()
        return len(self.inflight[id(ep)])

    def deliver(self, src, n=None):
        """Deliver up to n in-flight bytes written by ``src`` to its peer (one read event)."""
        self.collect()
        buf = self.inflight[id(src)]
        if not buf:
            return 0
        if n is None or n > len(buf):
            n = len(buf)
        chunk = bytes(buf[:n])
        del buf[:n]
        dst = self.peer_of(src)
        dst.feed(chunk)
        self.delivered[id(src)] += len(chunk)
        self.collect()
        return len(chunk)

    def pump_all(self, seg=None, rng=None):
        """Deliver everything in flight, alternating directions, with an optional segmentation
        function seg(rng, nbytes_available)->n.  Returns number of bytes moved."""
        moved = 0
        for _ in range(100000):
            self.collect()
            srcs = [ep for ep in (self.a, self.b) if self.inflight[id(ep)]]
            if not srcs:
                break
            src = rng.choice(srcs) if rng else srcs[0]
            n = seg(rng, len(self.inflight[id(src)])) if seg else None
            moved += self.deliver(src, n)
        return moved

    def propagate_closes(self):
        """Transport-level close propagation: a side that asked to close gets its connection-lost,
        and (after its in-flight bytes were delivered) the peer sees EOF/reset."""
        changed = False
        for ep in (self.a, self.b):
            if ep.close_requested and not ep.lost:
                peer = self.peer_of(ep)
                if ep.close_requested == "lose":
                    self.pump_all()
                how = ep.close_requested
                ep.finish_close()
                if not peer.lost:
                    peer.peer_close(clean=(how == "lose"))
                changed = True
        return changed


def is_open(ep):
    return getattr(ep.proto, "state", None) == 3


def app_events(ep, kinds=None):
    ev = ep.proto.__dict__.get("vf_app", [])
    if kinds:
        return [e for e in ev if e[1] in kinds]
    return list(ev)
