"""C02 receiver judge: what must an RFC 6455 endpoint do with an incoming octet stream?

Corrected and extended version of the first draft ``vf.rfc6455_ref.judge`` (which stays
untouched); written from RFC 6455 sections 5.1-5.5, 7.1.6, 7.4, 8.1 and RFC 7692 section 6/7.2,
not from the code under test.  Nothing here imports autobahn.

Differences to the draft (all found by reviewing the draft against the RFC text):

* one left-to-right pass produces a *timeline*: every event carries the stream offset at which
  it becomes due (the end of the frame that completes it) and the failure carries a window
  ``[earliest, latest]``: ``earliest`` = first offset at which the violation is decidable from the
  octets received, ``latest`` = offset by which the statement of C02 obliges the receiver to have
  failed (complete header incl. extended length AND mask key for header violations; end of the
  frame for payload violations).  The draft reported one ``fail_at`` that excluded the mask key
  for length violations and could not judge prefixes of a stream.
* a close frame whose status code AND reason are both unacceptable is decidable either way
  (the RFC does not order the two checks inside one frame): ``alt`` lists the other class.
* a text message that ends inside a code point is reported with the same class ('payload') but
  its own clause, and the fail-fast position is computed incrementally (tail of <= 3 octets), not
  by re-validating the whole message for every frame.
* compressed messages (RFC 7692): one inflater per connection (context take-over is the default
  of the negotiation used by the check), fed frame by frame, ``00 00 ff ff`` appended per message; a
  DEFLATE stream that zlib rejects, that ends the stream with BFINAL or whose stripped tail is not an
  empty stored block is *grey* from the start of that message (malformed DEFLATE is not in the
  property's violation list).  Invalid UTF-8 in the inflated text: decidable at the earliest in the
  frame in which zlib emits it, obligatory at the end of the message (an inflater may lag), events
  due in between are optional.  The draft called the caller's ``inflate`` once per message without
  state and classified inflate errors as 1007.
* nothing is judged after a valid close frame (``grey_from`` = end of that frame); close codes
  1012-1014 make the close itself grey (either a normal reply or a protocol failure).
* RSV1 on a *continuation* frame is reported before "continuation outside a message" only for
  counting; both are class 'protocol'.
"""

import struct
import zlib

from . import utf8_ref

OP_CONT, OP_TEXT, OP_BIN, OP_CLOSE, OP_PING, OP_PONG = 0, 1, 2, 8, 9, 10

# every clause the judge can report, with its class; the check requires each to be reached
CLAUSES = {
    "rsv-without-extension": "protocol",
    "unmasked-client-frame": "protocol",
    "masked-server-frame": "protocol",
    "fragmented-control": "protocol",
    "control-too-long": "protocol",
    "reserved-control-opcode": "protocol",
    "reserved-data-opcode": "protocol",
    "close-1-byte": "protocol",
    "compressed-control": "protocol",
    "rsv1-on-continuation": "protocol",
    "continuation-outside-message": "protocol",
    "data-frame-inside-message": "protocol",
    "non-minimal-length-16": "protocol",
    "non-minimal-length-64": "protocol",
    "length-msb-set": "protocol",
    "close-code-invalid": "protocol",
    "close-reason-not-utf8": "payload",
    "text-invalid-utf8": "payload",
    "text-truncated-utf8": "payload",
    "compressed-text-invalid-utf8": "payload",
}


def close_code_class(code):
    """RFC 6455 7.4.1/7.4.2 -> 'valid' | 'invalid' | 'grey' for a status code *inside a close frame*.
    0-999 not used; 1004 reserved; 1005, 1006, 1015 MUST NOT be set in a close frame; 1016-2999
    reserved for the protocol and unassigned; 3000-4999 libraries/applications; >= 5000 outside the
    defined ranges.  1012-1014 were assigned by IANA after the RFC: grey."""
    if code in (1000, 1001, 1002, 1003, 1007, 1008, 1009, 1010, 1011):
        return "valid"
    if code in (1012, 1013, 1014):
        return "grey"
    if 3000 <= code <= 4999:
        return "valid"
    return "invalid"


class Failure:
    __slots__ = ("kind", "clause", "earliest", "latest", "alt")

    def __init__(self, kind, clause, earliest, latest, alt=()):
        self.kind, self.clause, self.earliest, self.latest, self.alt = kind, clause, earliest, latest, tuple(alt)

    def kinds(self):
        return (self.kind,) + self.alt

    def __repr__(self):
        return "Failure(%s/%s window=[%d,%d] alt=%r)" % (self.kind, self.clause, self.earliest, self.latest, self.alt)


class Timeline:
    """events : [(due_offset, event)]  event = ('message', is_binary, payload) | ('ping', p) | ('pong', p)
    close    : None | (due_offset, code or None, reason_bytes, grey_code)
    failure  : None | Failure
    grey_from: None | offset after which only crash-freedom and the already-due events are asserted
    incomplete: the stream ends inside a frame header / payload / fragmented message
    frames   : number of complete frames judged well-formed"""

    def __init__(self, n):
        self.n = n
        self.events = []
        self.close = None
        self.failure = None
        self.grey_from = None
        self.incomplete = False
        self.frames = 0
        self.ncompressed = 0   # compressed messages delivered (> 1: the inflater context was carried over)
        self.compressed_due = []   # due offsets of the compressed messages among ``events``
        self.saw = set()       # feature tags for coverage accounting
        self.frame_ends = []   # end offsets of the complete frames judged well-formed (incl. a valid close frame)
        self.idle = set()      # offsets at which the receiver is between frames AND outside any data message
        self.open_at = set()   # ends of non-final text fragments after which a multi-octet UTF-8 sequence is open

    # -- what is expected after the first k octets -----------------------------------------------
    def due(self, k):
        return [ev for (d, ev) in self.events if d <= k]

    def failure_status(self, k):
        """'no' | 'maybe' | 'must'"""
        f = self.failure
        if f is None or k < f.earliest:
            return "no"
        if k >= f.latest:
            return "must"
        return "maybe"

    def summary(self):
        return {"events": [(d, e[0]) for d, e in self.events], "close": self.close and self.close[:2],
                "failure": repr(self.failure), "grey_from": self.grey_from, "incomplete": self.incomplete}


class Inflater:
    """RFC 7692 7.2.2 with context take-over: one raw-DEFLATE decompressor per connection, fed frame
    by frame (``feed``) so that the judge knows in WHICH frame inflated octets become available at the
    earliest (zlib emits everything that is decodable from the input it was given)."""

    TAIL = b"\x00\x00\xff\xff"

    def __init__(self):
        self.d = zlib.decompressobj(-15)
        self.broken = False

    def feed(self, data):
        """-> bytes, or None when the DEFLATE data is not something every inflater agrees on."""
        if self.broken:
            return None
        try:
            out = self.d.decompress(data) if data else b""
        except zlib.error:
            self.broken = True
            return None
        if self.d.eof or self.d.unused_data:
            self.broken = True
            return None
        return out

    def finish(self):
        """end of message: the stripped ``00 00 ff ff`` is appended; for data produced as RFC 7692 7.2.1
        prescribes it completes an EMPTY stored block - anything else (output, error, BFINAL) is grey."""
        out = self.feed(self.TAIL)
        if out is None or out:
            self.broken = True
            return None
        return out

    def message(self, data):
        a = self.feed(data)
        if a is None or self.finish() is None:
            return None
        return a


def _utf8_tail(prev):
    """The incomplete trailing sequence (<= 3 octets) of a byte string known to be a valid prefix."""
    for k in (1, 2, 3):
        if len(prev) < k:
            return b""
        b = prev[-k]
        if b >= 0xC0:
            t = prev[-k:]
            return t if not utf8_ref.judge(t)[1] else b""
        if b < 0x80:
            return b""
    return b""


def _xor(data, key):
    n = len(data)
    if not n:
        return b""
    k = (bytes(key) * (n // 4 + 1))[:n]
    return (int.from_bytes(data, "big") ^ int.from_bytes(k, "big")).to_bytes(n, "big")


def judge(role, stream, pmce=False):
    """``role`` is the RECEIVER ('server' receives what a client sent).  Default options of the
    implementation under test are assumed: a server requires masked frames, a client fails on
    masked frames, incoming text is UTF-8 validated, no size limits.

    Compressed text messages (RFC 7692): the inflated octets are validated frame by frame.  The frame
    in which zlib first emits an ill-formed sequence gives the EARLIEST offset at which the violation
    is decidable; an inflater may lag behind its input, so the obligation to have failed exists at
    the end of the MESSAGE at the latest (or at the next violation, whichever comes first - then
    either class is acceptable).  Control frames interleaved in between are due inside the failure
    window: the monitor treats events that fall due after ``failure.earliest`` as optional.  DEFLATE
    data that zlib rejects, that ends with BFINAL or whose stripped tail is not an empty stored block
    makes everything from the start of that message grey."""
    inflater = Inflater() if pmce else None
    tl = Timeline(len(stream))
    _judge(role, bytes(stream), pmce, tl, inflater)
    return tl


NEVER = 1 << 62     # 'latest' of a failure the stream does not oblige the receiver to have raised yet


def _judge(role, data, pmce, tl, inflater):
    n = len(data)
    i = 0
    msg = None    # dict(op, compressed, chunks, start, tail, nframes) of the data message in progress
    doom = None   # earliest offset of invalid UTF-8 seen in the inflated text of the message in progress

    def fail(kind, clause, earliest, latest, alt=()):
        assert CLAUSES[clause] == kind
        if doom is not None:
            # the message in progress already inflated to invalid UTF-8: a receiver that noticed has failed
            # with 'payload'; one whose inflater lags fails now, for the reason found here
            alt = tuple(sorted(set((kind,) + tuple(alt)) - {"payload"}))
            tl.failure = Failure("payload", "compressed-text-invalid-utf8", doom, latest, alt)
            tl.saw.add("doomed+" + clause)
        else:
            tl.failure = Failure(kind, clause, earliest, latest, alt)

    def incomplete():
        tl.incomplete = True
        if doom is not None:
            tl.failure = Failure("payload", "compressed-text-invalid-utf8", doom, NEVER)

    while i < n:
        if msg is None:
            tl.idle.add(i)
        if n - i < 2:
            return incomplete()
        b0, b1 = data[i], data[i + 1]
        fin, rsv, op = b0 >> 7, (b0 >> 4) & 7, b0 & 0x0F
        masked, l7 = b1 >> 7, b1 & 0x7F
        ext = 2 if l7 == 126 else (8 if l7 == 127 else 0)
        hdr2 = i + 2
        ext_end = hdr2 + ext
        hdr_end = ext_end + (4 if masked else 0)
        # ---- decidable from the first two octets (5.2: RSV, opcode, MASK, 7-bit length; 5.4; 5.5)
        clause = None
        if rsv and not (pmce and rsv == 4):
            clause = "rsv-without-extension"
        elif role == "server" and not masked:
            clause = "unmasked-client-frame"            # 5.1
        elif role == "client" and masked:
            clause = "masked-server-frame"              # 5.1
        elif op >= 8:
            if not fin:
                clause = "fragmented-control"           # 5.5
            elif l7 > 125:
                clause = "control-too-long"             # 5.5
            elif op not in (OP_CLOSE, OP_PING, OP_PONG):
                clause = "reserved-control-opcode"      # 5.2
            elif op == OP_CLOSE and l7 == 1:
                clause = "close-1-byte"                 # 5.5.1
            elif rsv == 4:
                clause = "compressed-control"           # RFC 7692 6.1
        else:
            if op not in (OP_CONT, OP_TEXT, OP_BIN):
                clause = "reserved-data-opcode"         # 5.2
            elif op == OP_CONT and rsv == 4:
                clause = "rsv1-on-continuation"         # RFC 7692 6.1
            elif op == OP_CONT and msg is None:
                clause = "continuation-outside-message"  # 5.4
            elif op != OP_CONT and msg is not None:
                clause = "data-frame-inside-message"    # 5.4
        if clause:
            return fail("protocol", clause, hdr2, hdr_end)
        # ---- extended payload length (5.2)
        if n < ext_end:
            return incomplete()
        if l7 == 126:
            ln = struct.unpack("!H", data[hdr2:ext_end])[0]
            if ln < 126:
                return fail("protocol", "non-minimal-length-16", ext_end, hdr_end)
        elif l7 == 127:
            ln = struct.unpack("!Q", data[hdr2:ext_end])[0]
            if ln >> 63:
                return fail("protocol", "length-msb-set", ext_end, hdr_end)
            if ln < 65536:
                return fail("protocol", "non-minimal-length-64", ext_end, hdr_end)
        else:
            ln = l7
        if n < hdr_end:
            return incomplete()
        key = data[ext_end:hdr_end] if masked else None
        frame_end = hdr_end + ln
        avail = min(ln, n - hdr_end)
        raw = data[hdr_end:hdr_end + avail]
        payload = _xor(raw, key) if key else raw
        complete = avail == ln
        tl.saw.add("len%d" % (7 if not ext else 8 * ext))
        # ---- control frames (5.5): interpreted when complete
        if op >= 8:
            if op == OP_CLOSE and doom is not None:
                # a close frame inside a message that already inflated to invalid UTF-8: a receiver that noticed
                # has failed (1007), one whose inflater lags treats the close frame on its merits: nothing
                # is asserted from here on except what was due before
                tl.failure = Failure("payload", "compressed-text-invalid-utf8", doom, NEVER)
                tl.grey_from = i
                tl.saw.add("doomed+close")
                return
            if op == OP_CLOSE and avail >= 2:
                # a partially received close payload may already show an unacceptable code
                code = struct.unpack("!H", payload[:2])[0]
                cls = close_code_class(code)
                reason = payload[2:]
                bad = utf8_ref.judge(reason)
                reason_bad = bad[2] is not None or (complete and not bad[1])
                if cls == "invalid":
                    alt = ("payload",) if reason_bad else ()
                    return fail("protocol", "close-code-invalid", hdr_end + 2, frame_end, alt)
                if reason_bad and cls == "valid":
                    e = hdr_end + 2 + bad[2] + 1 if bad[2] is not None else frame_end
                    return fail("payload", "close-reason-not-utf8", e, frame_end)
                if reason_bad and cls == "grey":
                    # grey code + bad reason: a failure is certain, its class is not
                    e = hdr_end + 2 + bad[2] + 1 if bad[2] is not None else frame_end
                    return fail("payload", "close-reason-not-utf8", e, frame_end, ("protocol",))
            if not complete:
                return incomplete()
            tl.frames += 1
            tl.frame_ends.append(frame_end)
            if op == OP_PING:
                tl.events.append((frame_end, ("ping", payload)))
                tl.saw.add("ping-inside" if msg is not None else "ping")
            elif op == OP_PONG:
                tl.events.append((frame_end, ("pong", payload)))
                tl.saw.add("pong")
            else:
                code, reason, grey = None, b"", False
                if ln >= 2:
                    code = struct.unpack("!H", payload[:2])[0]
                    reason = payload[2:]
                    grey = close_code_class(code) == "grey"
                tl.close = (frame_end, code, reason, grey)
                tl.grey_from = frame_end
                tl.saw.add("close")
                if frame_end < n:
                    tl.saw.add("data-after-close")
                return
            i = frame_end
            continue
        # ---- data frames (5.4, 5.6, 8.1)
        if op != OP_CONT:
            msg = {"op": op, "compressed": rsv == 4, "chunks": [], "start": i, "tail": b"", "nframes": 0}
        msg["nframes"] += 1
        text = payload
        if msg["compressed"]:
            text = inflater.feed(payload)
            if text is not None and complete and fin:
                text = None if inflater.finish() is None else text
            if text is None:
                tl.grey_from = msg["start"] if tl.grey_from is None else min(tl.grey_from, msg["start"])
                tl.saw.add("grey-deflate")
                if doom is not None:
                    tl.failure = Failure("payload", "compressed-text-invalid-utf8", doom, NEVER)
                return
        msg["chunks"].append(text)
        if msg["op"] == OP_TEXT and doom is None:
            probe = msg["tail"] + text
            valid, ends, bad = utf8_ref.judge(probe)
            if bad is not None:
                if not msg["compressed"]:
                    q = bad - len(msg["tail"])          # >= 0: the tail alone was a valid prefix
                    return fail("payload", "text-invalid-utf8", hdr_end + q + 1, frame_end)
                doom = hdr_end + 1                      # at least one octet of this frame was needed
                tl.saw.add("compressed-invalid-utf8-in-frame-%s" % ("first" if msg["nframes"] == 1 else "later"))
            else:
                msg["tail"] = _utf8_tail(probe) if not ends else b""
        if not complete:
            return incomplete()
        tl.frames += 1
        tl.frame_ends.append(frame_end)
        if not fin and msg["op"] == OP_TEXT and msg["tail"] and doom is None:
            tl.open_at.add(frame_end)
        if fin:
            if doom is not None:
                tl.failure = Failure("payload", "compressed-text-invalid-utf8", doom, frame_end)
                return
            if msg["op"] == OP_TEXT and msg["tail"]:
                if msg["compressed"]:
                    return fail("payload", "compressed-text-invalid-utf8", frame_end, frame_end)
                return fail("payload", "text-truncated-utf8", frame_end, frame_end)
            whole = b"".join(msg["chunks"])
            tl.events.append((frame_end, ("message", msg["op"] == OP_BIN, whole)))
            tl.saw.add("fragmented-message" if msg["nframes"] > 1 else "message")
            if msg["compressed"]:
                tl.saw.add("compressed-message")
                tl.saw.add("compressed-%s" % ("text" if msg["op"] == OP_TEXT else "binary"))
                tl.ncompressed += 1
                tl.compressed_due.append(frame_end)
                if tl.ncompressed > 1:
                    tl.saw.add("context-takeover")
            msg = None
        i = frame_end
    if msg is not None:
        incomplete()
    else:
        tl.idle.add(i)


# -------------------------------------------------------------------------------------------------
# DEFLATE payloads of an exact size (for the exhaustive header sweep with RSV1)
# -------------------------------------------------------------------------------------------------

def deflate_literals(text):
    """RFC 1951 fixed-Huffman block holding only literals < 144, followed by the empty stored block
    whose ``00 00 ff ff`` is removed (RFC 7692 7.2.1): exactly ``len(text) + 2`` octets."""
    bits = []

    def put(value, nbits, msb_first):
        if msb_first:
            for k in range(nbits - 1, -1, -1):
                bits.append((value >> k) & 1)
        else:
            for k in range(nbits):
                bits.append((value >> k) & 1)

    put(0, 1, False)      # BFINAL = 0
    put(1, 2, False)      # BTYPE = 01 fixed Huffman
    for b in text:
        if b >= 144:
            raise ValueError("literal >= 144")
        put(0x30 + b, 8, True)
    put(0, 7, True)       # end of block
    put(0, 1, False)      # BFINAL = 0
    put(0, 2, False)      # BTYPE = 00 stored; LEN/NLEN (00 00 ff ff) stripped
    while len(bits) % 8:
        bits.append(0)
    out = bytearray()
    for k in range(0, len(bits), 8):
        v = 0
        for j in range(8):
            v |= bits[k + j] << j
        out.append(v)
    return bytes(out)


class Deflater:
    """Sender side of RFC 7692 with context take-over (for generated streams): zlib raw deflate,
    Z_SYNC_FLUSH, trailing 00 00 ff ff removed."""

    def __init__(self, level=6):
        self.c = zlib.compressobj(level, zlib.DEFLATED, -15)

    def message(self, data):
        out = self.c.compress(data) + self.c.flush(zlib.Z_SYNC_FLUSH)
        assert out.endswith(b"\x00\x00\xff\xff")
        return out[:-4]

    def message_parts(self, pieces):
        """one message, sync-flushed after every piece: -> list of DEFLATE chunks such that an inflater that was
        given chunks[0..j] has emitted exactly pieces[0..j] (the flush marker of the last one is stripped)"""
        out = []
        for piece in pieces:
            c = self.c.compress(piece) + self.c.flush(zlib.Z_SYNC_FLUSH)
            assert c.endswith(b"\x00\x00\xff\xff")
            out.append(c)
        out[-1] = out[-1][:-4]
        return out


def selfcheck():
    from . import rfc6455_ref as ref

    # RFC 6455 5.7 examples
    t = judge("client", bytes.fromhex("810548656c6c6f"))
    assert [e for _, e in t.events] == [("message", False, b"Hello")] and t.failure is None
    t = judge("server", bytes.fromhex("818537fa213d7f9f4d5158"))
    assert [e for _, e in t.events] == [("message", False, b"Hello")] and t.events[0][0] == 11
    t = judge("client", bytes.fromhex("010348656c") + bytes.fromhex("890548656c6c6f") + bytes.fromhex("80026c6f"))
    assert [e for _, e in t.events] == [("ping", b"Hello"), ("message", False, b"Hello")]
    t = judge("server", bytes.fromhex("810548656c6c6f"))
    assert t.failure.clause == "unmasked-client-frame" and (t.failure.earliest, t.failure.latest) == (2, 2)
    # RFC 7692 7.2.3.1: "Hello" compressed = f2 48 cd c9 c9 07 00 ; 7.2.3.2 context take-over second message
    t = judge("client", bytes.fromhex("c107f248cdc9c90700") + bytes.fromhex("c105f200110000"), pmce=True)
    assert [e for _, e in t.events] == [("message", False, b"Hello"), ("message", False, b"Hello")], t.summary()
    # 7.2.3.1 fragmented: 41 03 f2 48 cd / 80 04 c9 c9 07 00
    t = judge("client", bytes.fromhex("4103f248cd8004c9c90700"), pmce=True)
    assert [e for _, e in t.events] == [("message", False, b"Hello")]
    # 7.2.3.3 stored block: c1 0b 00 05 00 fa ff 48 65 6c 6c 6f 00
    t = judge("client", bytes.fromhex("c10b000500faff48656c6c6f00"), pmce=True)
    assert [e for _, e in t.events] == [("message", False, b"Hello")]
    # literal encoder against zlib
    for k in (0, 1, 2, 5, 123, 124, 300):
        txt = bytes(0x20 + (j * 7) % 95 for j in range(k))
        enc = deflate_literals(txt)
        assert len(enc) == k + 2
        assert zlib.decompressobj(-15).decompress(enc + b"\x00\x00\xff\xff") == txt
    # agreement with the first draft on classes for a small structured corpus
    n = 0
    for role in ("server", "client"):
        key = b"\x01\x02\x03\x04" if role == "server" else None
        for b0 in range(256):
            for b1 in (0, 1, 2, 5, 125, 126, 127, 128, 129, 130, 253, 254, 255):
                hdr = bytes([b0, b1])
                l7 = b1 & 0x7F
                for extv in ((0, 125, 126, 65535) if l7 == 126 else ((0, 65535, 65536, 1 << 63) if l7 == 127 else (None,))):
                    s = hdr
                    if l7 == 126:
                        s += struct.pack("!H", extv)
                    elif l7 == 127:
                        s += struct.pack("!Q", extv)
                    if b1 & 0x80:
                        s += b"\x00\x00\x00\x00"
                    ln = l7 if extv is None else extv
                    if ln <= 70000:
                        s += (b"\x03\xe8" + b"a" * ln)[:ln] if (b0 & 0x0F) == 8 else b"a" * ln
                    a = judge(role, s)
                    d = ref.judge(role, s)
                    ka = a.failure.kind if a.failure else None
                    kd = d.failure[0] if d.failure else None
                    assert ka == kd, (role, s[:12].hex(), a.summary(), d.failure)
                    if not a.failure:
                        assert [e for _, e in a.events] == [tuple(e) for e in d.events if e[0] != "close"], (s[:12].hex(),)
                    n += 1
    return n
